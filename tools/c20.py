"""c20 — parts of property C20 (build configuration never changes results; async-stack bookkeeping).

ConfigMatrixPart   builds harness/evt/evt_cfg.cpp (+ chain_cfg.cpp) in each supported configuration
                   {gnu++17, gnu++20 -fcoroutines} x {-DNDEBUG, debug = assertions + async stacks} x
                   {UNIFEX_ENABLE_CONTINUATION_VISITATIONS 0, 1}, runs the SAME generated cases through every
                   build and through the Lean calculus and requires identical canonical outputs.
AsyncStackPart     (a) differential of Proto/AsyncStack.lean `step` against the real functions of
                   tracing/async_stack.hpp on generated operation scripts (debug builds, `assert` caught);
                   (b) discipline-accepted scripts must not assert on the real code;
                   (c) fixed un-erased expressions: root-stack depth / frame-chain length seen from the leaf and
                   the root receiver vs the model's prediction; async_trace (visit_continuations) monitors.
"""
import concurrent.futures, os, random, re, subprocess, time
from . import vlib
from .vlib import log
from .evt import Gen, run_lines, crash_site

EVT_DIR = os.path.join(vlib.VERIF, "harness", "evt")
LIB = ["inplace_stop_token.cpp", "async_stack.cpp", "manual_event_loop.cpp", "task.cpp"]

CONFIGS = [dict(name=f"cxx{std}-{'debug' if dbg else 'ndebug'}-v{v}", std=std, debug=dbg, visit=v)
           for std in (17, 20) for dbg in (False, True) for v in (0, 1)]
# quick: three configurations that together flip every switch away from the pinned one (cxx17-ndebug-v0, which C05 runs)
QUICK = ["cxx17-debug-v1", "cxx20-ndebug-v1", "cxx20-debug-v0"]

# the one configuration family that does not compile on the pinned tree as is (found by this check):
# with_query_value.hpp uses visit_continuations / std::invoke under #if UNIFEX_ENABLE_CONTINUATION_VISITATIONS without
# including <unifex/continuations.hpp>; debug builds get that header through sender_concepts.hpp -> inject_async_stack.hpp.
MISSING_INCLUDE_SITE = "config: with_query_value.hpp does not compile with UNIFEX_ENABLE_CONTINUATION_VISITATIONS=1 and NDEBUG (missing include of continuations.hpp)"
WORKAROUND = ["-include", "unifex/continuations.hpp"]
# connect_awaitable.hpp / task.hpp / await_transform.hpp customise visit_continuations by visiting the continuations OF their continuation
# (`visit_continuations(p.receiver_, f)`) instead of reporting the continuation itself; in debug builds the injected _rcvr_wrapper happens
# to make the receiver visible, in release builds the trace stops inside the coroutine machinery.
TRACE_SITE = "asyncstack: async_trace from a sender awaited in a task never reaches the receiver the task was connected to (release build, visitation on; debug builds do reach it)"

CHAIN_SENDER = ["then3_pending", "then3_inline", "then1_done", "let_inline", "let_pending", "when_all2", "erased", "sync_wait"]
CHAIN_CORO = ["task_await", "task_await_inline", "task_await_done", "task_nested"]
MONITOR = re.compile(r"!!(root|completion|leak|as|chain)[^,| ]*")


class GenSir(Gen):
    """Gen + the `(sir)` node (stop_if_requested), available in C++20 builds of the harness only"""

    def leafish(self, in_let):
        if self.r.random() < 0.3:
            self.size += 1
            return "(sir)"
        return super().leafish(in_let)


def flags_of(cfg, workaround=False):
    f = ["-DUNIFEX_ENABLE_CONTINUATION_VISITATIONS=%d" % cfg["visit"]]
    if cfg["debug"]:
        f.append("-UNDEBUG")     # BASE_FLAGS carries -DNDEBUG; the later -U wins.  config.hpp then turns async stacks on
    if workaround:
        f += WORKAROUND
    return f


def strip_c20_blocks(text):
    out, skip = [], False
    for line in text.split("\n"):
        if line.strip() == "//C20{":
            skip = True; continue
        if line.strip() == "//C20}":
            skip = False; continue
        if not skip:
            out.append(line)
    return "\n".join(out)


def drift():
    a = strip_c20_blocks(open(os.path.join(EVT_DIR, "evt_cfg.cpp")).read())
    b = open(os.path.join(EVT_DIR, "evt.cpp")).read()
    return None if a == b else "harness/evt/evt_cfg.cpp without its //C20{ … //C20} blocks is no longer identical to harness/evt/evt.cpp"


def build_one(cfg):
    """returns dict(exe|None, status, message, flags, wall)"""
    t0 = time.time()
    src = os.path.join(EVT_DIR, "evt_cfg.cpp")
    extra = [os.path.join(EVT_DIR, "chain_cfg.cpp")]
    std = "gnu++20" if cfg["std"] == 20 else None
    res = dict(exe=None, status="ok", message="", flags=flags_of(cfg), std="gnu++20 -fcoroutines" if std else "gnu++17")
    try:
        res["exe"] = vlib.build_plain(src, LIB, flags_of(cfg), std, sanitize="address,undefined", name="evt_cfg", extra_srcs=extra)
    except vlib.BuildError as e:
        msg = str(e)
        errs = [l.strip()[:240] for l in msg.split("\n") if " error" in l or "error:" in l][:4]
        res["message"] = " / ".join(errs) or msg[-400:]
        if "with_query_value.hpp" in msg and "visit_continuations" in msg and not cfg["debug"] and cfg["visit"] == 1:
            # not our flags: the header is not self-contained in this configuration.  Run the configuration anyway with the
            # missing header force-included, and say so.
            try:
                res["exe"] = vlib.build_plain(src, LIB, flags_of(cfg, True), std, sanitize="address,undefined", name="evt_cfg", extra_srcs=extra)
                res["status"] = "unsupported-here as is (compiler message below); run with workaround " + " ".join(WORKAROUND)
                res["flags"] = flags_of(cfg, True)
            except vlib.BuildError as e2:
                res["status"] = "unsupported-here"
                res["message"] += " // with workaround: " + str(e2)[-300:]
        else:
            res["status"] = "build-failed"
    res["wall"] = round(time.time() - t0, 1)
    return res


_builds = {}


def builds_for(tier):
    """build (cached by content) the configurations of this tier, in parallel; memoised per process"""
    names = QUICK if tier == "quick" else [c["name"] for c in CONFIGS]
    todo = [c for c in CONFIGS if c["name"] in names and (c["name"], vlib.REPO) not in _builds]
    if todo:
        with concurrent.futures.ThreadPoolExecutor(max_workers=3 if tier == "quick" else 2) as ex:
            for c, r in zip(todo, ex.map(build_one, todo)):
                _builds[(c["name"], vlib.REPO)] = r
    return [(c, _builds[(c["name"], vlib.REPO)]) for c in CONFIGS if c["name"] in names]


def assert_site(err):
    m = re.search(r"([A-Za-z_0-9./\-]+):(\d+): (.+?): Assertion `(.+?)' failed", err)
    if m:
        fn = re.sub(r"\(.*", "", m.group(3)).split(" ")[-1]
        return f"assertion `{m.group(4)[:80]}' failed in {os.path.basename(m.group(1))} {fn}"
    return crash_site(err)


def run_harness(exe, lines):
    out, crashes = run_lines(exe, lines, "")
    return out, [(k, assert_site(err), err) for k, _, err in crashes]


def root_outcomes(s):
    return [x.strip() for x in s.replace("|", ",").split(",") if x.strip().startswith("R=")]


class ConfigMatrixPart:
    name = "cfg"

    def __init__(self, n_quick=500, n_thorough=5000, max_size=12, max_size_thorough=20):
        self.n_quick, self.n_thorough, self.max_size, self.max_size_thorough = n_quick, n_thorough, max_size, max_size_thorough

    def run(self, tier, seed, verdict, cov, driver):
        t0 = time.time()
        d = drift()
        if d:
            verdict.add("cfg: harness drift", d, dict(stream="cfg"), found_input=False)
        blds = builds_for(tier)
        cfginfo = cov.setdefault("configurations", {})
        for c, b in blds:
            cfginfo[c["name"]] = dict(status=b["status"], std=b["std"], flags=" ".join(b["flags"]), build_wall_s=b["wall"],
                                      compiler_message=b["message"][:600])
            if b["status"] == "build-failed":
                verdict.add(f"cfg[{c['name']}]: does not build", "this configuration built on the pinned tree and no longer does: " + b["message"][:1200],
                            dict(stream="cfg", config=c["name"], flags=b["flags"]), found_input=False)
            if b["status"].startswith("unsupported-here") and any(k.get("site") == MISSING_INCLUDE_SITE for k in verdict.known):
                verdict.add(MISSING_INCLUDE_SITE, b["message"][:600], dict(stream="cfg", config=c["name"]), found_input=True)
        cov["configuration_enumeration"] = ("the universal statement over configurations is an ENUMERATION of the 8 supported ones "
                                            "{gnu++17, gnu++20 -fcoroutines} x {NDEBUG, debug+async stacks} x {continuation visitation 0,1}; "
                                            f"this run ({tier}) covers {len(blds)}: " + ", ".join(c["name"] for c, _ in blds) +
                                            "; the pinned configuration cxx17-ndebug-v0 is what C05 runs against the same model")
        live = [(c, b) for c, b in blds if b["exe"]]
        n = self.n_quick if tier == "quick" else self.n_thorough
        rng = random.Random(seed * 104729 + 20)
        g = Gen(rng, self.max_size if tier == "quick" else self.max_size_thorough)
        corpus = []
        cdir = os.path.join(vlib.VERIF, "corpus", "evt")
        if os.path.isdir(cdir):
            for fn in sorted(os.listdir(cdir)):
                corpus += [l.strip() for l in open(os.path.join(cdir, fn)) if l.strip() and not l.startswith("#")]
        common = corpus + [g.case(i) for i in range(n)]
        gs = GenSir(random.Random(seed * 104729 + 21), self.max_size if tier == "quick" else self.max_size_thorough)
        sir = [c for c in (gs.case(100000 + i) for i in range(n // 2)) if "(sir)" in c][: max(1, n // 5)]
        results = {}     # case -> {config: output | ("crash", site)}
        crash_err = {}
        with concurrent.futures.ThreadPoolExecutor(max_workers=3) as ex:
            def job(cb):
                c, b = cb
                t1 = time.time()
                lines = common + (sir if c["std"] == 20 else [])
                try:
                    out, crashes = run_harness(b["exe"], ["case " + l for l in lines] + ["stats"])
                except subprocess.TimeoutExpired:
                    return c, None, None, None, 0
                return c, lines, out, crashes, time.time() - t1
            for c, lines, out, crashes, wall in ex.map(job, live):
                if lines is None:
                    verdict.add(f"cfg[{c['name']}]: harness timeout", "event harness timed out", dict(stream="cfg", config=c["name"]), found_input=False)
                    continue
                for k, site, err in crashes:
                    if k < len(lines):
                        results.setdefault(lines[k], {})[c["name"]] = ("crash", site)
                        crash_err[(lines[k], c["name"])] = err
                for l, o in zip(lines, out[:len(lines)]):
                    if o is not None:
                        results.setdefault(l, {})[c["name"]] = o
                st = out[len(lines)] if len(out) > len(lines) and out[len(lines)] else ""
                cfginfo[c["name"]].update(cases=len(lines), run_wall_s=round(wall, 1), harness_stats_of_last_process=st.replace("stats ", ""),
                                          sanitizer_or_assert_aborts=len(crashes))
                # the harness reports how it was really compiled: cross-check against the requested configuration
                want = dict(ndebug="0" if c["debug"] else "1", async_stacks="1" if c["debug"] else "0", visitations=str(c["visit"]),
                            coroutines="1" if c["std"] == 20 else "0")
                got = dict(kv.split("=") for kv in st.split()[1:]) if st.startswith("stats") else {}
                bad = {k: (v, got.get(k)) for k, v in want.items() if got.get(k) != v}
                if not got:
                    cfginfo[c["name"]]["harness_stats_of_last_process"] = "none (the harness gave up after too many aborts)"
                elif bad:
                    verdict.add(f"cfg[{c['name']}]: harness not compiled as requested", f"requested vs reported: {bad}",
                                dict(stream="cfg", config=c["name"], stats=st), found_input=False)
        distinct, hist, mism = set(), {}, 0
        for l, per in results.items():
            model = driver.ask("ask calc run | " + l)
            cov["evaluations"] += len(per)
            for tok in l.split("|")[1].replace("(", " ").replace(")", " ").split():
                if tok.isalpha():
                    hist[tok] = hist.get(tok, 0) + 1
            crashed = {k: v[1] for k, v in per.items() if isinstance(v, tuple)}
            outs = {k: v for k, v in per.items() if not isinstance(v, tuple)}
            if crashed:
                if not outs and not any("assertion" in s for s in crashed.values()):
                    # every configuration aborts at the same place: a lifetime defect that is C02's to report, not a configuration difference
                    cov["skipped_aborts_identical_in_every_configuration_reported_under_C02"] = cov.get("skipped_aborts_identical_in_every_configuration_reported_under_C02", 0) + 1
                    continue
                k0 = sorted(crashed)[0]
                verdict.add(f"cfg: configuration-dependent abort: {crashed[k0]}",
                            f"case aborts in {sorted(crashed)} but not in {sorted(outs)}: {l}",
                            dict(stream="cfg", case=l, aborts=crashed, outputs=outs, model=model, report=crash_err.get((l, k0), "")[-2500:]), found_input=True)
                continue
            cov["traces_validated_against_impl"] += len(outs)
            for k, o in outs.items():
                m = MONITOR.search(o)
                if m:
                    verdict.add(f"cfg: monitor {m.group(0).split('@')[0].split('=')[0]}", f"implementation monitor fired in {k}: {o}",
                                dict(stream="cfg", case=l, config=k, impl=o, model=model), found_input=True)
            vals = set(outs.values())
            if len(vals) > 1:
                mism += 1
                by = {}
                for k, o in outs.items():
                    by.setdefault(o, []).append(k)
                ro = {o: root_outcomes(o) for o in vals}
                kind = "root outcome" if len(set(map(tuple, ro.values()))) > 1 else "trace"
                verdict.add(f"cfg: configurations disagree ({kind})", "the same case gives different observations in different builds: " +
                            " ;; ".join(f"{sorted(v)}: {o}" for o, v in by.items()) + f" ;; model: {model}",
                            dict(stream="cfg", case=l, outputs=outs, model=model), found_input=True)
            elif vals and next(iter(vals)) != model:
                mism += 1
                a = next(iter(vals))
                kind = "root outcome" if root_outcomes(a) != root_outcomes(model) else "trace"
                verdict.add(f"cfg: every configuration differs from the model ({kind})", f"impl (all of {sorted(outs)}): {a}  model: {model}",
                            dict(stream="cfg", case=l, impl=a, model=model, broken="correspondence evt vs Calc.deliver"), found_input=(kind == "root outcome"))
            elif vals:
                a = next(iter(vals))
                if "lp" in a or " | " in a.split(" | ", 1)[-1]:
                    distinct.add(a.split(" | ", 1)[-1] + "#" + l.split("|")[1])
        cov["distinct_nontrivial"] += len(distinct)
        cov["rejected_histories"] += mism
        cov.setdefault("node_histogram", {}).update(hist)
        cov["cases_common_to_all_configurations"] = len(common)
        cov["cases_with_stop_if_requested_cxx20_only"] = len(sir)
        if common and live:
            l = common[len(corpus)] if len(common) > len(corpus) else common[0]
            cov["samples"].append(dict(stream="cfg", case=l, observation_in_every_configuration=next((v for v in results.get(l, {}).values() if not isinstance(v, tuple)), None)))
        cov["parts_wall_s"]["cfg"] = round(time.time() - t0, 1)


def parse_as(tokens):
    """'as:leaf1:roots=4:chain=4:vis=8:…' -> {label: {roots:…, chain:…, …}}"""
    res = {}
    for t in tokens:
        if not t.startswith("as:"):
            continue
        p = t.split(":")
        res[p[1]] = dict(kv.split("=") for kv in p[2:])
    return res


class AsyncStackPart:
    name = "asyncstack"

    def __init__(self, n_quick=400, n_thorough=6000):
        self.n_quick, self.n_thorough = n_quick, n_thorough

    def run(self, tier, seed, verdict, cov, driver):
        t0 = time.time()
        blds = [(c, b) for c, b in builds_for(tier) if b["exe"]]
        debug = [(c, b) for c, b in blds if c["debug"]]
        if not debug:
            verdict.add("asyncstack: no debug build", "no configuration with assertions and async stacks could be built", dict(stream="asyncstack"), found_input=False)
            return
        # ---- (a)+(b): operation scripts on the real functions
        n = self.n_quick if tier == "quick" else self.n_thorough
        scripts = []
        for i in range(n):
            mode = 1 if i % 3 == 2 else 0
            s = driver.ask(f"ask asyncstack gen | {mode} {seed * 1000003 + i} {12 + (i % 5) * 8}")
            if s and not s.startswith("bad-op"):
                scripts.append((mode, s))
        targets = debug if tier == "thorough" else debug[:1]
        st = cov.setdefault("asyncstack_ops", dict(scripts=0, operations=0, ended_in_assert=0, discipline_accepted=0, discipline_accepted_balanced=0, builds=[]))
        model = {s: driver.ask("ask asyncstack ops | " + s) for _, s in scripts}
        disc = {s: driver.ask("ask asyncstack disc | " + s) for _, s in scripts}
        for c, b in targets:
            out, crashes = run_harness(b["exe"], ["ops " + s for _, s in scripts])
            st["builds"].append(c["name"])
            for k, site, err in crashes:
                verdict.add(f"asyncstack: ops harness aborted: {site}", f"script: {scripts[k][1]}", dict(stream="asyncstack", config=c["name"], script=scripts[k][1], report=err[-2000:]), found_input=True)
            for (mode, s), o in zip(scripts, out):
                if o is None:
                    continue
                o = o[4:] if o.startswith("ops ") else o
                cov["evaluations"] += 1
                cov["traces_validated_against_impl"] += 1
                st["scripts"] += 1
                st["operations"] += o.count(" | ") + 1
                if o.endswith("assert"):
                    st["ended_in_assert"] += 1
                if o != model[s]:
                    steps_i, steps_m = o.split(" | "), model[s].split(" | ")
                    k = next((i for i, (x, y) in enumerate(zip(steps_i, steps_m)) if x != y), min(len(steps_i), len(steps_m)))
                    op = s.split(";")[k] if k < len(s.split(";")) else "?"
                    verdict.add(f"asyncstack: real async-stack functions differ from the model at `{op.split(' ')[0]}`",
                                f"script {s}: after operation #{k} `{op}` impl: {steps_i[k] if k < len(steps_i) else '<end>'}  model: {steps_m[k] if k < len(steps_m) else '<end>'}",
                                dict(stream="asyncstack", config=c["name"], script=s, impl=o, model=model[s], broken="correspondence async_stack-inl.hpp vs Proto.AsyncStack.step"), found_input=True)
                if disc[s].startswith("accepted"):
                    st["discipline_accepted"] += 1
                    if "balanced=1" in disc[s]:
                        st["discipline_accepted_balanced"] += 1
                        if "assert" not in o and not o.split(" | ")[-1].startswith("c=-"):
                            verdict.add("asyncstack: balanced accepted script leaves a current root on the real code", f"script {s}: {o.split(' | ')[-1]}",
                                        dict(stream="asyncstack", config=c["name"], script=s, impl=o), found_input=True)
                    if "assert" in o:
                        verdict.add("asyncstack: discipline-accepted script fails an assertion on the real code", f"script {s}: {o}",
                                    dict(stream="asyncstack", config=c["name"], script=s, impl=o, broken_theorems=["accepted_never_asserts"]), found_input=True)
        cov["distinct_nontrivial"] += len({s for _, s in scripts if len(s.split(";")) >= 6})
        # ---- (c): fixed un-erased expressions
        pred = {nm: driver.ask(f"ask asyncstack {nm} | -") for nm in CHAIN_SENDER + ["sync_wait_nostacks"]}
        chain = cov.setdefault("asyncstack_chain", {})
        coro_nums = {}
        for c, b in blds:
            names = CHAIN_SENDER + (CHAIN_CORO if c["std"] == 20 else [])
            out, crashes = run_harness(b["exe"], ["chain " + nm for nm in names])
            for k, site, err in crashes:
                verdict.add(f"asyncstack: chain scenario aborted: {site}", f"chain {names[k]} in {c['name']}", dict(stream="asyncstack", config=c["name"], scenario=names[k], report=err[-2000:]), found_input=True)
            for nm, o in zip(names, out):
                if o is None:
                    continue
                cov["evaluations"] += 1
                cov["traces_validated_against_impl"] += 1
                toks = [t for ev in o.split(" | ")[1:] for t in ev.split(",")]
                m = MONITOR.search(o)
                if m or "unsupported" in o or "bad-op" in o:
                    verdict.add(f"asyncstack: chain monitor {(m.group(0) if m else 'unsupported').split('@')[0].split('=')[0]}", f"chain {nm} in {c['name']}: {o}",
                                dict(stream="asyncstack", config=c["name"], scenario=nm, impl=o), found_input=True)
                seen = parse_as(toks)
                chain.setdefault(nm, {})[c["name"]] = " ".join(t for t in toks if t.startswith("as:"))
                if nm in pred:
                    want = parse_as(pred[nm].split(" | "))
                    # no async stacks in NDEBUG builds: connect/start/completion emit nothing; only sync_wait's unconditional initial root remains
                    nostacks = parse_as(pred["sync_wait_nostacks"].split(" | ")) if nm == "sync_wait" else {}
                    for pn in ([nm] if c["debug"] else ["sync_wait_nostacks"] if nm == "sync_wait" else []):
                        if not pred[pn].endswith("balanced=1") or "assert" in pred[pn]:
                            verdict.add(f"asyncstack: model scenario {pn} is not accepted/balanced", pred[pn], dict(stream="asyncstack", scenario=pn), found_input=False)
                    for lab, w in want.items():
                        exp = w if c["debug"] else nostacks.get(lab, dict(roots="0", chain="0"))
                        g_ = seen.get(lab)
                        if g_ is None or g_["roots"] != exp["roots"] or g_["chain"] != exp["chain"]:
                            verdict.add(f"asyncstack: chain scenario {nm}: observation at {lab} differs from the model",
                                        f"{c['name']}: impl {g_} model roots={exp['roots']} chain={exp['chain']}  ({o})",
                                        dict(stream="asyncstack", config=c["name"], scenario=nm, impl=o, model=pred[nm]), found_input=True)
                    if set(seen) != set(want):
                        verdict.add(f"asyncstack: chain scenario {nm}: observation points differ", f"impl {sorted(seen)} model {sorted(want)}",
                                    dict(stream="asyncstack", config=c["name"], scenario=nm, impl=o, model=pred[nm]), found_input=True)
                else:
                    key = (nm, c["debug"])
                    nums = {lab: (v["roots"], v["chain"]) for lab, v in seen.items()}
                    if key in coro_nums and coro_nums[key][1] != nums:
                        verdict.add(f"asyncstack: coroutine scenario {nm} differs between configurations", f"{coro_nums[key][0]}: {coro_nums[key][1]}  {c['name']}: {nums}",
                                    dict(stream="asyncstack", scenario=nm, impl=o), found_input=True)
                    coro_nums.setdefault(key, (c["name"], nums))
                    if c["debug"] and any(int(v["roots"]) < 1 or int(v["chain"]) < 1 for v in seen.values()):
                        verdict.add(f"asyncstack: coroutine scenario {nm}: no active frame at a probe", o, dict(stream="asyncstack", config=c["name"], scenario=nm, impl=o), found_input=True)
                # async_trace (visit_continuations): a simple path; with visitation compiled in it ends at the root receiver
                for lab, v in seen.items():
                    ok = v["vispath"] == "1"
                    if c["visit"] == 0:
                        ok = ok and v["vis"] == "1" and v["visroot"] == "-1"
                    else:
                        reaches_root = nm not in ("erased", "sync_wait") or lab == "root"
                        if nm == "sync_wait":
                            reaches_root = False      # the root receiver is sync_wait's own
                        ok = ok and int(v["vis"]) >= 1 and (v["visroot"] == "1" if reaches_root else True) and (int(v["vis"]) >= 2 if lab != "root" else True)
                    if not ok:
                        site = f"asyncstack: async_trace from {lab} in {nm} is not a path to the root receiver"
                        if nm in CHAIN_CORO and lab != "root" and c["visit"] == 1 and not c["debug"] and v["vispath"] == "1":
                            site = TRACE_SITE      # one stable site for the whole family (see tools/checks/c20_mutations.md, "genuine findings")
                        verdict.add(site, f"{c['name']}, chain {nm}, probe {lab}: {v}",
                                    dict(stream="asyncstack", config=c["name"], scenario=nm, impl=o), found_input=True)
        cov["asyncstack_notes"] = ["any_sender_of's receiver forwards neither get_async_stack_frame nor visit_continuations: frame chains and async_trace stop at every type erasure "
                                   "(scenario `erased`: chain=2, visroot=0 at the leaf) — modelled as is (startOp with no receiver frame)",
                                   "coroutine scenarios (task awaiting a sender, nested tasks, done) are monitor-only: roots restored, an active frame at every probe, "
                                   "acyclic chains, identical numbers in every debug build; their operation sequences are not transcribed into the model"]
        cov["parts_wall_s"]["asyncstack"] = round(time.time() - t0, 1)
