"""loops — correspondence part for the looping algorithms outside the sender calculus (repeat_effect_until, retry_when):
scripted iterations / attempts on the REAL algorithms (harness/evt/loopprobe.cpp) vs the Lean model Proto/Loops
(`ask loops run`), plus model-independent monitors (exactly one completion; every source operation state constructed
is destroyed exactly once and none that was not constructed)."""
import itertools, os, random, subprocess, time
from . import vlib


class LoopPart:
    name = "loops"

    def run(self, tier, seed, verdict, cov, driver):
        t0 = time.time()
        try:
            exe = vlib.build_plain(os.path.join(vlib.VERIF, "harness", "evt", "loopprobe.cpp"), ["inplace_stop_token.cpp"], (), None,
                                   sanitize="address,undefined", name="loopprobe")
        except vlib.BuildError as e:
            verdict.add("loops:build", "loop probe does not build against the current tree: " + str(e)[-1500:], dict(stream=self.name), found_input=False)
            return
        r = random.Random(seed * 97 + 3)
        srcs = ["v", "v", "v", "e1", "e2", "d"]
        lines = []
        # exhaustive small scripts
        for n in (1, 2, 3):
            for it in itertools.product(["v:n", "v:y", "v:t3", "e4:n", "d:n"], repeat=n):
                lines.append("rep | " + " ".join(it))
            for at in itertools.product(["v7", "d", "e1:v", "e1:e9", "e1:d"], repeat=n):
                lines.append("ret | " + " ".join(at))
        for at in itertools.product(["e1:v", "e2:v:c5", "v7", "e3:d:c6"], repeat=3):
            if ":c" not in at[0]:
                lines.append("ret | " + " ".join(at))
        for _ in range(400 if tier == "quick" else 20000):
            if r.random() < 0.5:
                lines.append("rep | " + " ".join(f"{r.choice(srcs)}:{r.choice(['n', 'n', 'n', 'y', 't' + str(r.randint(1, 9))])}" for _ in range(r.randint(1, 7))))
            else:
                at = []
                for k in range(r.randint(1, 6)):
                    a = f"{r.choice(['e1', 'e2', 'e3', 'v' + str(r.randint(0, 9)), 'd'])}:{r.choice(['v', 'v', 'v', 'e' + str(r.randint(1, 9)), 'd'])}"
                    if k > 0 and r.random() < 0.2:
                        a += f":c{r.randint(1, 9)}"
                    at.append(a)
                lines.append("ret | " + " ".join(at))
        lines = list(dict.fromkeys(lines))
        impl, start = [None] * len(lines), 0
        env = dict(os.environ, ASAN_OPTIONS="detect_leaks=0:abort_on_error=0", UBSAN_OPTIONS="print_stacktrace=1")
        crashes = 0
        while start < len(lines) and crashes < 10:
            p = subprocess.run([exe], input="\n".join(lines[start:]) + "\n", capture_output=True, text=True, timeout=600, env=env)
            got = p.stdout.split("\n")[:-1]
            for k, g in enumerate(got[:len(lines) - start]):
                impl[start + k] = g
            if p.returncode == 0:
                break
            bad = start + len(got)
            if bad < len(lines):
                crashes += 1
                verdict.add("loops: sanitizer abort / terminate", f"the real algorithm aborted on: {lines[bad]}", dict(stream=self.name, case=lines[bad], stderr=p.stderr[-2500:]))
            start = bad + 1
        model = [driver.ask("ask loops run | " + l) for l in lines]
        mism = 0
        for l, a, b in zip(lines, impl, model):
            if a is None:
                continue
            cov["evaluations"] += 1
            cov["traces_validated_against_impl"] += 1
            if "!!" in a:
                what = a.split("!!")[1].split("=")[0]
                verdict.add(f"loops: monitor {what}", f"{l}: {a}", dict(stream=self.name, case=l, impl=a, model=b))
            if a.split(" ")[0] != b.strip():
                mism += 1
                verdict.add("loops: outcome differs from the model", f"{l}: impl {a}  model {b}", dict(stream=self.name, case=l, impl=a, model=b, broken="correspondence loopprobe vs Proto/Loops"))
            elif len(l.split()) > 3:
                cov["distinct_nontrivial"] += 1
        cov["rejected_histories"] += mism
        cov["samples"].append(dict(stream=self.name, case=lines[-1], observation=impl[-1]))
        cov["parts_wall_s"][self.name] = round(time.time() - t0, 1)
