"""atomic — generic atomic-level correspondence part (C-atomic, DESIGN §3.3).

A part = one harness binary (scenario file + /repo sources, rebuilt from the working tree) whose
scenarios are explored under the controlled scheduler; every distinct observable history must be
admitted by the Lean model configuration of the same name, and the harness' own property monitors
must stay silent."""
import time
from . import vlib
from .vlib import log


class AtomicPart:
    def __init__(self, name, scn_cpp, lib_sources, model, scenarios, std=None, extra_flags=(),
                 quick=dict(preemptions=2, max_execs=4000), thorough=dict(preemptions=3, max_execs=60000),
                 random_execs=(300, 5000), harness_args=(), always_report_rejected=False, extra_srcs=(), on_runs=None):
        self.name, self.scn_cpp, self.lib_sources, self.model = name, scn_cpp, lib_sources, model
        self.scenarios, self.std, self.extra_flags = scenarios, std, extra_flags
        self.quick, self.thorough, self.random_execs = quick, thorough, random_execs
        self.harness_args = list(harness_args)
        self.extra_srcs = list(extra_srcs)   # further harness/rt runtime files (vlib.build_rt extra_srcs)
        self.on_runs = on_runs               # optional hook: on_runs(scenario, runs, cov) after the runs of a scenario
        # report histories the model does not admit even if a monitor fired in the same scenario (for
        # scenarios with an open known finding whose failing histories the model DOES admit: the tie
        # must stay alive there)
        self.always_report_rejected = always_report_rejected

    def run(self, tier, seed, verdict, cov, driver):
        t0 = time.time()
        try:
            exe = vlib.build_rt(self.scn_cpp, self.lib_sources, self.extra_flags, self.std, **(dict(extra_srcs=self.extra_srcs) if self.extra_srcs else {}))
        except vlib.BuildError as e:
            verdict.add(f"{self.name}:build", "harness does not build against the current tree: " + str(e)[-1500:],
                        dict(stream=self.name), found_input=False)
            return
        p = self.quick if tier == "quick" else self.thorough
        nrand = self.random_execs[0 if tier == "quick" else 1]
        for scn in self.scenarios:
            runs = [vlib.run_rt(exe, scn, "dfs", p["preemptions"], p["max_execs"], seed, extra=self.harness_args)]
            if nrand and runs[0]["rc"] != -1:      # a scenario that already hung is not run again
                runs.append(vlib.run_rt(exe, scn, "random", 0, nrand, seed, extra=self.harness_args))
                runs.append(vlib.run_rt(exe, scn, "pct", 3, nrand, seed + 7, extra=self.harness_args))
            if self.on_runs:
                self.on_runs(scn, runs, cov)
            seen = {}
            for r in runs:
                st = r["stats"]
                cov["evaluations"] += st.get("executions", 0)
                cov["with_preemption"] += st.get("with_preemption", 0)
                cov["exhaustive_dfs"][f"{self.name}/{scn}"] = bool(runs[0]["stats"].get("exhausted", 0))
                for sched, why, h in r["fails"]:
                    site = f"{self.name}/{scn}: {why.split(' && ')[0][:120]}"
                    verdict.add(site, why, dict(stream=self.name, scenario=scn, schedule=sched, history=h.split(" ; "),
                                                replay_cmd=f"{exe} --scenario {scn} --replay {sched}"))
                for cnt, sched, h in r["hist"]:
                    if h not in seen:
                        seen[h] = sched
            rejected = []
            for h, sched in seen.items():
                ans = driver.ask(f"admit {self.model} {scn} | {h}")
                cov["traces_validated_against_impl"] += 1
                if ans.startswith("ok"):
                    cov["distinct_nontrivial"] += 1
                else:
                    rejected.append((h, sched, ans))
            cov["distinct_histories"][f"{self.name}/{scn}"] = len(seen)
            if seen and len(cov["samples"]) < 12:
                h0 = sorted(seen.items(), key=lambda kv: -len(kv[0]))[0]
                cov["samples"].append(dict(stream=self.name, scenario=scn, schedule=h0[1], history=h0[0]))
            if rejected:
                # The correspondence is broken for this scenario.  If a property monitor fired in the same
                # scenario the concrete failing history is already reported; otherwise report the broken
                # tie (the property is no longer shown to hold) without a failing input.
                cov["rejected_histories"] += len(rejected)
                had_monitor = any(v[0].startswith(f"{self.name}/{scn}:") for v in verdict.violations)
                if not had_monitor or self.always_report_rejected:
                    h, sched, ans = rejected[0]
                    verdict.add(f"{self.name}/{scn}: history not admitted by Lean model {self.model}",
                                f"{len(rejected)} of {len(seen)} distinct histories are not traces of the model ({ans})",
                                dict(stream=self.name, scenario=scn, schedule=sched, history=h.split(" ; "), model_answer=ans,
                                     broken=f"correspondence: trace inclusion of {self.scn_cpp}:{scn} in Lean model {self.model}/{scn}",
                                     replay_cmd=f"{exe} --scenario {scn} --replay {sched}"),
                                found_input=False)
        cov["parts_wall_s"][self.name] = round(time.time() - t0, 1)
