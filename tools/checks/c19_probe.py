"""C19 — create_basic_sender probe part (model-independent; see harness/evt/basicprobe.cpp)."""
import os, re, subprocess, time
from .. import vlib


class BasicSenderProbePart:
    """create_basic_sender on the real library (harness/evt/basicprobe.cpp, C++20): every interleaving of a natural
    completion (in the start handler / from a safe or unsafe callback / never), a stop request (never / before start /
    inside the start handler / inside a callback / after start returned / after completion) and a stop hook (nothing /
    op.set_done() / completes through a nested callback), followed by late safe callbacks.  The receiver destroys and
    poisons the operation state inside its completion.  Model-independent: the expectation is the C19 statement -
    exactly one completion, the stop hook at most once and only for a started, not yet completed operation, and no
    touch of the operation state after the winner (late safe callbacks are no-ops)."""
    name = "basicprobe"
    EXPECTED_MIN = 61
    LINE = re.compile(r"stop=(\S+) hook=(\S+) complete=(\S+) : values=(\d+) dones=(\d+) errors=(\d+) hook_runs=(\d+) "
                      r"hook_after_completion=(\d+) hook_before_start=(\d+)(?: late_cb_ran=(\d+))?( nocomplete-expected)?$")

    def run(self, tier, seed, verdict, cov, driver):
        t0 = time.time()
        src = os.path.join(vlib.VERIF, "harness", "evt", "basicprobe.cpp")
        try:
            exe = vlib.build_plain(src, [os.path.relpath(f, os.path.join(vlib.REPO, "source")) for f in sorted(__import__("glob").glob(os.path.join(vlib.REPO, "source", "*.cpp")))],
                                   (), "gnu++20", sanitize="address,undefined", name="basicprobe")
        except vlib.BuildError as e:
            verdict.add("basicprobe:build", "create_basic_sender probes do not build against the current tree: " + str(e)[-1500:], dict(stream=self.name), found_input=False)
            return
        try:
            r = subprocess.run([exe], capture_output=True, text=True, timeout=300)
            rc, out, err = r.returncode, r.stdout, r.stderr
        except subprocess.TimeoutExpired as e:
            rc, out, err = -9, (e.stdout or b"").decode("utf-8", "replace") if isinstance(e.stdout, bytes) else (e.stdout or ""), "timeout after 300 s (hang)"
        lines = [l for l in out.split("\n") if l.strip()]
        if rc != 0:
            verdict.add("basicprobe: sanitizer abort", "the create_basic_sender probes aborted (rc %s) after `%s`: %s" % (rc, lines[-1] if lines else "<nothing>", err[-1500:]),
                        dict(stream=self.name, stderr=err[-3000:], completed=lines, returncode=rc))
        parsed = 0
        for line in lines:
            m = self.LINE.match(line)
            if not m:
                continue
            parsed += 1
            cov["evaluations"] += 1
            cov["traces_validated_against_impl"] += 1
            values, dones, errors, hook_runs, hook_after, hook_before = (int(x) for x in m.groups()[3:9])
            late_ran = int(m.group(10)) if m.group(10) is not None else 0
            nocomplete = m.group(11) is not None
            payload = dict(stream=self.name, line=line)
            total = values + dones + errors
            if nocomplete:
                if total != 0:
                    verdict.add("basicprobe: completion without cause", line, payload)
            else:
                if total == 0:
                    verdict.add("basicprobe: receiver never completed", line, payload)
                elif total != 1:
                    verdict.add("basicprobe: receiver completed more than once", line, payload)
            if hook_runs > 1:
                verdict.add("basicprobe: stop hook ran more than once", line, payload)
            if hook_after != 0:
                verdict.add("basicprobe: stop hook ran after completion", line, payload)
            if hook_before != 0:
                verdict.add("basicprobe: stop hook ran before start", line, payload)
            if late_ran != 0:
                verdict.add("basicprobe: late safe callback reached the body after completion", line, payload)
        if parsed < self.EXPECTED_MIN and rc == 0:
            verdict.add("basicprobe: scenarios missing", f"{parsed} scenario lines, expected at least {self.EXPECTED_MIN}", dict(stream=self.name, output=lines[-5:]))
        cov["samples"].append(dict(stream=self.name, output=lines[:3]))
        cov["parts_wall_s"][self.name] = round(time.time() - t0, 1)
