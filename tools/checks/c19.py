"""C19 — completion vs cancellation races have one winner in the cancel wrappers
(cancellable/try_complete, detach_on_cancel, canary, stop_on_request)."""
import os
from ..atomic import AtomicPart
from ..runner import run_check

SCN = "scn_c19.cpp"
LIB = ["inplace_stop_token.cpp"]

PROP_MODULES = [
    "UnifexModel.Props.C19",
    "UnifexModel.Props.C19_sync",
    "UnifexModel.Props.C19_race",
    "UnifexModel.Props.C19_early",
    "UnifexModel.Props.C19_noarb",
    "UnifexModel.Props.C19_detach",
    "UnifexModel.Props.C19_canary",
    "UnifexModel.Props.C19_sor",
    "UnifexModel.Props.C19_after",
]

CANCELLABLE = ["c_race", "c_early", "c_noarb", "c_sync", "c_sync_early", "c_complete_during_start"]
DETACH = ["d_race", "d_detach", "d_sync"]
CANARY = ["k_guard", "k_dtors", "k_move"]   # k_move: the guard is moved into a longer-lived holder
SOR = ["s_two", "s_ext"]
AFTER = ["c_after_start", "c_noarb_after_start"]   # A and B act only after start() returned: model cancellableafter
RAW = ["r_race", "r_early"]   # C++20: cancellable{create_raw_sender<>(event-dispatch lambda)} = configurations c_race / c_early


from .c19_probe import BasicSenderProbePart


def run(tier, seed, replay=None):
    parts = [
        # always_report_rejected: the model admits the failing histories of the two known defects, so a
        # history it does NOT admit is news even in a scenario where those monitors fire
        AtomicPart("cancellable", SCN, LIB, "cancellable", CANCELLABLE, always_report_rejected=True),
        AtomicPart("cancellable_after_start", SCN, LIB, "cancellableafter", AFTER, quick=dict(preemptions=2, max_execs=5000),
                   always_report_rejected=True),
        AtomicPart("detach_on_cancel", SCN, LIB, "detachoncancel", DETACH),
        AtomicPart("canary", SCN, LIB, "canary", CANARY, quick=dict(preemptions=3, max_execs=4000), always_report_rejected=True),
        AtomicPart("stop_on_request", SCN, LIB, "stoponrequest", SOR),
        AtomicPart("create_raw_sender", SCN, LIB, "cancellable", RAW, std="gnu++20", always_report_rejected=True),
        BasicSenderProbePart(),
    ]
    # debugging aid (mutation experiments): VERIF_C19_PARTS=cancellable,canary runs only those parts
    only = [x for x in os.environ.get("VERIF_C19_PARTS", "").split(",") if x]
    if only:
        parts = [p for p in parts if p.name in only]
    return run_check(
        "C19", tier, seed, PROP_MODULES, parts,
        rule="every schedule (DFS, preemption-bounded, plus random/PCT walks) of 18 scenarios on the real cancellable<>/try_complete, "
             "detach_on_cancel, canary and stop_on_request templates under the controlled scheduler (harness nested op / child / "
             "receiver that destroys and poisons the operation state on completion, tracked heap for the detached child state); "
             "a case = one distinct observable history; non-trivial = admitted by the Lean model of the same name",
        assumptions=["sequentially consistent atomics (memory orders ignored)",
                     "inplace_stop_source behaves as in C03's model (its lock-protected regions are atomic steps here)",
                     "the nested operation of cancellable<> arbitrates completion vs stop() itself like the real ones "
                     "(v2::async_mutex, v2::async_manual_reset_event), except in c_noarb",
                     "instances: one operation, <=3 threads (theorems are per instance, all schedules of unbounded length)",
                     "create_raw_sender adds no shared state to cancellable<> (thin connect wrapper, exercised through the "
                     "library's _lambda_op in the C++20 part); create_basic_sender (recursive mutex + weak_ptr, C++20 only) is "
                     "NOT modelled; it is exercised single-threaded by a model-independent probe (harness/evt/basicprobe.cpp: where the stop is issued x "
                     "what the stop hook does x where the natural completion happens; oracle = the property sentence — a test, not a theorem)"],
        trusted_extra=["harness/rt (cooperative scheduler, __tsan_* shim)", "Core/Admit.lean trace-inclusion test",
                       "g++ 12 -fsanitize=thread instrumentation"],
        explanation="Theorems: Props/C19_* — per scenario configuration the kernel-evaluated closure of the reachable state space "
                    "(`*_safe`: full property; for cancellable with completion on another thread only `*_core` holds and "
                    "`*_touch_after_free` / `*_hook_on_completed_op` are machine-checked reachability witnesses of the two "
                    "defects in stop_type::start()). Tie: trace inclusion of real executions in the model + model-independent "
                    "monitors (completed twice/never, hook twice / on a completed op / called although try_complete() had already claimed the completion (state byte peeked at the hook's first statement), ~canary returning under a held — possibly moved — guard, write after destruction via 0xA5 poison, "
                    "child state leaked/double-freed).")
