"""C03 — stop-token protocol."""
from ..atomic import AtomicPart
from ..runner import run_check

SCENARIOS = ["race", "two_stops", "self_dereg", "dereg_other", "reg_after_stop", "two_owners", "late_stop_dereg", "late_stop_self_dereg"]


def run(tier, seed, replay=None):
    parts = [AtomicPart("stopsource", "scn_c03.cpp", ["inplace_stop_token.cpp"], "stopsource", SCENARIOS)]
    return run_check(
        "C03", tier, seed, ["UnifexModel.Props.C03", "UnifexModel.Props.C03_late"], parts,
        rule="every schedule (DFS, preemption-bounded, plus random/PCT walks) of 6 scenarios on the real inplace_stop_source under the "
             "controlled scheduler; a case = one distinct observable history; non-trivial = admitted by the Lean model after at least one context switch",
        assumptions=["sequentially consistent atomics (memory orders ignored)", "critical sections of the spin lock are atomic w.r.t. other lock holders",
                     "instances: <=2 callbacks, <=3 threads (theorems are per instance, all schedules of unbounded length)"],
        trusted_extra=["harness/rt (cooperative scheduler, __tsan_* shim)", "Core/Admit.lean trace-inclusion test", "g++ 12 -fsanitize=thread instrumentation"],
        explanation="Theorems: Props/C03 *_safe for each instance (kernel-evaluated closure of the reachable set). Tie: trace inclusion of real executions in the model.")
