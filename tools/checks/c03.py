"""C03 — stop-token protocol."""
import itertools, os, random, subprocess, time
from .. import vlib
from ..atomic import AtomicPart
from ..runner import run_check


class FusedPart:
    """operation sequences (register / deregister / upstream stop requests, every mask of live and never-stoppable upstream
    tokens) on the real fused_stop_source vs the Lean model Proto/Fused (`ask fused run`), plus a model-independent monitor:
    while registered, a stop request on a live upstream token must be visible on the fused source"""
    name = "fused"

    def run(self, tier, seed, verdict, cov, driver):
        t0 = time.time()
        try:
            exe = vlib.build_plain(os.path.join(vlib.VERIF, "harness", "evt", "fusedprobe.cpp"), ["inplace_stop_token.cpp"], (), None,
                                   sanitize="address,undefined", name="fusedprobe")
        except vlib.BuildError as e:
            verdict.add("fused:build", "fused_stop_source probe does not build against the current tree: " + str(e)[-1500:], dict(stream=self.name), found_input=False)
            return
        alphabet = ["R", "D", "S0", "S1", "S2"]
        masks = ["".join(m) for m in itertools.product("01", repeat=3)]
        seqs = [list(p) for n in range(1, 5) for p in itertools.product(alphabet, repeat=n)]          # all sequences up to length 4
        r = random.Random(seed * 31 + 5)
        seqs += [[r.choice(alphabet) for _ in range(r.randint(5, 9))] for _ in range(300 if tier == "quick" else 5000)]
        lines = [f"{m} | {' '.join(q)}" for m in masks for q in seqs]
        p = subprocess.run([exe], input="\n".join(lines) + "\n", capture_output=True, text=True, timeout=600)
        impl = p.stdout.split("\n")[:len(lines)]
        if p.returncode != 0 or len(impl) < len(lines):
            verdict.add("fused: probe aborted", "fusedprobe aborted: " + p.stderr[-1500:], dict(stream=self.name, stderr=p.stderr[-3000:]))
            return
        model = [driver.ask("ask fused run | " + l) for l in lines]
        mism = 0
        for l, a, b in zip(lines, impl, model):
            cov["evaluations"] += 1
            cov["traces_validated_against_impl"] += 1
            # model-independent monitor: R ... S<i> with token i live and no D in between => fused must be stopped after S<i>
            mask, ops = l.split(" | ")
            reg = False
            for k, (op, f) in enumerate(zip(ops.split(), a.split())):
                if op == "R": reg = True
                elif op == "D": reg = False
                elif reg and mask[int(op[1])] == "1" and f != "1":
                    verdict.add("fused: monitor: upstream stop request not forwarded while registered", f"{l}: after op {k} ({op}) the fused source does not report stop: {a}",
                                dict(stream=self.name, case=l, impl=a, model=b))
                    break
            if a.strip() != b.strip():
                mism += 1
                verdict.add("fused: trace differs from the model", f"{l}: impl {a}  model {b}", dict(stream=self.name, case=l, impl=a, model=b, broken="correspondence fusedprobe vs Proto/Fused"))
            elif "1" in a:
                cov["distinct_nontrivial"] += 1
        cov["rejected_histories"] += mism
        cov["samples"].append(dict(stream=self.name, case=lines[len(lines) // 2], observation=impl[len(lines) // 2]))
        cov["parts_wall_s"][self.name] = round(time.time() - t0, 1)

SCENARIOS = ["race", "two_stops", "self_dereg", "dereg_other", "reg_after_stop", "two_owners", "late_stop_dereg", "late_stop_self_dereg"]


def run(tier, seed, replay=None):
    parts = [AtomicPart("stopsource", "scn_c03.cpp", ["inplace_stop_token.cpp"], "stopsource", SCENARIOS), FusedPart()]
    return run_check(
        "C03", tier, seed, ["UnifexModel.Props.C03", "UnifexModel.Props.C03_late", "UnifexModel.Props.C03_fused"], parts,
        rule="(fused_stop_source) every register/deregister/upstream-stop sequence up to length 4 plus random longer ones, for all 8 masks of live / never-stoppable upstream tokens, "
             "on the real fused_stop_source, compared with the Lean model Proto/Fused; (inplace_stop_source) every schedule (DFS, preemption-bounded, plus random/PCT walks) of 8 scenarios on the real inplace_stop_source under the "
             "controlled scheduler; a case = one distinct observable history; non-trivial = admitted by the Lean model after at least one context switch",
        assumptions=["sequentially consistent atomics (memory orders ignored)", "critical sections of the spin lock are atomic w.r.t. other lock holders",
                     "instances: <=2 callbacks, <=3 threads (theorems are per instance, all schedules of unbounded length)"],
        trusted_extra=["harness/rt (cooperative scheduler, __tsan_* shim)", "Core/Admit.lean trace-inclusion test", "g++ 12 -fsanitize=thread instrumentation"],
        explanation="Props/C03_fused (every token set, every operation sequence): fused_stop_only_after_an_upstream_stop, registered_upstream_stop_reaches_fused, one_live_token_suffices, "
                    "earlier_stop_seen_at_registration. Theorems: Props/C03 *_safe for each instance (kernel-evaluated closure of the reachable set). Tie: trace inclusion of real executions in the model.")
