"""C18 — type-erased wrappers behave exactly like the object they wrap."""
from ..c18 import AnyObjPart, WrapInsertPart, TokenAdapterPart, DirectPart, EStreamPart
from ..runner import run_check


def replay_case(path):
    """re-run ONE recorded case (replays/C18_*.json) on the real code and on the model; exit 1 if it still fails"""
    import json, os
    from .. import vlib, evt
    from ..c18 import HERE, evt_exe, run_lines
    rec = json.load(open(path))
    stream, case = rec.get("stream"), rec.get("case")
    if not case:
        print("replay: record has no case (proof-gate or build failure): " + rec.get("what", "")[:300]); return 1
    drv = vlib.Driver()
    try:
        if stream == "anyobj":
            exe = vlib.build_plain(os.path.join(HERE, "anyobj.cpp"), [], (), None, sanitize="address,undefined", name="anyobj")
            out, crashes = run_lines(exe, [case], "case ")
            model = drv.ask("ask anyobj run | " + case)
        elif stream == "estream":
            exe = vlib.build_plain(os.path.join(HERE, "estream.cpp"), ["inplace_stop_token.cpp"], (), None, sanitize="address,undefined", name="estream")
            out, crashes = run_lines(exe, [case], "case ")
            model = drv.ask("ask estream run | " + case)
        else:
            exe = evt_exe("evt_tok", "evt_tok.cpp") if stream == "tokadapter" else evt_exe()
            out, crashes = run_lines(exe, [case], "case ")
            model = drv.ask("ask calc run | " + (rec.get("original") or case))
    finally:
        drv.close()
    print("case :", case); print("impl :", out[0] if not crashes else "ABORT " + crashes[0][1]); print("model:", model)
    bad = bool(crashes) or out[0] != model or "!!adapter" in (out[0] or "") or "!!token" in (out[0] or "") or "!!leak" in (out[0] or "") or "!!read-of-destroyed" in (out[0] or "")
    print("VIOLATION property=C18 replay=" + path if bad else "replay: no longer failing")
    return 1 if bad else 0


def run(tier, seed, replay=None):
    if replay:
        return replay_case(replay)
    parts = [AnyObjPart(), WrapInsertPart(), TokenAdapterPart(), EStreamPart(), DirectPart()]
    return run_check(
        "C18", tier, seed, ["UnifexModel.Props.C18", "UnifexModel.Props.C18_stream"], parts,
        rule="(anyobj) type-directed op sequences of 1..30 ops (construct in place / converting / allocator_arg, move-construct, move-assign incl. self, "
             "value-assign, swap, invoke, throwing invoke, destroy, arm-the-throwing-move; ~5% of the ops ignore the generator's picture of the slots) over "
             "tracked payloads sn/st/lg/oa on 5 basic_any_object instantiations + any_unique, plus a malformed stream (35% damaged tokens): REAL wrappers "
             "(ASan+UBSan) vs the Lean state machine, full per-op event trace equality; (wrapinsert) C05-generator sender expressions run on the real "
             "library as generated and with an any_sender_of layer inserted at a random node: identical canonical traces; (tokadapter) the same "
             "expressions with a root receiver whose stop token is a harness type: adapter unsubscribed at root completion, nothing left registered, trace "
             "(incl. stop notifications at the leaves) equal to the Lean calculus; (estream) next/fire/cleanup sequences (1..14 ops, inline and pending completions, scripted throwing element "
             "moves in a third of the cases, ~6% protocol-ignoring and malformed ops) on a harness stream whose next() keeps a TRACKED element in its operation "
             "state and completes with a reference to it, consumed directly and through 1 / 2 genuine layers of type_erase<Elem> (and type_erase of an erased "
             "stream): full element-event trace equality with the Lean model, monitors read-of-destroyed / copy / double-dtor / leak-elem, and a "
             "model-independent differential 'erased yields the values and results of the wrapped stream'; (direct) any_scheduler equality and "
             "type_erased_stream<int> against the wrapped objects. distinct non-trivial = distinct traces containing a payload move or a thrown move (anyobj) / a pending leaf or stop "
             "notification (sender parts)",
        assumptions=["single thread: the wrappers have no internal synchronisation, all their state is owned by the caller",
                     "payload classes: 8-byte nothrow-move, 8-byte throwing-move, 72-byte, 64-byte/64-aligned; allocators: global new, counting allocator with identity",
                     "the payload's move constructor throws only when armed and before modifying its source; destructors and get_val do not throw",
                     "any_ref and the vtable casts between holder kinds are exercised only through any_sender_of's receiver_ref / any_scheduler_ref",
                     "sender part: algorithm set and event serialisation of C05"],
        trusted_extra=["harness/evt/anyobj.cpp (tracked payloads, counting allocator, renders events)", "harness/evt/evt.cpp, harness/evt/evt_tok.cpp (harness stop token)",
                       "harness/evt/anysched.cpp", "harness/evt/estream.cpp (tracked elements, harness stream keeping the element in its operation state)", "tools/c18.py generators and diff", "g++ 12, ASan/UBSan"],
        explanation="Theorems (Props/C18), any_object/any_unique for EVERY instantiation and EVERY op sequence: wrapped_destroyed_once (each payload id: at most one "
                    "dtor event ever, exactly one once all variables are destroyed, none before construction) + destroyed_exactly_once_after_cleanup, "
                    "no_copies_ever, alloc_balance (per allocator: deallocations <= allocations, difference = heap states owned, equal at the end), "
                    "inline_never_allocates, move_never_allocates, move_transfers_value / move_assign_transfers_value (the target yields the source's value; the "
                    "source keeps a null pointer or the moved-from inline remainder), self_move_assign_noop, invoke_transparent (value or exception of the wrapped "
                    "payload, inline or heap), construct_then_invoke, constructed_count. any_sender_of: erase_transparent (for every expression, leaf script and "
                    "event sequence the wrapped run has the same outputs and root signals), via erase_transparent_step/run. type_erased_stream (Props/C18_stream, every number "
                    "of layers, every next/fire/cleanup sequence incl. throwing element moves): erased_stream_reads_live (the consumer never reads a destroyed element and "
                    "always reads the element's own value), erased_stream_elements_destroyed_once, erased_stream_no_copies, erased_stream_transparent (results and values "
                    "read equal those of the wrapped stream used directly), erased_stream_throw_becomes_error. Tie: differential runs described in the rule.")
