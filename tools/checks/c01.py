"""C01 — every started operation completes exactly once, never before start."""
from ..atomic import AtomicPart
from ..evt import EventPart
from ..runner import run_check

# schedule level: the REAL when_all / when_all_range / stop_when under the controlled scheduler
# (harness/rt/scn_c0104.cpp); each scenario has a Lean configuration of the same name
# (Proto/WhenAll.lean, Proto/StopWhen.lean).  The other scenarios of that file run under C04.
WA_SCENARIOS = ["wa1_stop", "wa2_race", "wa2_stop", "wa2_valinl_stop", "wa3_fail", "wa3_fail_inl", "war2_stop"]
SW_SCENARIOS = ["sw_race", "sw_stop", "sw_mix", "sw_trigger", "sw_src_err"]
QUICK = dict(preemptions=2, max_execs=1000)
THOROUGH = dict(preemptions=3, max_execs=60000)
RANDOM = (300, 5000)


def atomic_parts():
    return [
        AtomicPart("whenall", "scn_c0104.cpp", ["inplace_stop_token.cpp"], "whenall", WA_SCENARIOS,
                   quick=QUICK, thorough=THOROUGH, random_execs=RANDOM),
        AtomicPart("stopwhen", "scn_c0104.cpp", ["inplace_stop_token.cpp"], "stopwhen", SW_SCENARIOS,
                   quick=QUICK, thorough=THOROUGH, random_execs=RANDOM),
    ]


def run(tier, seed, replay=None):
    parts = [EventPart("evt", report_crashes=False)] + atomic_parts()
    return run_check(
        "C01", tier, seed,
        ["UnifexModel.Props.C01", "UnifexModel.Props.C01_Atomic", "UnifexModel.Props.C01_AtomicInst", "UnifexModel.Props.C01_AtomicSW"], parts,
        rule="(event level) generated sender expressions + event scripts (see C05) on the real library with a counting root receiver: completion before start, second completion, "
             "or no completion at quiescence (all leaves drained) are monitor violations; every trace is also compared with the Lean calculus. "
             "(schedule level) the real when_all/when_all_range/stop_when with manual leaves completed from 1-3 threads plus a stop thread under the controlled scheduler "
             "(DFS with preemption bound, random and PCT walks); monitors: root signalled twice / never at quiescence / before all children completed / op-state storage written after "
             "destruction; a case = one distinct observable history, non-trivial = admitted by the Lean protocol model of the same name",
        assumptions=["event level: external events serialised (concurrent completions are the atomic-level parts)", "leaves obey the sender contract (complete once)",
                     "schedule level: sequentially consistent atomics (memory orders ignored); the operation has been started before the threads race "
                     "(stop before/during start() is covered at the event level); leaves deregister their stop callback before completing",
                     "parametric theorems (all N, all schedules) for when_all/when_all_range; stop_when and deadlock-freedom/result precedence per instance"],
        trusted_extra=["harness/evt/evt.cpp", "tools/evt.py", "g++ 12, ASan/UBSan", "harness/rt (cooperative scheduler, __tsan_* shim)", "Core/Admit.lean trace-inclusion test"],
        explanation="Theorems (Props/C01): root_at_most_once (any expression, any leaf script, ANY event sequence incl. nonsense events: at most one completion signal), "
                    "root_silent_before_start (no output and no signal before start / if never started), no_lost_completion (a running operation always has a pending leaf below it: coherence invariant Coh proved for every clause, Calc/Coh.lean), finishing_signals / start_finishing_signals (becoming finished = signalling), built on signal_finishes + finished_inert + idle_silent. "
                    "Props/C01_Atomic (when_all/when_all_range atomic protocol, ALL N >= 1, all configurations, all schedules, by invariant induction): deliver_at_most_once, elected_once, "
                    "refcount_counts_owners, deliver_only_after_all_children, deliver_happens, exactly_once_at_end, result_precedence (receiver-stop > first error/done > values), "
                    "no_result_before_signal; Props/C01_AtomicInst, instances by kernel reflection (safe = also deadlock-freedom of the blocking deregistrations): wa2_race, wa1_stop, "
                    "wa2_valinl_stop, wa3_fail_inl; Props/C01_AtomicSW: stop_when instances sw_race, sw_mix, "
                    "sw_trigger, sw_src_err (exactly once, after both children, result = source's). Scenarios wa2_stop, wa3_fail, war2_stop, sw_stop are tied to the same models (trace inclusion) "
                    "but too large for kernel reflection; for when_all they are covered by the parametric theorems.")
