"""C01 — every started operation completes exactly once, never before start."""
from ..evt import EventPart
from ..runner import run_check


def run(tier, seed, replay=None):
    parts = [EventPart("evt", report_crashes=False)]
    return run_check(
        "C01", tier, seed, ["UnifexModel.Props.C01"], parts,
        rule="generated sender expressions + event scripts (see C05) on the real library with a counting root receiver: completion before start, second completion, "
             "or no completion at quiescence (all leaves drained) are monitor violations; every trace is also compared with the Lean calculus",
        assumptions=["external events serialised; concurrent completions: see the atomic-level parts", "leaves obey the sender contract (complete once)"],
        trusted_extra=["harness/evt/evt.cpp", "tools/evt.py", "g++ 12, ASan/UBSan"],
        explanation="Theorems (Props/C01): root_at_most_once (any expression, any leaf script, ANY event sequence incl. nonsense events: at most one completion signal), "
                    "root_silent_before_start (no output and no signal before start / if never started), no_lost_completion (a running operation always has a pending leaf below it: coherence invariant Coh proved for every clause, Calc/Coh.lean), finishing_signals / start_finishing_signals (becoming finished = signalling), built on signal_finishes + finished_inert + idle_silent.")
