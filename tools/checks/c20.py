"""C20 — build configuration never changes results; async-stack bookkeeping is balanced."""
import json, sys
from ..c20 import ConfigMatrixPart, AsyncStackPart, builds_for, run_harness, QUICK
from ..runner import run_check
from .. import vlib


def replay(path):
    """re-run the input of a replay file in every quick configuration and in the model; prints what each says"""
    p = json.load(open(path))
    drv = vlib.Driver()
    blds = [(c, b) for c, b in builds_for("quick") if b["exe"]]
    if "case" in p:
        print("model :", drv.ask("ask calc run | " + p["case"]))
        for c, b in blds:
            if "(sir)" in p["case"] and c["std"] != 20:
                continue
            out, crashes = run_harness(b["exe"], ["case " + p["case"]])
            print(f"{c['name']:>18}:", out[0] if out[0] is not None else "ABORT " + "; ".join(s for _, s, _ in crashes))
    elif "script" in p:
        print("model :", drv.ask("ask asyncstack ops | " + p["script"]))
        print("disc  :", drv.ask("ask asyncstack disc | " + p["script"]))
        for c, b in blds:
            if c["debug"]:
                out, _ = run_harness(b["exe"], ["ops " + p["script"]])
                print(f"{c['name']:>18}:", out[0])
    elif "scenario" in p:
        if not p["scenario"].startswith("task"):
            print("model :", drv.ask(f"ask asyncstack {p['scenario']} | -"))
        for c, b in blds:
            out, _ = run_harness(b["exe"], ["chain " + p["scenario"]])
            print(f"{c['name']:>18}:", out[0])
    else:
        print("nothing to replay in", path, "-", p.get("what", ""))
    drv.close()
    return 0


def run(tier, seed, replay_path=None):
    if replay_path:
        return replay(replay_path)
    parts = [ConfigMatrixPart(), AsyncStackPart()]
    return run_check(
        "C20", tier, seed, ["UnifexModel.Props.C20"], parts,
        rule="(cfg) the type-directed random sender expressions and event scripts of C05 (tools/evt.Gen; plus stop_if_requested cases for the C++20 builds) are run "
             "through harness/evt/evt_cfg.cpp built in each configuration of the tier (quick: " + ", ".join(QUICK) + "; thorough: all 8) and through the Lean calculus; "
             "every build's canonical per-event observation must equal the model's, hence each other's; every build also carries monitors (root completes once, no leak, "
             "AsyncStackRoot null and unchanged around every external event, an active frame with an acyclic parent chain at every leaf start and at the root completion). "
             "(asyncstack) seeded operation scripts (2/3 free: operations the model enables plus arbitrary ones that may assert; 1/3 accepted by the discipline) are executed on "
             "the REAL tracing/async_stack.hpp functions (assert caught) and on Proto.AsyncStack.step, object graphs compared after every operation; fixed un-erased "
             "expressions compare root-stack depth and frame-chain length at the leaf and at the root receiver with the model. A case counts as distinct non-trivial as in C05 "
             "(pending leaf or stop notification, new canonical trace) or, for scripts, when it has at least 6 operations and is new",
        assumptions=["the universal statement over build configurations is an enumeration of the 8 supported ones (finite; thorough covers all, quick covers 3 that flip every switch); "
                     "the pinned configuration cxx17-ndebug-v0 is covered by C05 against the same model",
                     "compilers are trusted: g++ 12 -O1 with ASan+UBSan in every configuration; all linked /repo sources are compiled with the configuration's flags",
                     "external events are serialised (single thread); the async-stack model is one thread's view (frames migrate between threads only while not active)",
                     "expressions: the algorithm set of Calc/Sem.lean (see C05); streams and the coroutine programs of C10/C13 are not re-run per configuration here, "
                     "coroutines appear in the fixed chain scenarios (monitor-only)",
                     "the discipline automaton (Proto.AsyncStack.gstep) is a transcription, by reading, of how inject_async_stack.hpp, sync_wait.hpp, connect_awaitable.hpp, "
                     "await_transform.hpp and task.hpp call the async-stack functions; it is validated on the fixed scenarios and by the monitors, not derived mechanically",
                     "a destroyed AsyncStackRoot never gets its identity back in the model; the real code compares raw pointers, so a reused stack address can make an assertion pass "
                     "that the model reports"],
        trusted_extra=["harness/evt/evt_cfg.cpp = evt.cpp + marked additions (checked for drift on every run), harness/evt/chain_cfg.cpp", "tools/c20.py, tools/evt.py generator",
                       "g++ 12, ASan/UBSan, glibc __assert_fail interposition in the harness"],
        explanation="Theorems (Props/C20): accepted_never_asserts — every operation sequence the discipline accepts runs on the state machine of async_stack-inl.hpp/async_stack.cpp without "
                    "tripping an assertion, from every agreeing state; async_stack_balanced — when the ghost root stack is back where it was, the thread's current root, every previously "
                    "open root's active frame and next pointer are what they were, every root opened meanwhile is destroyed with no active frame, and every frame that is not some root's "
                    "active frame has been deactivated exactly as often as activated; trace_chain_leaf_to_root — at every prefix, the parent chain from the active frame is finite, "
                    "duplicate free, ends at a parentless frame and equals what getAsyncStackTraceFromInitialFrame returns; then_family_accepted_and_balanced — for EVERY n (induction) the operations emitted for then^n(leaf) are accepted, run without assertion and "
                    "end balanced; then_chains_*, then_chain_depths, thenOps_is_thenPending — kernel-checked instances (depths seen by the leaf and the root receiver). "
                    "Tie: see rule. A configuration that does not compile on the unchanged tree is listed under coverage.configurations as unsupported-here with the compiler "
                    "message (and run with the stated workaround), not reported as a violation; a configuration that stops compiling is.")
