"""C10 — coroutine tasks map sender results faithfully and always run their cleanup."""
from ..coro import CoroPart
from ..runner import run_check


def run(tier, seed, replay=None):
    if replay:
        from .. import vlib
        from ..coro import replay as do_replay
        d = vlib.Driver()
        try:
            return do_replay(replay, d)
        finally:
            d.close()
    parts = [CoroPart("coro")]
    return run_check(
        "C10", tier, seed, ["UnifexModel.Props.C10"], parts,
        rule="generated coroutine PROGRAMS (task nesting depth <= 4, <= 6 leaf awaits incl. cleanup leaves, 0-3 at_coroutine_exit cleanups per frame, "
             "try/catch around awaits, co_await schedule(k) rescheduling, plain awaitables (ready / await_suspend returning false, true, void, a handle), stop_if_requested() by both routes (awaiter and sender operation), every exit path: fall off the end / co_return / throw / awaited error / awaited done / stop_if_requested) with scripted "
             "leaves (inline or pending; value/error/done; reaction to stop: ignore or complete with value/error/done; scheduler-affine or not), both "
             "scheduler modes (inline / manual queue, 4 tagged schedulers), three kinds of receiver (inplace_stop_token; no stop token: task connects without the stop-request thunk; foreign stop-token type that COUNTS the callbacks registered on it: inplace_stop_token_adapter, nothing may stay registered after a value/error completion nor after destruction; a late stop request is issued after every operation state is destroyed), two build configurations of the real library (-DNDEBUG, and without NDEBUG = async stacks on: awaitable_wrapper / coro_resumer, UNIFEX_ASSERT active; corpus + every case with a plain awaitable + every 3rd program), and for every program ONE base event script plus the same script with a stop "
             "request inserted at EVERY position (before start, after start, after every completion / scheduler step); each case runs on the REAL "
             "unifex::task<> through ONE interpreter coroutine (C++20, ASan+UBSan, allocation balance, per-frame destruction counters) and on the Lean "
             "machine; observations are compared token for token in emission order; a case is distinct non-trivial when it has at least two events "
             "and its (trace, program) pair is new",
        assumptions=["external events are serialised (single thread): the stop request 'from another thread' is an event between two others; the atomic "
                     "refCount_ join of the stop-request thunk is modelled at event granularity (started / finished), not at atomic-step granularity",
                     "the compiler's coroutine lowering (g++ 12 -fcoroutines) and symmetric transfer are trusted",
                     "cleanup actions are synchronous or await one manual leaf that completes with a value (error/done inside a cleanup is std::terminate: "
                     "modelled as `terminate`, not generated)",
                     "statement set: co_await sender / task (optionally in try/catch), at_coroutine_exit, co_return, throw, stop_if_requested, co_await schedule(k); "
                     "NOT modelled: a task connected as a sender inside another task (done_as_optional(task) …), async stack frames; the library-internal "
                     "reschedule-back cleanup (label 0) is visible only through its schedule() (`sq`)",
                     "task_as_sender_outcome is for programs whose awaits complete inline and that do not reschedule; pending awaits and rescheduling are "
                     "covered by the invariant theorems, the step lemmas and the differential tie"],
        trusted_extra=["harness/evt/coro.cpp (interpreter coroutine, manual leaf senders and scheduler, tracked frame/local objects)",
                       "tools/coro.py generator, diff and independent trace monitor", "g++ 12 -std=gnu++20 -fcoroutines, ASan/UBSan"],
        explanation="Theorems (Props/C10, all for every program and leaf script): await_value / resumed_with_value, await_error_rethrows, await_done_unwinds + "
                    "done_unwinds_to_receiver (cancellation passes every parent, try blocks included, after all cleanups innermost-first), task_as_sender_outcome "
                    "(+_stopped): start() of an inline program completes the receiver with exactly evalProg's outcome after exactly evalProg's cleanup list, "
                    "exit_runs_cleanups_then_awaiter / popped_only_after_cleanups / registration_is_lifo (exit order), "
                    "cleanups_run_once_reverse_order_before_parent (INVARIANT over all event sequences: exited frames have run every registered cleanup once, "
                    "trace cleanups = reverse of trace registrations; receiver completed only with an empty stack), frames_destroyed_at_most_once and "
                    "frames_destroyed_once (at the end every frame ever created was destroyed exactly once), stop_reaches_current_await (+_via_scheduler, "
                    "stop_does_not_reach_cleanup, unstoppable_receiver_ignores_stop), root_completed_at_most_once, settle_quiescent, stop_if_requested_routes_agree (awaiter and sender route: cancel iff stop was REQUESTED), await_plain_no_suspend / stop_does_not_reach_plain_awaitable, nothing_left_on_receiver_stop_token (Calc/CoroTok: at most one registration on the receiver's stop token, none after a value/error completion, none after destruction).  Tie: full-trace equality with the real library on "
                    "generated programs; an independent Python trace monitor re-checks the cleanup/lifetime discipline on the implementation's trace; "
                    "a differing root outcome or cleanup/lifetime projection is a concrete failing input, any other trace difference a broken correspondence.")
