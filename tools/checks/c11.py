"""C11 — completions happen on the promised context; the static sender traits are sound."""
from ..ctx import CtxPart
from ..gen_typed import TypedPart
from ..runner import run_check


def run(tier, seed, replay=None):
    parts = [CtxPart("ctx"), TypedPart("typed")]
    return run_check(
        "C11", tier, seed, ["UnifexModel.Props.C11"], parts,
        rule="(ctx) random sender expressions (size<=12 quick / <=22 thorough, 26 node kinds incl. via typed_via on with_scheduler_affinity "
             "with_query_value(get_scheduler) schedule(s) schedule() never) over 4 manual tagged schedulers + inline_scheduler, scripted leaves, "
             "scripted external events each on a named context (start, stop, leaf completions on foreign contexts, contexts running their items in "
             "smallest/largest-tag order); run on the REAL library (every node erased with any_sender_of<int>, get_scheduler forwarded as "
             "any_scheduler_ref, ASan+UBSan) and on the Lean calculus, per-event observations with contexts compared; distinct non-trivial = "
             "observations on >=2 contexts with a new trace. (typed) 128 quick / 1500 thorough CONCRETE sender types from the same grammar: "
             "sender_traits<S>::{blocking,is_always_scheduler_affine,sends_done} and blocking(s) printed by the compiler's program must equal the "
             "Lean trait functions; each is run and must satisfy its declared traits (always[_inline] => completed inside start() on the starting "
             "context; sends_done=false => never done; affine => completion on the receiver's scheduler's context) and match the Lean run",
        assumptions=["external events are serialised (single thread; the 'current context' is a harness variable set by the event loop)",
                     "the manual scheduler completes an item with done iff its receiver's stop token is stopped when the context runs it; "
                     "its schedule sender declares blocking=never, is_always_scheduler_affine=false, sends_done=true",
                     "get_scheduler is lexically scoped (only with_query_value replaces it); schedule() is resolved to the scheduler in scope at connect",
                     "algorithm set of Calc/Ctx.lean; task<> (C++20 coroutines), async_manual_reset_event, async_mutex, async_pass are not in the calculus",
                     "thread identity is not modelled: `always` and `always_inline` coincide in the single-threaded harness"],
        trusted_extra=["harness/evt/ctx.cpp + ctx_common.hpp + typed_common.hpp", "tools/ctx.py, tools/gen_typed.py (generators, diff)",
                       "g++ 12 -std=gnu++20, ASan/UBSan"],
        explanation="Theorems (Props/C11, all expressions / leaf scripts / event sequences): via_completes_on_scheduler, typed_via_completes_on_scheduler "
                    "(root signal only inside `run c`), on_starts_on_scheduler (nothing of the child happens before context c runs an item), sync_sound / "
                    "always_inline_sound / always_sound (declared blocking <= always => signal inside start on the starting context), "
                    "sends_done_false_sound (unconditional) + sends_done_sem_sound + dematerialize_declares_source, affine_sound (Scoped = the contract of "
                    "with_scheduler_affinity) + with_query_value_not_affine, on_not_affine, with_affinity_rehops_replaced_scheduler. "
                    "Tie: full per-event trace equality (with contexts) of the real library and Ctx.step on generated cases; equality of the "
                    "compiler-computed traits with the Lean trait functions on the typed corpus.")
