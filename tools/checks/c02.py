"""C02 — operation states and captured objects are destroyed exactly once, never early."""
from ..evt import EventPart
from ..runner import run_check
from ..loops import LoopPart


def run(tier, seed, replay=None):
    parts = [EventPart("evt", report_crashes=True, src_file="evt_tv.cpp", faults_quick=112, faults_thorough=112), LoopPart()]
    return run_check(
        "C02", tier, seed, ["UnifexModel.Props.C02"], parts,
        rule="generated sender expressions + event scripts (see C05) on the REAL library, with a TRACKED value type travelling through the tree (constructions/destructions counted, "
             "live count must return to zero after each case), built with ASan+UBSan and an allocation-balance monitor per case; FAULT INJECTION (both tiers): for a fixed, seed-independent corpus of 100 generated cases "
             "every single throw point k = 1..min(moves,10) is tried (the k-th move of a tracked value throws) and the monitors must stay silent: exactly one root completion, no leak, no sanitizer abort "
             "(operator new/delete counted: every case must end with zero live allocations); any sanitizer abort (use-after-free, double free, "
             "uninitialised-pointer dereference) is reported with the generated expression as replay; traces are compared with the Lean calculus",
        assumptions=["external events serialised", "lifetime errors are observed through ASan/UBSan and the allocation balance, not through the model (the calculus has no object table yet)"],
        trusted_extra=["harness/evt/evt.cpp", "tools/evt.py", "g++ 12 ASan/UBSan"],
        explanation="Theorems (Props/C02): no_access_after_completion, adaptor_never_reenters_finished_child (model level: a completed operation is inert under every later event). "
                    "The object-lifetime half of the property is decided on the implementation by sanitizer + allocation balance over generated expressions.")
