"""C09 — a future yields its operation's result or done; shared heap state freed exactly once."""
import time
from .. import vlib
from ..atomic import AtomicPart
from ..runner import run_check

# scenario name == configuration name in lean/UnifexModel/Proto/SpawnFuture.lean
SCENARIOS_V2 = ["await_value", "await_error", "await_done",
                "cancel_value", "cancel_error", "cancel_done", "late_cancel_value",
                "drop_value", "drop_error", "drop_done",
                "connect_drop_value", "connect_stop_drop_value"]
SCENARIOS_V1 = ["v1_await_value", "v1_await_error", "v1_drop_value", "v1_drop_done"]
# cancellation through v1::async_scope: the attach layer of v1 is not modelled (it completes the
# future early with done); these scenarios run under the model-independent monitors only
SCENARIOS_V1_MONITORS_ONLY = ["v1_cancel_value", "v1_late_cancel_value"]
SCENARIOS_DETACHED = ["detached_value", "detached_done", "detached_error", "v1_detached_value"]

LIB = ["inplace_stop_token.cpp", "async_manual_reset_event_v1.cpp"]


class _VerdictView:
    """What AtomicPart sees as the verdict: `add` goes to the real one; `violations` hides the sites
    that are registered as known findings, so that a broken correspondence (history not admitted by
    the model) in a scenario that also reproduces a known finding is still reported."""

    def __init__(self, real):
        self.real = real

    def add(self, *a, **k):
        self.real.add(*a, **k)

    @property
    def violations(self):
        known = {k.get("site") for k in self.real.known}
        return [v for v in self.real.violations if v[0] not in known]


class Part(AtomicPart):
    def run(self, tier, seed, verdict, cov, driver):
        super().run(tier, seed, _VerdictView(verdict), cov, driver)


class MonitorOnlyPart:
    """scenarios explored under the controlled scheduler with the harness' own monitors, no model"""

    def __init__(self, name, scn_cpp, lib_sources, scenarios, quick=dict(preemptions=2, max_execs=1500),
                 thorough=dict(preemptions=3, max_execs=60000)):
        self.name, self.scn_cpp, self.lib_sources, self.scenarios = name, scn_cpp, lib_sources, scenarios
        self.quick, self.thorough = quick, thorough

    def run(self, tier, seed, verdict, cov, driver):
        t0 = time.time()
        try:
            exe = vlib.build_rt(self.scn_cpp, self.lib_sources)
        except vlib.BuildError as e:
            verdict.add(f"{self.name}:build", "harness does not build against the current tree: " + str(e)[-1500:],
                        dict(stream=self.name), found_input=False)
            return
        p = self.quick if tier == "quick" else self.thorough
        for scn in self.scenarios:
            runs = [vlib.run_rt(exe, scn, "dfs", p["preemptions"], p["max_execs"], seed),
                    vlib.run_rt(exe, scn, "pct", 3, 150 if tier == "quick" else 5000, seed + 7)]
            seen = set()
            for r in runs:
                st = r["stats"]
                cov["evaluations"] += st.get("executions", 0)
                cov["with_preemption"] += st.get("with_preemption", 0)
                for sched, why, h in r["fails"]:
                    site = f"{self.name}/{scn}: {why.split(' && ')[0][:120]}"
                    verdict.add(site, why, dict(stream=self.name, scenario=scn, schedule=sched, history=h.split(" ; "),
                                                replay_cmd=f"{exe} --scenario {scn} --replay {sched}"))
                seen.update(h for _, _, h in r["hist"])
            cov["exhaustive_dfs"][f"{self.name}/{scn}"] = bool(runs[0]["stats"].get("exhausted", 0))
            cov["distinct_histories"][f"{self.name}/{scn}"] = len(seen)
        cov["parts_wall_s"][self.name] = round(time.time() - t0, 1)


def run(tier, seed, replay=None):
    parts = [
        # quick-tier DFS (2 preemptions) is exhaustive for every modelled scenario; the random / PCT walks
        # add schedules with more preemptions
        Part("spawn_future", "scn_c09.cpp", LIB, "spawnfuture", SCENARIOS_V2, random_execs=(50, 5000)),
        Part("spawn_future_v1", "scn_c09.cpp", LIB, "spawnfuture", SCENARIOS_V1, random_execs=(50, 5000)),
        Part("spawn_detached", "scn_c09.cpp", LIB, "spawnfuture", SCENARIOS_DETACHED, random_execs=(10, 200)),
        MonitorOnlyPart("spawn_future_v1_cancel", "scn_c09.cpp", LIB, SCENARIOS_V1_MONITORS_ONLY),
    ]
    return run_check(
        "C09", tier, seed,
        ["UnifexModel.Props.C09", "UnifexModel.Props.C09_cancel", "UnifexModel.Props.C09_cancel_error",
         "UnifexModel.Props.C09_cancel_done", "UnifexModel.Props.C09_term"], parts,
        rule="every schedule (DFS with 2 preemptions — exhaustive for every scenario in the quick tier — plus random/PCT walks) of the "
             "scenarios on the real unifex::spawn_future / spawn_detached with v2 and v1 async_scope under the controlled scheduler: a manually "
             "completed leaf (value/error/done from a worker thread) x future awaited / cancelled by a third thread / dropped / connected and "
             "destroyed; a case = one distinct observable history; non-trivial = admitted by the Lean model",
        assumptions=["sequentially consistent atomics (memory orders ignored)",
                     "the awaiting receiver's inplace_stop_source is modelled at the granularity proved in C03 (register / take-for-execution / "
                     "deregister atomic; deregistration waits for a callback running on another thread)",
                     "the scope's reference counting (C08) is not part of the model; the scenarios only check that join completes at the end",
                     "the awaiting receiver's scheduler is inline (the future's continuation runs on the thread that signals the event)",
                     "throwing nest()/connect/allocation during spawn_future (strong exception guarantee) is not covered by this check",
                     "cancellation of a future obtained from v1::async_scope (attach layer) is checked by monitors only, it has no model"],
        trusted_extra=["harness/rt (cooperative scheduler, __tsan_* shim)", "Core/Admit.lean trace-inclusion test",
                       "g++ 12 -fsanitize=thread instrumentation",
                       "scn_c09.cpp observation devices: mmap/PROT_NONE guard allocator + SIGSEGV handler, address-tracked result type"],
        explanation="Theorems (Props/C09*, reflection: kernel-evaluated closure of the full reachable set of each instance; the protocol has a "
                    "fixed number of parties, so an instance theorem is the complete proof for that usage): *_safe (the full property `safe`, spelled "
                    "out in safe_spelled) for await_*, cancel_*, late_cancel_value, drop_*, connect_drop_value, connect_stop_drop_value, detached_*. "
                    "Tie: trace inclusion of every explored real execution in the model of the same "
                    "name; model-independent monitors: double delete, leak, use after free (guard pages), std::terminate() reached, result "
                    "constructed != destroyed, receiver completed twice, delivered value != produced value, late stop request changing the result, "
                    "missing/spurious stop request on the spawned operation, scope join not completing. Known finding (v1 design deviation): a "
                    "future obtained from v1::async_scope completes with done when the stop request arrives after its result was consumed.")
