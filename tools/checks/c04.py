"""C04 — stop requests reach running children; completion never outlives a callback."""
from ..evt import EventPart
from ..atomic import AtomicPart
from ..runner import run_check

# schedule level (harness/rt/scn_c0104.cpp; Lean configurations of the same name in Proto/WhenAll.lean and
# Proto/StopWhen.lean).  The remaining scenarios of that file run under C01.
WA_SCENARIOS = ["wa2_err_stop", "wa2_done_inl", "wa2_err_inl", "wa2_stop_inl", "wa2_errinl_stop", "wa3_stop_inl", "wa3_mix", "war3_mix"]
SW_SCENARIOS = ["sw_stop_inl", "sw_trg_stop", "sw_stop"]
QUICK = dict(preemptions=2, max_execs=1000)
THOROUGH = dict(preemptions=3, max_execs=60000)
RANDOM = (300, 5000)


def atomic_parts():
    return [
        AtomicPart("whenall", "scn_c0104.cpp", ["inplace_stop_token.cpp"], "whenall", WA_SCENARIOS,
                   quick=QUICK, thorough=THOROUGH, random_execs=RANDOM),
        AtomicPart("stopwhen", "scn_c0104.cpp", ["inplace_stop_token.cpp"], "stopwhen", SW_SCENARIOS,
                   quick=QUICK, thorough=THOROUGH, random_execs=RANDOM),
    ]



def parts():
    return [EventPart("evt", report_crashes=True)] + atomic_parts()


def run(tier, seed, replay=None):
    return run_check(
        "C04", tier, seed, ["UnifexModel.Props.C04", "UnifexModel.Props.C04_Atomic", "UnifexModel.Props.C04_AtomicInst"], parts(),
        rule="(event level) generated sender expressions + event scripts (see C05) with a stop request injected at a random position (before start, between completions, after); "
             "leaves report whether they saw stop at start and every stop notification, which is compared with the Lean calculus; after each case the operation state is "
             "destroyed and a late stop request is issued on the root source, so a callback left registered runs on freed memory and is caught by ASan. "
             "(schedule level) the real when_all/when_all_range/stop_when with manual leaves (each leaf has a stop callback on the token it was given and may complete from inside it), "
             "completer threads and a thread requesting stop on the root receiver's source, under the controlled scheduler (DFS with preemption bound, random and PCT walks); "
             "the root receiver's token is a counting wrapper around inplace_stop_token: monitors = composite's stop callback still registered / running on another thread when the root "
             "receiver is signalled, callback invoked after the op-state was destroyed, op-state storage (poisoned 0xA5 on completion) written later, a running leaf that does not see "
             "stop_requested() after the first failure returned / after request_stop() returned; a case = one distinct observable history, non-trivial = admitted by the Lean model",
        assumptions=["event level: external events serialised; leaves register exactly one callback on the token they are given",
                     "schedule level: sequentially consistent atomics (memory orders ignored)", "schedule level: the operation has been started before the threads race (stop before/during start(): event level)",
                     "inplace_stop_source behaves as proved in C03 (deregistration waits for a callback running on another thread, never on its own thread)",
                     "parametric theorems (all N, all schedules) for when_all/when_all_range; stop_when per instance",
                     "stop_when's cancel_callback path signals the receiver while stopCallback_ is still engaged (dequeued, executing on the signalling thread): modelled as it is "
                     "(theorem stop_when_cancel_path_signals_with_callback_alive), shown as 'cb-alive' in histories, not counted as a violation"],
        trusted_extra=["harness/evt/evt.cpp", "tools/evt.py", "g++ 12 ASan/UBSan", "harness/rt (cooperative scheduler, __tsan_* shim)", "Core/Admit.lean trace-inclusion test", "g++ 12 -fsanitize=thread instrumentation"],
        explanation="Event level, Props/C04: stop_invariant_at_start + stop_invariant_always (the invariant StopInv holds after every event sequence, for every expression and script); "
                    "reading lemmas stopped_leaf_notified, adaptor_forwards_stop, unstoppable_hides_stop, when_all_stops_children, stop_when_stops_other, successor_starts_stopped; "
                    "deregistration-before-completion is decided on the implementation by the late-stop oracle under ASan. "
                    "Schedule level, Props/C04_Atomic, when_all/when_all_range for ALL N >= 1, all configurations, all schedules (invariant induction): no_callback_registered_at_delivery, "
                    "destructed_before_signal, no_touch_after_delivery, failure_stops_running_siblings, failed_iff_winner, notified_when_notifier_done, stopped_at_delivery_if_failed, "
                    "external_stop_reaches_children, stop_callback_requests_own_source, stop_when_cancel_path_signals_with_callback_alive (witness); Props/C04_AtomicInst, instances by kernel reflection "
                    "(also deadlock-freedom of the blocking deregistrations): wa2_done_inl, wa2_err_inl, wa2_stop_inl, wa2_errinl_stop, sw_stop_inl, sw_trg_stop. "
                    "Tie: trace inclusion of the real executions in the model configurations of the same name.")
