"""C04 — stop requests reach running children; completion never outlives a callback."""
from ..evt import EventPart
from ..runner import run_check


def parts():
    ps = [EventPart("evt", report_crashes=True)]
    try:
        from .c04_atomic import atomic_parts
        ps += atomic_parts()
    except ImportError:
        pass
    return ps


def prop_modules():
    import os
    from .. import vlib
    mods = ["UnifexModel.Props.C04"]
    if os.path.exists(os.path.join(vlib.LEAN, "UnifexModel", "Props", "C04_Atomic.lean")):
        mods.append("UnifexModel.Props.C04_Atomic")
    return mods


def run(tier, seed, replay=None):
    return run_check(
        "C04", tier, seed, prop_modules(), parts(),
        rule="generated sender expressions + event scripts (see C05) with a stop request injected at a random position (before start, between completions, after); "
             "leaves report whether they saw stop at start and every stop notification, which is compared with the Lean calculus; after each case the operation state is "
             "destroyed and a late stop request is issued on the root source, so a callback left registered runs on freed memory and is caught by ASan",
        assumptions=["external events serialised (races of a stop request with the last child: atomic-level parts)", "leaves register exactly one callback on the token they are given"],
        trusted_extra=["harness/evt/evt.cpp", "tools/evt.py", "g++ 12 ASan/UBSan"],
        explanation="Theorems (Props/C04): stop_invariant_at_start + stop_invariant_always (the invariant StopInv holds after every event sequence, for every expression and script); "
                    "reading lemmas stopped_leaf_notified, adaptor_forwards_stop, unstoppable_hides_stop, when_all_stops_children, stop_when_stops_other, successor_starts_stopped. "
                    "Deregistration-before-completion is decided on the implementation by the late-stop oracle under ASan.")
