"""C12 — receiver queries (scheduler, allocator, stop token, custom) reach all children."""
import itertools, os, re, subprocess, time
from .. import vlib
from ..evt import EventPart
from ..runner import run_check


class AllocProbePart:
    """allocator plumbing probes on the real library (harness/evt/allocprobe.cpp): every entry point that takes an
    allocator, or takes it from the receiver, allocates from exactly that allocator, returns the memory to it, and the
    work it starts sees it through get_allocator(receiver).  Model-independent: the expectation is the C12 statement."""
    name = "allocprobe"

    def run(self, tier, seed, verdict, cov, driver):
        t0 = time.time()
        src = os.path.join(vlib.VERIF, "harness", "evt", "allocprobe.cpp")
        try:
            exe = vlib.build_plain(src, [os.path.relpath(f, os.path.join(vlib.REPO, "source")) for f in sorted(__import__("glob").glob(os.path.join(vlib.REPO, "source", "*.cpp")))],
                                   (), None, sanitize="address,undefined", name="allocprobe")
        except vlib.BuildError as e:
            verdict.add("allocprobe:build", "allocator probes do not build against the current tree: " + str(e)[-1500:], dict(stream=self.name), found_input=False)
            return
        r = subprocess.run([exe], capture_output=True, text=True, timeout=300)
        lines = [l for l in r.stdout.split("\n") if l.strip()]
        if r.returncode != 0:
            verdict.add("allocprobe: sanitizer abort", "the allocator probes aborted: " + r.stderr[-1500:], dict(stream=self.name, stderr=r.stderr[-3000:], completed=lines))
        expected = ["spawn_detached_direct_v2", "spawn_detached_piped_v2", "spawn_detached_direct_v1", "spawn_future_direct_v2", "spawn_future_piped_v2",
                    "allocate_under_with_allocator", "allocate_nested_under_with_allocator", "allocate_piped"]
        seen = {}
        for l in lines:
            m = re.match(r"(\S+) given=(-?\d+) seen=(-?\d+) from_given=(\d+) from_other=(\d+) live=(-?\d+)$", l)
            if m:
                seen[m.group(1)] = tuple(int(x) for x in m.groups()[1:])
        for name in expected:
            cov["evaluations"] += 1
            if name not in seen:
                if r.returncode == 0:
                    verdict.add(f"allocprobe: {name}: no result", "probe printed nothing", dict(stream=self.name, output=lines))
                continue
            given, saw, fg, fo, live = seen[name]
            cov["traces_validated_against_impl"] += 1
            payload = dict(stream=self.name, probe=name, line=[l for l in lines if l.startswith(name + " ")][0])
            if saw != given:
                verdict.add(f"allocprobe: {name}: get_allocator(receiver) of the started work does not answer with the allocator given",
                            f"given allocator id {given}, the started leaf saw id {saw}", payload)
            if fg < 1 or fo != 0:
                verdict.add(f"allocprobe: {name}: memory not taken from the given allocator", f"allocations from the given allocator: {fg}, from other allocators of the family: {fo}", payload)
            if live != 0:
                verdict.add(f"allocprobe: {name}: memory not returned to the allocator", f"live allocations afterwards: {live}", payload)
        cov["samples"].append(dict(stream=self.name, output=lines[:3]))
        cov["parts_wall_s"][self.name] = round(time.time() - t0, 1)

UN = ["then add:1", "uerr add:1", "udone 3", "md", "dao 4", "uns", "tag 9", "src", "era", "iv", "dfr", "alc"]
# binary adaptors with the probe in the first or second position (the other child is trivial)
BIN_A = ["lv {} (argv 0)", "le {} (just 1)", "ld {} (just 1)", "seq {} (just 1)", "fin {} (just 1)", "wa {} (just 1)", "sw {} (jdone)", "any {} (jdone)"]
BIN_B = ["lv (just 1) {}", "le (jerr 2) {}", "ld (jdone) {}", "seq (just 1) {}", "fin (just 1) {}", "wa (just 1) {}", "sw (just 1) {}", "any (jdone) {}"]


class QueryProbePart:
    """receiver-query plumbing probes (harness/evt/queryprobe.cpp) for algorithms outside the calculus (retry_when source /
    trigger / restarted source, when_all_range elements, repeat_effect_until) plus controls: a probe leaf in every child
    position must see the root receiver's answers to a noexcept custom query, a NON-noexcept custom query, get_allocator
    and a stoppable stop token.  Model-independent: the expectation is the C12 statement."""
    name = "queryprobe"
    EXPECTED = ["retry_when.source#1", "retry_when.trigger#1", "retry_when.source#2", "when_all_range.elem0#1", "when_all_range.elem1#1",
                "repeat_effect_until.source#1", "repeat_effect_until.source#2", "let_error.source#1", "let_error.handler#1", "let_done.source#1",
                "let_done.handler#1", "finally.source#1", "finally.completion#1", "sequence.first#1", "sequence.second#1", "stop_when.source#1",
                "stop_when.trigger#1", "materialize.child#1"]

    def run(self, tier, seed, verdict, cov, driver):
        t0 = time.time()
        try:
            exe = vlib.build_plain(os.path.join(vlib.VERIF, "harness", "evt", "queryprobe.cpp"), ["inplace_stop_token.cpp"], (), None,
                                   sanitize="address,undefined", name="queryprobe")
        except vlib.BuildError as e:
            verdict.add("queryprobe:build", "query probes do not build against the current tree: " + str(e)[-1500:], dict(stream=self.name), found_input=False)
            return
        r = subprocess.run([exe], capture_output=True, text=True, timeout=300)
        lines = [l for l in r.stdout.split("\n") if l.strip()]
        if r.returncode != 0:
            verdict.add("queryprobe: sanitizer abort", "the query probes aborted: " + r.stderr[-1500:], dict(stream=self.name, stderr=r.stderr[-3000:], completed=lines))
        got = {l.split(" ", 1)[0]: l.split(" ", 1)[1] for l in lines if " " in l}
        want = "tag=42 label=root alloc=9 stoppable=1"
        for pos in self.EXPECTED:
            cov["evaluations"] += 1
            if pos not in got:
                verdict.add(f"queryprobe: {pos}: child never started", "the probe in this position was not started", dict(stream=self.name, output=lines))
                continue
            cov["traces_validated_against_impl"] += 1
            if got[pos] != want:
                verdict.add(f"queryprobe: {pos.split('#')[0]}: receiver query not forwarded to this child", f"{pos}: saw `{got[pos]}`, the root receiver answers `{want}`",
                            dict(stream=self.name, position=pos, saw=got[pos], expected=want))
        cov["samples"].append(dict(stream=self.name, output=lines[:3]))
        cov["parts_wall_s"][self.name] = round(time.time() - t0, 1)


def stacks(tier, seed):
    """every adaptor in every position of stacks up to depth 3 (quick) / 4 (thorough) above a probe leaf"""
    wrappers = [f"({u} {{}})" for u in UN] + [f"({b})" for b in BIN_A + BIN_B]
    depth = 3 if tier == "quick" else 4
    out = []
    n = 0
    for d in range(1, depth + 1):
        combos = itertools.product(wrappers, repeat=d)
        if d == 4:
            import random
            r = random.Random(seed)
            combos = [tuple(r.choice(wrappers) for _ in range(4)) for _ in range(8000)]
        for ws in combos:
            e = "(leaf 1)"
            for w in ws:
                e = w.format(e)
            n += 1
            # the probe completes later, so that it is started exactly once wherever it sits; a stop request follows
            out.append(f"s{n} | {e} | 1=p:ign | start stop c1:v5")
    return out


def run(tier, seed, replay=None):
    parts = [EventPart("evt", report_crashes=False, extra_cases=stacks, n_quick=1500), AllocProbePart(), QueryProbePart()]
    return run_check(
        "C12", tier, seed, ["UnifexModel.Props.C12"], parts,
        rule="ENUMERATED: every one of 28 adaptor forms (12 unary, 8 binary with the probe as first child, 8 with the probe as second child) in every position of "
             "stacks of depth 1..3 (quick: 28+784+21952 cases) above a probe leaf that records the answer to a user-defined query CPO and the stop state it observes through "
             "its receiver; plus random expressions (see C05); every observation is compared with the Lean calculus",
        assumptions=["the user-defined query CPO stands for every receiver query forwarded by the generic tag_invoke(CPO, const R&) overload (get_scheduler, get_allocator, custom); "
                     "get_stop_token is covered by C04",
                     "algorithms outside the calculus (retry_when, when_all_range, repeat_effect_until) are covered only by model-independent probes (queryprobe.cpp): a probe leaf in every child position, "
                     "four queries including a non-noexcept one",
                     "get_allocator is additionally observed directly: the root receiver answers with a counting allocator (id 5) that every leaf must see and from which allocate() must take "
                     "its memory (monitors alloc-query-lost / alloc-foreign / alloc-live in evt.cpp); allocator-taking entry points (spawn_detached, spawn_future, allocate under with_allocator; "
                     "direct and piped forms) are checked by model-independent probes (allocprobe.cpp), not modelled"],
        trusted_extra=["harness/evt/evt.cpp (probe leaf, type-erased children declare the custom query and get_allocator)", "harness/evt/allocprobe.cpp", "harness/evt/queryprobe.cpp", "tools/evt.py"],
        explanation="Theorems (Props/C12): queries_forwarded (every leaf start in every run carries the documented answer: the root's or the innermost with_query_value's), "
                    "only_with_query_value_replaces, with_query_value_replaces, root_answer_everywhere; invariant TagInv proved for every algorithm clause (Calc/TagInv.lean).")
