"""C12 — receiver queries (scheduler, allocator, stop token, custom) reach all children."""
import itertools
from ..evt import EventPart
from ..runner import run_check

UN = ["then add:1", "uerr add:1", "udone 3", "md", "dao 4", "uns", "tag 9", "src", "era", "iv", "dfr", "alc"]
# binary adaptors with the probe in the first or second position (the other child is trivial)
BIN_A = ["lv {} (argv 0)", "le {} (just 1)", "ld {} (just 1)", "seq {} (just 1)", "fin {} (just 1)", "wa {} (just 1)", "sw {} (jdone)", "any {} (jdone)"]
BIN_B = ["lv (just 1) {}", "le (jerr 2) {}", "ld (jdone) {}", "seq (just 1) {}", "fin (just 1) {}", "wa (just 1) {}", "sw (just 1) {}", "any (jdone) {}"]


def stacks(tier, seed):
    """every adaptor in every position of stacks up to depth 3 (quick) / 4 (thorough) above a probe leaf"""
    wrappers = [f"({u} {{}})" for u in UN] + [f"({b})" for b in BIN_A + BIN_B]
    depth = 3 if tier == "quick" else 4
    out = []
    n = 0
    for d in range(1, depth + 1):
        combos = itertools.product(wrappers, repeat=d)
        if d == 4:
            import random
            r = random.Random(seed)
            combos = [tuple(r.choice(wrappers) for _ in range(4)) for _ in range(8000)]
        for ws in combos:
            e = "(leaf 1)"
            for w in ws:
                e = w.format(e)
            n += 1
            # the probe completes later, so that it is started exactly once wherever it sits; a stop request follows
            out.append(f"s{n} | {e} | 1=p:ign | start stop c1:v5")
    return out


def run(tier, seed, replay=None):
    parts = [EventPart("evt", report_crashes=False, extra_cases=stacks, n_quick=1500)]
    return run_check(
        "C12", tier, seed, ["UnifexModel.Props.C12"], parts,
        rule="ENUMERATED: every one of 28 adaptor forms (12 unary, 8 binary with the probe as first child, 8 with the probe as second child) in every position of "
             "stacks of depth 1..3 (quick: 28+784+21952 cases) above a probe leaf that records the answer to a user-defined query CPO and the stop state it observes through "
             "its receiver; plus random expressions (see C05); every observation is compared with the Lean calculus",
        assumptions=["the user-defined query CPO stands for every receiver query forwarded by the generic tag_invoke(CPO, const R&) overload (get_scheduler, get_allocator, custom); "
                     "get_stop_token is covered by C04", "allocate()/spawn allocator use is not modelled here"],
        trusted_extra=["harness/evt/evt.cpp (probe leaf, type-erased children declare the custom query)", "tools/evt.py"],
        explanation="Theorems (Props/C12): queries_forwarded (every leaf start in every run carries the documented answer: the root's or the innermost with_query_value's), "
                    "only_with_query_value_replaces, with_query_value_replaces, root_answer_everywhere; invariant TagInv proved for every algorithm clause (Calc/TagInv.lean).")
