"""C13 model-independent probe part: scheduler-hopping stream adaptors (harness/evt/streamprobe.cpp)."""
import os, re, subprocess, time

from .. import vlib

LINE_RE = re.compile(
    r"^(?P<config>\S+) consumer=(?P<consumer>\S+) n=(?P<n>\d+) stop=(?P<stop>none|pre|\d+) : result=(?P<result>\S+) elems=(?P<elems>[\d,]*) "
    r"nexts=(?P<ns>\d+)/(?P<nc>\d+) cleanups=(?P<cs>\d+)/(?P<cc>\d+) cleanup_during_next=(?P<cdn>[01]) "
    r"result_before_cleanup=(?P<rbc>[01]) completions=(?P<comp>\d+) fold=(?P<fold>-?\d+)$")


def judge_line(line):
    """-> list of short names of the C13 conditions this line violates (empty = fine); None if the line is not a probe line"""
    m = LINE_RE.match(line)
    if not m:
        return None
    g = m.groupdict()
    n, ns, nc, cs, cc = int(g["n"]), int(g["ns"]), int(g["nc"]), int(g["cs"]), int(g["cc"])
    elems = [int(x) for x in g["elems"].split(",") if x != ""]
    bad = []
    if int(g["comp"]) != 1:
        bad.append("consumer completed other than exactly once")
    if g["cdn"] != "0":
        bad.append("cleanup started while a next() was outstanding")
    if g["rbc"] != "0":
        bad.append("result delivered before cleanup finished")
    if ns != nc:
        bad.append("a started next() never completed")
    if ns > 0:
        if not (cs == 1 and cc == 1):
            bad.append("cleanup of a started stream did not run exactly once")
    elif cs > 1 or cc > 1 or cs != cc:
        bad.append("cleanup ran more than once")
    if elems != list(range(len(elems))) or len(elems) > n:
        bad.append("delivered elements are not a prefix of the source sequence")
    if g["stop"] == "none":
        if elems != list(range(n)):
            bad.append("elements lost without a stop request")
        if g["result"] != "value":
            bad.append("no value result without a stop request")
    elif g["stop"] == "pre":
        if elems:
            bad.append("element delivered although stop was requested before start")
    else:
        k = int(g["stop"])
        if elems != list(range(min(k + 1, n))):
            bad.append("stop request did not end the sequence right after the element that requested it")
    if g["result"] == "error":
        bad.append("error result from a stream that never fails")
    if g["consumer"] == "reduce_stream" and g["result"] == "value":
        st = 0
        for v in elems:
            st = st * 31 + v + 1
        if int(g["fold"]) != st:
            bad.append("reduce_stream result is not the fold over the delivered elements")
    return bad


class StreamProbePart:
    """stream adaptor probes on the real library (harness/evt/streamprobe.cpp): on_stream / via_stream over inline_scheduler and
    trampoline_scheduler (and nested) above a hand-written counting source stream, consumed by for_each / reduce_stream, n in
    {0,1,4}, stop requested never / before start / from the callback at every element.  Model-independent: the expectation is
    the C13 statement (cleanup exactly once, after the outstanding next, before the result; elements a prefix; fold exact)."""
    name = "streamprobe"
    EXPECTED_MIN = 196  # 7 configurations x 2 consumers x (3 + 4 + 7) stop positions

    def run(self, tier, seed, verdict, cov, driver):
        t0 = time.time()
        src = os.path.join(vlib.VERIF, "harness", "evt", "streamprobe.cpp")
        try:
            exe = vlib.build_plain(src, [os.path.relpath(f, os.path.join(vlib.REPO, "source")) for f in sorted(__import__("glob").glob(os.path.join(vlib.REPO, "source", "*.cpp")))],
                                   (), None, sanitize="address,undefined", name="streamprobe")
        except vlib.BuildError as e:
            verdict.add("streamprobe:build", "stream probes do not build against the current tree: " + str(e)[-1500:], dict(stream=self.name), found_input=False)
            return
        r = subprocess.run([exe], capture_output=True, text=True, timeout=300)
        lines = [l for l in r.stdout.split("\n") if l.strip()]
        if r.returncode != 0:
            verdict.add("streamprobe: sanitizer abort", "the stream probes aborted after " + (lines[-1] if lines else "<nothing>") + ": " + r.stderr[-1500:],
                        dict(stream=self.name, stderr=r.stderr[-3000:], completed=lines[-5:]))
        judged = 0
        for line in lines:
            cov["evaluations"] += 1
            bad = judge_line(line)
            if bad is None:
                verdict.add("streamprobe: unparsable line", f"{line}", dict(stream=self.name, line=line))
                continue
            judged += 1
            cov["traces_validated_against_impl"] += 1
            for cond in bad:
                verdict.add(f"streamprobe: {cond}", f"{line}", dict(stream=self.name, line=line))
        if judged < self.EXPECTED_MIN and r.returncode == 0:
            verdict.add("streamprobe: cases missing", f"{judged} case lines printed, {self.EXPECTED_MIN} expected", dict(stream=self.name, output=lines[-3:]))
        cov["samples"].append(dict(stream=self.name, output=lines[:3]))
        cov["parts_wall_s"][self.name] = round(time.time() - t0, 1)
