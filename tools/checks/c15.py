"""C15 — async_mutex gives mutual exclusion and never loses a waiter (v1 and v2 mutex)."""
import time
from .. import vlib
from ..atomic import AtomicPart
from ..runner import run_check

LIBS = ["async_mutex_v1.cpp", "async_mutex_v2.cpp", "atomic_intrusive_list.cpp", "inplace_stop_token.cpp"]
V1 = ["v1_two", "v1_try", "v1_batch", "v1_three"]
V2 = ["v2_handoff", "v2_handoff_stop", "v2_leak_seq", "v2_race_inline", "v2_fifo3", "v2_inline_stop",
      "v2_cancel_first", "v2_race_try", "v2_handoff_try", "v2_unlock_race_try"]
PROPS = ["UnifexModel.Props.C15", "UnifexModel.Props.C15_v2a", "UnifexModel.Props.C15_v2b", "UnifexModel.Props.C15_v2c",
         "UnifexModel.Props.C15_v2d", "UnifexModel.Props.C15_v2e", "UnifexModel.Props.C15_v2f", "UnifexModel.Props.C15_v2legacy"]


LIST_SCENARIOS = ["l_push_pop", "l_pop_remove", "l_push_remove", "l_empty_probe"]


class ListLinPart:
    """Linearizability tie for atomic_intrusive_list (the v2 model treats the waiter list as an atomic
    sequential list): real push_back/pop_front/try_remove/empty histories under the controlled
    scheduler, each checked against the sequential spec in Lean (`ask alist lin | history`)."""
    name = "alist"

    def run(self, tier, seed, verdict, cov, driver):
        t0 = time.time()
        try:
            exe = vlib.build_rt("scn_c15_list.cpp", ["atomic_intrusive_list.cpp"])
        except vlib.BuildError as e:
            verdict.add("alist:build", "list harness does not build against the current tree: " + str(e)[-1500:], dict(stream="alist"), found_input=False)
            return
        dfs_execs, nrand = (600, 150) if tier == "quick" else (40000, 5000)
        for scn in LIST_SCENARIOS:
            runs = [vlib.run_rt(exe, scn, "dfs", 2 if tier == "quick" else 3, dfs_execs, seed),
                    vlib.run_rt(exe, scn, "random", 0, nrand, seed), vlib.run_rt(exe, scn, "pct", 3, nrand, seed + 7)]
            seen = {}
            for r in runs:
                cov["evaluations"] += r["stats"].get("executions", 0)
                cov["with_preemption"] += r["stats"].get("with_preemption", 0)
                for sched, why, h in r["fails"]:
                    verdict.add(f"alist/{scn}: {why.split(' && ')[0][:120]}", why,
                                dict(stream="alist", scenario=scn, schedule=sched, history=h.split(" ; "),
                                     replay_cmd=f"{exe} --scenario {scn} --replay {sched}"))
                for cnt, sched, h in r["hist"]:
                    seen.setdefault(h, sched)
            cov["exhaustive_dfs"][f"alist/{scn}"] = bool(runs[0]["stats"].get("exhausted", 0))
            cov["distinct_histories"][f"alist/{scn}"] = len(seen)
            bad = []
            for h, sched in seen.items():
                ans = driver.ask(f"ask alist lin | {h}")
                cov["traces_validated_against_impl"] += 1
                # informational: how many histories need the one-sided slack of empty() (see Proto/AList.lean)
                if not driver.ask(f"ask alist strict | {h}").startswith("ok"):
                    cov["alist_histories_needing_empty_slack"] = cov.get("alist_histories_needing_empty_slack", 0) + 1
                if ans.startswith("ok"):
                    cov["distinct_nontrivial"] += 1
                else:
                    bad.append((h, sched, ans))
            if bad:
                cov["rejected_histories"] += len(bad)
                h, sched, ans = bad[0]
                verdict.add(f"alist/{scn}: history not linearizable w.r.t. the sequential list", f"{len(bad)} of {len(seen)} histories: {ans}",
                            dict(stream="alist", scenario=scn, schedule=sched, history=h.split(" ; "), model_answer=ans,
                                 replay_cmd=f"{exe} --scenario {scn} --replay {sched}"))
        cov["parts_wall_s"]["alist"] = round(time.time() - t0, 1)


def run(tier, seed, replay=None):
    parts = [
        AtomicPart("mutexv1", "scn_c15.cpp", LIBS, "mutexv1", V1,
                   quick=dict(preemptions=2, max_execs=1500), random_execs=(150, 5000)),
        AtomicPart("mutexv2", "scn_c15.cpp", LIBS, "mutexv2", V2,
                   quick=dict(preemptions=2, max_execs=3500), random_execs=(150, 5000)),
        ListLinPart(),
    ]
    return run_check(
        "C15", tier, seed, PROPS, parts,
        rule="every schedule (DFS, preemption-bounded, plus random/PCT walks) of 4 scenarios on the real v1::async_mutex and 10 on the real "
             "v2::async_mutex (plain receivers with an inplace_stop_source each and a manual deferred / inline scheduler) under the controlled "
             "scheduler; a case = one distinct observable history; non-trivial = admitted by the Lean model after at least one context switch",
        assumptions=["sequentially consistent atomics (memory orders and the Dekker fences are not distinguished)",
                     "v2: atomic_intrusive_list is a linearizable sequential list (push_back/pop_front/try_remove/empty atomic) — tied by the alist part: "
                     "sampled real histories (<=3 nodes, <=3 threads) are linearizable w.r.t. Proto/AList; "
                     "inplace_stop_source abstracted to its linearisation points (its protocol is C03)",
                     "CAS retry loops modelled at the successful CAS",
                     "v1: parametric theorems (any number of threads/waiters); v2: instances <=3 waiters, <=3 threads",
                     "the scenario's scheduler completes a schedule-operation with set_done when its receiver's stop token has a stop "
                     "request (what inline_scheduler, manual_event_loop and the thread pools do)"],
        trusted_extra=["harness/rt (cooperative scheduler, __tsan_* shim, pthread mutex/condvar interposition)",
                       "Core/Admit.lean trace-inclusion test", "g++ 12 -fsanitize=thread instrumentation"],
        explanation="Theorems: Props/C15 v1_mutual_exclusion, v1_no_lost_waiter, v1_fifo, v1_queue_asserts_hold (parametric, invariant induction) and "
                    "v1_*_safe instances; Props/C15_v2a..f v2_*_safe: the FULL property safeFull (mutual exclusion, at-most-once, cancelled-never-owns, a granted "
                    "waiter never gets done, FIFO, no deadlock, every started waiter completes exactly once, lock not leaked) for each of the 10 instances, "
                    "unconditionally, also with stop requests at any time (kernel-evaluated closure). The model's completion_forwarder hop is the code "
                    "as it stands (rescheduling receiver answers get_stop_token with unstoppable_token). Props/C15_v2legacy is LEGACY documentation about a "
                    "hand-transcribed pre-repair forwarder (DESIGN §8 #3) and is not tied to any code. "
                    "Tie: trace inclusion of real executions in the models; monitors: two holders, completed twice, lock leaked, lost waiter, FIFO, done without "
                    "a stop request; linearizability of atomic_intrusive_list histories (with the documented slack of empty()).")
