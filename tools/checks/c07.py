"""C07 — timers never fire early, fire in due-time order, and cancel promptly, once.

Parts (all rebuilt from the current tree of VERIF_REPO on every run):
  translator   tools/cxx2lean_clock.py regenerates Generated/Clock.lean BEFORE the proof gate
  clock        the generated Lean functions vs the compiled monotonic_clock.hpp on boundary + random
               operands (validates the translator) + arithmetic-law monitors on the C++ results
  queue        intrusive_heap and thread_unsafe_event_loop op sequences vs Proto/TimerQueue
  seqdiff      timed_single_thread_context op sequences (one fixed schedule, virtual clock) vs
               Proto/TimerQueue
  timerop      all schedules (DFS / random / PCT, virtual clock) of 6 scenarios on the real
               timed_single_thread_context: monitors + trace inclusion in Proto/TimerOp
  monitors     2 more scenarios (schedule_after, 3 timers, past due times): monitors only
  sbs          stop requested before start() on thread_unsafe_event_loop, op-state in poisoned storage
  epolltimer   io_epoll_context schedule_at under the controlled scheduler (timerfd on the virtual clock, rt_io.cpp):
               5 scenarios (remote cancel racing the expiry, local cancel, due order / re-arm, stop before start):
               monitors + trace inclusion in Proto/EpollTimer; epollmonitors: one more scenario, monitors only
"""
import os, random, subprocess, time
from .. import vlib
from ..vlib import log
from ..atomic import AtomicPart
from ..runner import run_check
from .. import cxx2lean_clock

HARN = os.path.join(vlib.VERIF, "harness", "c07")
SBS_SITE = "event_loop/stop_before_start: cancel_callback reads uninitialised operation_base::prevPtr_ (stop requested before start(), due time in the future)"
NS = 1_000_000_000


# ------------------------------------------------------------------ translator
class TranslatorPart:
    name = "translator"

    def __init__(self):
        self.error = None
        self.changed = False
        hdr = os.path.join(vlib.REPO, "include", "unifex", "linux", "monotonic_clock.hpp")
        dst = os.path.join(vlib.LEAN, "UnifexModel", "Generated", "Clock.lean")
        try:
            text = cxx2lean_clock.translate(hdr)
            old = open(dst).read() if os.path.exists(dst) else None
            if old != text:
                open(dst, "w").write(text)
                self.changed = True
                log("C07: Generated/Clock.lean regenerated with DIFFERENT text (theorems are re-checked against it)")
        except (cxx2lean_clock.TranslateError, OSError) as e:
            self.error = str(e)

    def run(self, tier, seed, verdict, cov, driver):
        cov["translator"] = dict(regenerated=True, text_changed=self.changed, error=self.error)
        if self.error:
            verdict.add("clock/translator: monotonic_clock.hpp is outside the translatable subset",
                        "cxx2lean_clock failed: " + self.error,
                        dict(stream="translator", broken="tie: Generated/Clock.lean cannot be regenerated from the current header"),
                        found_input=False)


# ------------------------------------------------------------------ clock differential + laws
def tdiv(a, b):
    q = abs(a) // abs(b)
    return q if (a >= 0) == (b >= 0) else -q


def canonical(s, n):
    return abs(n) < NS and (s <= 0 or n >= 0) and (s >= 0 or n <= 0)


def value(s, n):
    return s * NS + n


class ClockPart:
    name = "clock"
    S = [0, 1, -1, 2, -2, 400_000_000_000, -400_000_000_000]
    N = [0, 1, -1, 99, -99, 100, -100, 101, -101, 999_999_999, -999_999_999, NS, -NS, NS + 1, -NS - 1, 2 * NS - 1, -2 * NS + 1,
         2 * NS, -2 * NS, 4 * 10**18, -4 * 10**18]
    D = [0, 1, -1, 9_999_999, -9_999_999, 10_000_000, -10_000_000, 10_000_001, -10_000_001, 123_456_789_012, -123_456_789_012]
    S2 = [0, 1, -1, 2, -3]
    N2 = [0, 1, -1, 100, -100, 150, 999_999_999, -999_999_999, NS, -1_500_000_000]

    def operands(self, tier, seed):
        rnd = random.Random(seed * 7919 + 7)
        reqs = []
        for s in self.S:
            for n in self.N:
                reqs.append(("normalize", s, n)); reqs.append(("from", s, n))
        tps = [(s, n) for s in self.S2 for n in self.N2]
        pairs = [(a, b) for a in tps for b in tps]
        rnd.shuffle(pairs)
        for a, b in pairs[: (600 if tier == "quick" else len(pairs))]:
            reqs.append(("cmp",) + a + b); reqs.append(("diff",) + a + b)
        for (s, n) in tps:
            for d in self.D:
                for op in ("add", "sub", "addassign", "subassign", "round"):
                    reqs.append((op, s, n, d))
        nrand = 400 if tier == "quick" else 6000

        def rs(): return rnd.choice([rnd.randint(-5, 5), rnd.randint(-4 * 10**11, 4 * 10**11)])
        def rn(): return rnd.choice([rnd.randint(-3 * NS, 3 * NS), rnd.randint(-4 * 10**18, 4 * 10**18), rnd.randint(-NS + 1, NS - 1)])
        def rd(): return rnd.choice([rnd.randint(-3 * 10**7, 3 * 10**7), rnd.randint(-10**17, 10**17)])
        def rcanon():
            v = rnd.choice([rnd.randint(-5 * NS, 5 * NS), rnd.randint(-4 * 10**20, 4 * 10**20)])
            s = tdiv(v, NS)
            return (s, v - s * NS)
        for _ in range(nrand):
            reqs.append(("normalize", rs(), rn())); reqs.append(("from", rs(), rn()))
            a, b = rcanon(), rcanon()
            if rnd.random() < 0.3:
                b = (a[0], a[1] + rnd.choice([0, 100, -100, 1]) if abs(a[1]) < NS - 200 else a[1])
            reqs.append(("cmp",) + a + b); reqs.append(("diff",) + a + b)
            reqs.append(("cmp", rs(), rnd.randint(-3 * NS, 3 * NS), rs(), rnd.randint(-3 * NS, 3 * NS)))
            t = rcanon()
            for op in ("add", "sub", "round"):
                reqs.append((op,) + t + (rd(),))
            reqs.append((rnd.choice(["addassign", "subassign"]), rs(), rnd.randint(-3 * NS, 3 * NS), rd()))
        return reqs

    def laws(self, req, out):
        """arithmetic laws checked on the C++ RESULT (independent of the Lean model); returns a message or None"""
        op = req[0]
        try:
            r = [int(x) for x in out.split()]
        except ValueError:
            return f"unparsable result {out!r}"
        if op in ("normalize", "from"):
            s, n = req[1], req[2]
            if not canonical(r[0], r[1]):
                return f"result ({r[0]}, {r[1]}) is not in canonical form"
            if value(r[0], r[1]) != value(s, n):
                return f"result denotes {value(r[0], r[1])} ns, operand {value(s, n)} ns"
        elif op in ("add", "sub", "addassign", "subassign"):
            s, n, d = req[1:]
            want = value(s, n) + (100 * d if op.startswith("add") else -100 * d)
            if not canonical(r[0], r[1]):
                return f"result ({r[0]}, {r[1]}) is not in canonical form"
            if value(r[0], r[1]) != want:
                return f"result denotes {value(r[0], r[1])} ns, expected {want} ns"
        elif op == "cmp":
            a, b = (req[1], req[2]), (req[3], req[4])
            eq, ne, lt, gt, le, ge = r
            if ne != 1 - eq or le != 1 - gt or ge != 1 - lt:
                return "derived comparison operators inconsistent"
            if lt and gt:
                return "a < b and b < a both hold"
            if canonical(*a) and canonical(*b):
                va, vb = value(*a), value(*b)
                if (eq, lt, gt) != (int(va == vb), int(va < vb), int(va > vb)):
                    return f"order of canonical values disagrees with the instants they denote ({va} vs {vb} ns)"
        elif op == "diff":
            a, b = (req[1], req[2]), (req[3], req[4])
            dv = value(*a) - value(*b)
            if canonical(*a) and canonical(*b) and dv % 100 == 0 and r[0] * 100 != dv:
                return f"a - b = {r[0]} ticks, the instants differ by {dv} ns"
        elif op == "round":
            s, n, d = req[1:]
            if canonical(s, n):
                if (r[0], r[1]) != (s, n):
                    return f"(tp + d) - d = ({r[0]}, {r[1]}) ≠ tp"
                if r[2] != d:
                    return f"(tp + d) - tp = {r[2]} ≠ d"
        return None

    def run(self, tier, seed, verdict, cov, driver):
        t0 = time.time()
        try:
            exe = vlib.build_plain(os.path.join(HARN, "clock_c07.cpp"), ["linux/monotonic_clock.cpp"], sanitize="address,undefined", name="clock_c07")
        except vlib.BuildError as e:
            verdict.add("clock:build", "clock harness does not build against the current tree: " + str(e)[-1200:], dict(stream="clock"), found_input=False)
            return
        reqs = self.operands(tier, seed)
        inp = "".join(" ".join(str(x) for x in r) + "\n" for r in reqs)
        p = subprocess.run([exe], input=inp, capture_output=True, text=True, timeout=600)
        outs = p.stdout.split("\n")
        if p.returncode != 0 or len(outs) < len(reqs):
            k = min(len(outs) - 1, len(reqs) - 1)
            verdict.add("clock: undefined behaviour / crash in time_point arithmetic inside the stated operand range",
                        f"harness rc={p.returncode}: {(p.stderr or '')[-600:]}",
                        dict(stream="clock", operand=" ".join(str(x) for x in reqs[max(k, 0)]), replay_cmd=f"echo '{' '.join(str(x) for x in reqs[max(k, 0)])}' | {exe}"))
            return
        mism, lawfail, nontriv = [], [], set()
        for req, out in zip(reqs, outs):
            cov["evaluations"] += 1
            if req[0] == "round":
                q1 = driver.ask(f"ask clock eval | add {req[1]} {req[2]} {req[3]}")
                u = q1.split()
                ans = "bad-op"
                if len(u) == 2:
                    q2 = driver.ask(f"ask clock eval | sub {u[0]} {u[1]} {req[3]}")
                    q3 = driver.ask(f"ask clock eval | diff {u[0]} {u[1]} {req[1]} {req[2]}")
                    ans = f"{q2} {q3}"
            else:
                ans = driver.ask("ask clock eval | " + " ".join(str(x) for x in req))
            cov["traces_validated_against_impl"] += 1
            if ans.strip() != out.strip():
                mism.append((req, out, ans))
            else:
                nontriv.add((req[0], out))
            msg = self.laws(req, out)
            if msg:
                lawfail.append((req, out, msg))
        cov["distinct_nontrivial"] += len(nontriv)
        cov["samples"].append(dict(stream="clock", request=" ".join(str(x) for x in reqs[len(reqs) // 2]), result=outs[len(reqs) // 2]))
        for req, out, msg in lawfail[:1]:
            verdict.add(f"clock/law: {req[0]}", f"{' '.join(str(x) for x in req)} -> {out}: {msg} ({len(lawfail)} failing operands)",
                        dict(stream="clock", operand=" ".join(str(x) for x in req), cxx_result=out, replay_cmd=f"echo '{' '.join(str(x) for x in req)}' | {exe}"))
        if mism and not lawfail:
            req, out, ans = mism[0]
            verdict.add("clock/translator: generated Lean and compiled C++ disagree",
                        f"{' '.join(str(x) for x in req)}: C++ {out!r}, Generated/Clock.lean {ans!r} ({len(mism)} of {len(reqs)} operands)",
                        dict(stream="clock", operand=" ".join(str(x) for x in req), cxx_result=out, lean_result=ans,
                             broken="tie: translator correspondence (tools/cxx2lean_clock.py)"), found_input=False)
        cov["parts_wall_s"][self.name] = round(time.time() - t0, 1)


# ------------------------------------------------------------------ sequences for the queue parts
CLASSES = dict(past=-4, equal=10, plus1=11, far=1000)


def arrival_orders(maxlen):
    vals = list(CLASSES.values())
    seqs = [[]]
    out = []
    for _ in range(maxlen):
        seqs = [s + [v] for s in seqs for v in vals]
        out += seqs
    return out


class Model:
    """orchestrates Proto/TimerQueue through the driver (the queue operations are all Lean's)"""

    def __init__(self, driver):
        self.d, self.cmds = driver, []

    def do(self, cmd):
        self.cmds.append(cmd)

    def ask(self, extra=()):
        return self.d.ask("ask timerqueue run | " + " ; ".join(self.cmds + list(extra)))

    def queue(self):
        a = self.ask(["q"]).split("[")[-1].rstrip("]").split()
        return [(int(x.split("@")[0]), int(x.split("@")[1])) for x in a]


class QueuePart:
    name = "queue"

    def gen_heap(self, tier, seed):
        rnd = random.Random(seed * 104729 + 1)
        seqs = []
        orders = arrival_orders(4 if tier == "quick" else 5)
        for o in orders:
            seqs.append(" ; ".join(f"i {k} {v}" for k, v in enumerate(o)) + " ; d")
        if tier == "quick":
            five = [o for o in arrival_orders(5) if len(o) == 5]
            for o in rnd.sample(five, 200):
                seqs.append(" ; ".join(f"i {k} {v}" for k, v in enumerate(o)) + " ; d")
        for _ in range(300 if tier == "quick" else 4000):
            n = rnd.randint(1, 8)
            ops, live, nid, now = [], [], 0, 0
            for _ in range(rnd.randint(n, 3 * n)):
                c = rnd.random()
                if c < 0.5 or not live:
                    v = rnd.choice(list(CLASSES.values()) + [rnd.randint(-5, 15), 10**12, -10**12])
                    ops.append(f"i {nid} {v}"); live.append(nid); nid += 1
                elif c < 0.65:
                    ops.append("p"); live = live  # which one is popped is the model's business
                elif c < 0.8:
                    ops.append(f"r {rnd.choice(live)}")
                else:
                    now = rnd.choice([now, now + rnd.randint(0, 6), 10])
                    ops.append(f"c {now} {rnd.choice(live)}")
            seqs.append(" ; ".join(ops) + " ; d")
        return seqs

    def gen_loop(self, tier, seed):
        rnd = random.Random(seed * 1299709 + 3)
        seqs = []
        orders = arrival_orders(4 if tier == "quick" else 5)
        for o in orders:
            seqs.append([("i", k, v) for k, v in enumerate(o)] + [("d",)])
        five = [o for o in arrival_orders(5) if len(o) == 5]
        if tier == "quick":
            for o in rnd.sample(five, 150):
                seqs.append([("i", k, v) for k, v in enumerate(o)] + [("d",)])
        for _ in range(400 if tier == "quick" else 5000):
            n = rnd.randint(1, 8)
            ops, stopped = [], set()
            ids = list(range(n))
            for k in ids:
                if rnd.random() < 0.15:
                    ops.append(("c", k)); stopped.add(k)          # stop BEFORE start (zero-filled storage)
                v = rnd.choice(list(CLASSES.values()) + [0, rnd.randint(-3, 14)])
                ops.append(("a", k, max(v, 0)) if rnd.random() < 0.3 else ("i", k, v))
                if rnd.random() < 0.25:
                    j = rnd.choice(ids[: k + 1])
                    if j not in stopped:
                        ops.append(("c", j)); stopped.add(j)
            for _ in range(rnd.randint(0, 2)):
                a, b = rnd.choice(ids), rnd.choice(ids)
                if a != b and b not in stopped and not any(o[0] == "k" and o[1] == a for o in ops):
                    ops.append(("k", a, b))
            seqs.append(ops + [("d",)])
        return seqs

    def model_loop(self, driver, ops):
        """expected completion records of thread_unsafe_event_loop for one sequence"""
        m = Model(driver)
        now, stopped, trig, out, started = 0, set(), {}, [], set()
        for o in ops:
            if o[0] in ("i", "a"):
                due = o[2] if o[0] == "i" else now + o[2]
                if o[1] in stopped and now < due:
                    due = now                                  # callback ran inline in its constructor
                m.do(f"i {o[1]} {due}"); started.add(o[1])
            elif o[0] == "c":
                stopped.add(o[1])
                if o[1] in started:
                    m.do(f"c {now} {o[1]}")
            elif o[0] == "k":
                trig[o[1]] = o[2]
            elif o[0] == "d":
                while True:
                    q = m.queue()
                    if not q:
                        break
                    i, due = q[0]
                    m.do("p")
                    now = max(now, due)
                    out.append(f"{i}{'d' if i in stopped else 'v'}@{now}")
                    started.discard(i)
                    if i in trig and trig[i] not in stopped:
                        stopped.add(trig[i])
                        if trig[i] in started:
                            m.do(f"c {now} {trig[i]}")
        return " ".join(out)

    def run(self, tier, seed, verdict, cov, driver):
        t0 = time.time()
        try:
            exe = vlib.build_plain(os.path.join(HARN, "queue_c07.cpp"),
                                   ["thread_unsafe_event_loop.cpp", "inplace_stop_token.cpp", "linux/monotonic_clock.cpp"],
                                   sanitize="address,undefined", name="queue_c07")
        except vlib.BuildError as e:
            verdict.add("queue:build", "queue harness does not build against the current tree: " + str(e)[-1200:], dict(stream="queue"), found_input=False)
            return
        self.exe = exe
        # ---- intrusive_heap
        seqs = self.gen_heap(tier, seed)
        p = subprocess.run([exe, "heap"], input="\n".join(seqs) + "\n", capture_output=True, text=True, timeout=600)
        outs = p.stdout.split("\n")
        if p.returncode != 0 or len(outs) < len(seqs):
            k = max(min(len(outs) - 1, len(seqs) - 1), 0)
            verdict.add("heap: crash / sanitizer report in intrusive_heap", f"rc={p.returncode} {(p.stderr or '')[-500:]}",
                        dict(stream="heap", sequence=seqs[k], replay_cmd=f"echo '{seqs[k]}' | {exe} heap"))
        else:
            bad = []
            for sq, out in zip(seqs, outs):
                cov["evaluations"] += 1
                ans = driver.ask("ask timerqueue run | " + sq)
                cov["traces_validated_against_impl"] += 1
                if ans.strip() != out.strip():
                    bad.append((sq, out, ans))
                else:
                    cov["distinct_nontrivial"] += 1
            if bad:
                sq, out, ans = min(bad, key=lambda b: len(b[0]))
                verdict.add("heap: intrusive_heap order differs from the sorted stable queue",
                            f"{sq}: real pop order [{out}], Proto/TimerQueue [{ans}] ({len(bad)} of {len(seqs)} sequences)",
                            dict(stream="heap", sequence=sq, real=out, model=ans, replay_cmd=f"echo '{sq}' | {exe} heap"))
            cov["samples"].append(dict(stream="heap", sequence=seqs[-1], result=outs[len(seqs) - 1]))
        # ---- thread_unsafe_event_loop
        lseqs = self.gen_loop(tier, seed)
        text = [" ; ".join(" ".join(str(x) for x in o) for o in ops) for ops in lseqs]
        p = subprocess.run([exe, "loop"], input="\n".join(text) + "\n", capture_output=True, text=True, timeout=600)
        outs = p.stdout.split("\n")
        if p.returncode != 0 or len(outs) < len(lseqs):
            k = max(min(len(outs) - 1, len(lseqs) - 1), 0)
            verdict.add("event_loop: crash / sanitizer report in thread_unsafe_event_loop", f"rc={p.returncode} {(p.stderr or '')[-500:]}",
                        dict(stream="event_loop", sequence=text[k], replay_cmd=f"echo '{text[k]}' | {exe} loop"))
        else:
            bad, mon = [], []
            for ops, sq, out in zip(lseqs, text, outs):
                cov["evaluations"] += 1
                if "MONITOR" in out:
                    mon.append((sq, out))
                    continue
                ans = self.model_loop(driver, ops)
                cov["traces_validated_against_impl"] += 1
                if ans.strip() != out.strip():
                    bad.append((sq, out, ans))
                else:
                    cov["distinct_nontrivial"] += 1
            if mon:
                sq, out = min(mon, key=lambda b: len(b[0]))
                what = out.split("MONITOR", 1)[1].strip()
                verdict.add("event_loop: " + what.split(" op")[0].split(":")[0].split(" ; ")[0][:80], f"{sq}: {out} ({len(mon)} sequences)",
                            dict(stream="event_loop", sequence=sq, real=out, replay_cmd=f"echo '{sq}' | {exe} loop"))
            if bad:
                sq, out, ans = min(bad, key=lambda b: len(b[0]))
                verdict.add("event_loop: completions differ from the sorted stable queue",
                            f"{sq}: real [{out}], Proto/TimerQueue [{ans}] ({len(bad)} of {len(lseqs)} sequences)",
                            dict(stream="event_loop", sequence=sq, real=out, model=ans, replay_cmd=f"echo '{sq}' | {exe} loop"),
                            found_input=not mon)
            cov["samples"].append(dict(stream="event_loop", sequence=text[-1], result=outs[len(lseqs) - 1]))
        # ---- stop requested before start(), poisoned storage (DESIGN §8 #2)
        for args in (["sbs"], ["sbs", "after"], ["sbs0"], ["sbs0", "after"]):
            p = subprocess.run([exe] + args, capture_output=True, text=True, timeout=120)
            cov["evaluations"] += 1
            if p.returncode != 0:
                tail = ((p.stdout or "")[-300:] + " " + (p.stderr or "")[:500]).replace("\n", " ")
                if args[0] == "sbs" and "sbs: start() returned" not in p.stdout:
                    verdict.add(SBS_SITE, f"`queue_c07 {' '.join(args)}` rc={p.returncode}: {tail}",
                                dict(stream="event_loop", scenario=" ".join(args), replay_cmd=f"{exe} {' '.join(args)}"))
                else:
                    verdict.add(f"event_loop/stop_before_start ({' '.join(args)}): not completed once, promptly, with set_done",
                                f"rc={p.returncode}: {tail}", dict(stream="event_loop", scenario=" ".join(args), replay_cmd=f"{exe} {' '.join(args)}"))
            else:
                cov["traces_validated_against_impl"] += 1
        cov["parts_wall_s"][self.name] = round(time.time() - t0, 1)


RT_SOURCES = ["timed_single_thread_context.cpp", "inplace_stop_token.cpp"]


class SeqDiffPart:
    """timed_single_thread_context: op sequences on ONE schedule (T0 never yields except by sleeping), virtual clock"""
    name = "seqdiff"

    def gen(self, tier, seed):
        rnd = random.Random(seed * 15485863 + 5)
        seqs = []
        orders = arrival_orders(3 if tier == "quick" else 5)
        if tier == "quick":
            orders += rnd.sample([o for o in arrival_orders(5) if len(o) >= 4], 120)
        for o in orders:
            seqs.append([("i", k, 2 * v) for k, v in enumerate(o)])
        for _ in range(150 if tier == "quick" else 2500):
            n = rnd.randint(1, 7)
            ops, stopped, now = [], set(), 0
            for k in range(n):
                if rnd.random() < 0.12:
                    ops.append(("c", k)); stopped.add(k)
                v = rnd.choice(list(CLASSES.values()) + [0, rnd.randint(-3, 14)])
                ops.append(("a", k, 2 * max(v, 0)) if rnd.random() < 0.3 else ("i", k, 2 * v))
                c = rnd.random()
                if c < 0.25:
                    j = rnd.randint(0, k)
                    if j not in stopped:
                        ops.append(("c", j)); stopped.add(j)
                elif c < 0.4:
                    now = now + 2 * rnd.randint(0, 8) + 1 if now % 2 == 0 else now + 2 * rnd.randint(1, 8)
                    ops.append(("t", now))
            seqs.append(ops)
        return seqs

    def model(self, driver, ops):
        m = Model(driver)
        now, stopped, started, out = 0, set(), set(), []
        for o in ops:
            if o[0] in ("i", "a"):
                due = o[2] if o[0] == "i" else now + o[2]
                if o[1] in stopped and now < due:
                    due = now
                m.do(f"i {o[1]} {due}"); started.add(o[1])
            elif o[0] == "c":
                stopped.add(o[1])
                if o[1] in started:
                    m.do(f"c {now} {o[1]}")
            elif o[0] == "t":
                if o[1] > now:
                    while True:
                        q = m.queue()
                        if not q or q[0][1] > o[1]:
                            break
                        m.do("p"); out.append(q[0][0]); started.discard(q[0][0])
                    now = o[1]
        out += [i for i, _ in m.queue()]
        return " ".join(str(i) for i in out)

    def run(self, tier, seed, verdict, cov, driver):
        t0 = time.time()
        try:
            exe = vlib.build_rt("scn_c07.cpp", RT_SOURCES)
        except vlib.BuildError as e:
            verdict.add("seqdiff:build", "harness does not build against the current tree: " + str(e)[-1200:], dict(stream="seqdiff"), found_input=False)
            return
        seqs = self.gen(tier, seed)
        text = [";".join(" ".join(str(x) for x in o) for o in ops) for ops in seqs]
        BATCH = 40
        bad = []
        for b in range(0, len(seqs), BATCH):
            os.environ["C07_SEQ"] = "/".join(text[b:b + BATCH])
            r = vlib.run_rt(exe, "seqdiff", "dfs", 0, 1, seed, extra=["--no-clock-choices", "--max-steps", "400000"])
            os.environ.pop("C07_SEQ", None)
            cov["evaluations"] += len(seqs[b:b + BATCH])
            if r["fails"]:
                # a monitor fired (or deadlock / crash) somewhere in the batch: rerun the sequences one by one
                # and report the shortest failing one
                culprit = None
                for sq in sorted(text[b:b + BATCH], key=len):
                    os.environ["C07_SEQ"] = sq
                    r1 = vlib.run_rt(exe, "seqdiff", "dfs", 0, 1, seed, extra=["--no-clock-choices", "--max-steps", "400000"])
                    os.environ.pop("C07_SEQ", None)
                    if r1["fails"]:
                        culprit = (sq, r1["fails"][0][1])
                        break
                if culprit is None:
                    culprit = ("/".join(text[b:b + BATCH]), r["fails"][0][1])
                sq, why = culprit
                import re as _re
                site = _re.sub(r"\bop\d+", "opN", why.split(" && ")[0])[:110]
                verdict.add("seqdiff: " + site, f"sequence {sq!r}: {why[:400]}",
                            dict(stream="seqdiff", sequence=sq, replay_cmd=f"C07_SEQ='{sq}' {exe} --scenario seqdiff --mode dfs --preemptions 0 --max-execs 1 --no-clock-choices"))
                continue
            got = {}
            for _, _, h in r["hist"]:
                for e in h.split(" ; "):
                    if e.startswith("T0 seq "):
                        k, _, ids = e[len("T0 seq "):].partition(" :")
                        got[int(k)] = ids.strip()
            for j, ops in enumerate(seqs[b:b + BATCH]):
                want = self.model(driver, ops)
                cov["traces_validated_against_impl"] += 1
                if got.get(j) != want:
                    bad.append((text[b + j], got.get(j), want))
                else:
                    cov["distinct_nontrivial"] += 1
        if bad:
            sq, out, ans = min(bad, key=lambda x: len(x[0]))
            verdict.add("seqdiff: timed_single_thread_context completion order differs from the sorted stable queue",
                        f"{sq}: real [{out}], Proto/TimerQueue [{ans}] ({len(bad)} of {len(seqs)} sequences)",
                        dict(stream="seqdiff", sequence=sq, real=out, model=ans,
                             replay_cmd=f"C07_SEQ='{sq}' {exe} --scenario seqdiff --mode dfs --preemptions 0 --max-execs 1 --no-clock-choices"))
        if text:
            cov["samples"].append(dict(stream="seqdiff", sequence=text[-1]))
        cov["parts_wall_s"][self.name] = round(time.time() - t0, 1)


class MonitorOnlyPart:
    """scenarios without a Lean configuration: only the harness' own monitors decide"""
    def __init__(self, scenarios, name="monitors", scn_cpp="scn_c07.cpp", libs=None, extra_srcs=(), quick=(1000, 150)):
        self.scenarios, self.name, self.scn_cpp, self.libs, self.extra_srcs, self.quick = scenarios, name, scn_cpp, libs, list(extra_srcs), quick

    def run(self, tier, seed, verdict, cov, driver):
        t0 = time.time()
        try:
            exe = vlib.build_rt(self.scn_cpp, self.libs if self.libs is not None else RT_SOURCES,
                                **(dict(extra_srcs=self.extra_srcs) if self.extra_srcs else {}))
        except vlib.BuildError as e:
            verdict.add(f"{self.name}:build", str(e)[-1200:], dict(stream=self.name), found_input=False)
            return
        for scn in self.scenarios:
            runs = [vlib.run_rt(exe, scn, "dfs", 2, self.quick[0] if tier == "quick" else 40000, seed),
                    vlib.run_rt(exe, scn, "random", 0, self.quick[1] if tier == "quick" else 5000, seed),
                    vlib.run_rt(exe, scn, "pct", 3, self.quick[1] if tier == "quick" else 5000, seed + 7)]
            hs = set()
            for r in runs:
                cov["evaluations"] += r["stats"].get("executions", 0)
                cov["with_preemption"] += r["stats"].get("with_preemption", 0)
                for sched, why, h in r["fails"]:
                    verdict.add(f"{self.name}/{scn}: {why.split(' && ')[0][:120]}", why,
                                dict(stream=self.name, scenario=scn, schedule=sched, history=h.split(" ; "),
                                     replay_cmd=f"{exe} --scenario {scn} --replay {sched}"))
                for _, _, h in r["hist"]:
                    hs.add(h)
            cov["exhaustive_dfs"][f"{self.name}/{scn}"] = bool(runs[0]["stats"].get("exhausted", 0))
            cov["distinct_histories"][f"{self.name}/{scn}"] = len(hs)
        cov["parts_wall_s"][self.name] = round(time.time() - t0, 1)


SCENARIOS = ["one_cancel", "two_order", "two_equal", "stop_before_start", "two_cancel", "three_equal"]
# io_epoll_context timers (harness/rt/scn_c07_epoll.cpp + rt_io.cpp: timerfd on the virtual clock) vs Proto/EpollTimer
EP_SOURCES = ["linux/io_epoll_context.cpp", "linux/safe_file_descriptor.cpp", "linux/monotonic_clock.cpp", "inplace_stop_token.cpp"]
EP_SCENARIOS = ["ep_cancel_at_due", "ep_remote_cancel", "ep_local_cancel", "ep_two_order", "ep_stop_before_start"]


def run(tier, seed, replay=None):
    parts = [
        TranslatorPart(),       # regenerates Generated/Clock.lean NOW, i.e. before the proof gate inside run_check
        ClockPart(),
        QueuePart(),
        SeqDiffPart(),
        AtomicPart("timerop", "scn_c07.cpp", RT_SOURCES, "timerop", SCENARIOS,
                   quick=dict(preemptions=2, max_execs=2000), thorough=dict(preemptions=3, max_execs=60000),
                   random_execs=(150, 5000)),
        MonitorOnlyPart(["after_three", "past_due"]),
        AtomicPart("epolltimer", "scn_c07_epoll.cpp", EP_SOURCES, "epolltimer", EP_SCENARIOS, extra_srcs=["rt_io.cpp"],
                   quick=dict(preemptions=2, max_execs=1000), thorough=dict(preemptions=3, max_execs=40000),
                   random_execs=(150, 4000)),
        MonitorOnlyPart(["ep_three"], name="epollmonitors", scn_cpp="scn_c07_epoll.cpp", libs=EP_SOURCES, extra_srcs=["rt_io.cpp"], quick=(600, 100)),
    ]
    return run_check(
        "C07", tier, seed,
        ["UnifexModel.Props.C07", "UnifexModel.Props.C07_Queue", "UnifexModel.Props.C07_Clock", "UnifexModel.Props.C07_Cancel", "UnifexModel.Props.C07_TwoCancel",
         "UnifexModel.Props.C07_Epoll", "UnifexModel.Props.C07_EpollOrder", "UnifexModel.Props.C07_EpollRace", "UnifexModel.Props.C07_EpollRace2"],
        parts,
        rule="clock: one case = one operand tuple evaluated by the compiled header and by the regenerated Lean definition (boundary grid + seeded random), "
             "non-trivial = distinct (function, result) pairs that agree; queue/seqdiff: one case = one operation sequence (all arrival orders of "
             "{past, equal, +1 tick, far} up to length 4 (5 thorough) + seeded random with remove/pop/cancel/stop-before-start/sleep) through the real "
             "intrusive_heap / thread_unsafe_event_loop / timed_single_thread_context and through Proto/TimerQueue; timerop: one case = one distinct observable "
             "history of a systematically scheduled execution (DFS with preemption bound + random + PCT, virtual clock as a DFS choice), non-trivial = admitted by Proto/TimerOp",
        assumptions=["mathematical integers in the clock theorems (no signed 64-bit overflow: UB in the source; operands of the differential run stay inside that range)",
                     "duration template parameters instantiated at monotonic_clock::duration (100 ns ticks); std::chrono duration_cast/common_type semantics built into the translator (validated by the differential run)",
                     "critical sections of timed_single_thread_context::mutex_ are atomic steps (Lipton reduction; nothing blocks inside one), inplace_stop_source protocol atomic (C03)",
                     "no spurious condition-variable wake-ups (the code tolerates them; a wait that NEEDS one is reported as lost wake-up)",
                     "TimerOp instances: <=2 timers, one canceller, clock 0..2 (theorems per instance, all schedules of unbounded length)",
                     "io_epoll_context timers: remote queue wake-up protocol as one step (C14), stop source atomic (C03), kernel semantics of timerfd/eventfd/epoll ASSUMED "
                     "(in the harness the timerfd is simulated on the virtual clock by harness/rt/rt_io.cpp); EpollTimer instances: <=2 timers, one canceller, clock 0..2",
                     "io_uring timers are not exercised (only the shared clock arithmetic and intrusive_heap)"],
        trusted_extra=["harness/rt (cooperative scheduler, virtual clock)", "harness/rt/rt_io.cpp (syscall interposition, virtual timerfd)", "Core/Admit.lean trace-inclusion test", "tools/cxx2lean_clock.py front end (validated differentially each run)",
                       "g++ 12 -fsanitize=thread instrumentation; ASan+UBSan for the plain harnesses"],
        explanation="Theorems: Props/C07_Clock (all operands, about the regenerated definitions), Props/C07 part 1 + C07_Queue (parametric queue theorems, uniqueness of the sorted stable order), "
                    "Props/C07 + C07_Cancel + C07_TwoCancel *_safe (timed_single_thread_context) and Props/C07_Epoll + C07_EpollOrder + C07_EpollRace + C07_EpollRace2 ep_*_safe (io_epoll_context timers: "
                    "the elapsed-vs-remote-cancel election has one winner) — kernel-evaluated closure per instance. Tie: translator + differential for the clock; "
                    "sequential differential for the three queue implementations; trace inclusion + independent monitors for timed_single_thread_context and for the io_epoll_context timers.")
