"""C14 — I/O contexts complete each operation once with the true result; no stale state.

Scope: io_epoll_context (remote scheduling / wake-up protocol, run(stop_token), async read / write
on a pipe: start, park, readiness, cancellation, descriptor reuse, short / failed syscalls).
io_uring_context, mmap_region: NOT covered by this check (no model, no harness) — level is partial.

Two parts on ONE harness binary (harness/rt/scn_c14.cpp + harness/rt/rt_io.cpp: the real
io_epoll_context under the controlled scheduler, real pipes/eventfd/epoll in the kernel,
epoll_wait / epoll_ctl / readv / writev / read / write / close interposed, fault schedule):
  remotequeue  rq_*          vs Lean model Proto/RemoteQueue (parametric theorems, Props/C14)
  epollop      rd_* / wr_* / x2_read   vs Lean model Proto/EpollOp (+EpollOp2)  (instance theorems, Props/C14_ops, C14_cancel, C14_race, C14_more)
  twoctx       x2_schedule   vs Lean model Proto/TwoCtx (product of two RemoteQueue instances; Props/C14_two: the parametric
                             RemoteQueue invariant holds for both contexts in every schedule of the product)

The EpollOp model follows the code WITH the errno repair (/repo 1b893b7) and WITH the cancellation
repair of tools/checks/c14_repair.patch (stale epoll registration / stopCallback_ never destructed in
complete_with_done).  On a tree without the latter the monitors of rd_cancel_* / wr_cancel_parked fire.
"""
from ..atomic import AtomicPart
from ..runner import run_check

LIBS = ["linux/io_epoll_context.cpp", "linux/safe_file_descriptor.cpp", "linux/monotonic_clock.cpp", "inplace_stop_token.cpp"]
RQ_SCENARIOS = ["rq_one", "rq_two", "rq_burst", "rq_stop_early"]
IO_SCENARIOS = ["rd_ready", "rd_park", "rd_eagain_fault", "rd_short", "rd_cancel_parked", "rd_cancel_race",
                "rd_cancel_before_start", "rd_error_start", "rd_error_retry", "wr_ready", "wr_park", "wr_cancel_parked",
                "wr_cancel_before_start", "rd_cancel_before_start_park", "x2_read"]
X2_SCENARIOS = ["x2_schedule"]

class IoPart(AtomicPart):
    def __init__(self, name, model, scenarios):
        super().__init__(name, "scn_c14.cpp", LIBS, model, scenarios, extra_srcs=["rt_io.cpp"],
                         quick=dict(preemptions=2, max_execs=2000), thorough=dict(preemptions=3, max_execs=60000),
                         random_execs=(200, 5000), on_runs=self.collect)

    def collect(self, scn, runs, cov):
        fc = cov.setdefault("syscall_faults_fired", {})
        sc = cov.setdefault("syscalls_interposed", {})
        for r in runs:
            for k, v in r["stats"].items():
                if k.startswith("rtio_fault_"):
                    fc[k[len("rtio_fault_"):]] = fc.get(k[len("rtio_fault_"):], 0) + v
                elif k.startswith("rtio_"):
                    sc[k[len("rtio_"):]] = sc.get(k[len("rtio_"):], 0) + v


def run(tier, seed, replay=None):
    parts = [IoPart("remotequeue", "remotequeue", RQ_SCENARIOS), IoPart("epollop", "epollop", IO_SCENARIOS),
             IoPart("twoctx", "twoctx", X2_SCENARIOS)]
    return run_check(
        "C14", tier, seed, ["UnifexModel.Props.C14", "UnifexModel.Props.C14_ops", "UnifexModel.Props.C14_cancel", "UnifexModel.Props.C14_race",
                "UnifexModel.Props.C14_more", "UnifexModel.Props.C14_two"], parts,
        rule="every schedule (DFS preemption-bounded + random + PCT walks) of 4 remote-scheduling scenarios, 15 read/write scenarios and 1 two-context scenario on the real "
             "io_epoll_context under the controlled scheduler with interposed syscalls and a fault schedule; a case = one distinct observable history "
             "(API calls/returns, syscall results, completions); non-trivial = admitted by the Lean model of the same name",
        assumptions=["sequentially consistent atomics (memory orders ignored)",
                     "kernel semantics are ASSUMED, not verified: eventfd counter, level-triggered epoll, one registration per descriptor, pipe readiness; "
                     "in the harness the kernel objects are real, only epoll_wait blocking and the fault schedule are simulated",
                     "RemoteQueue theorems are parametric (any number of producers/items); EpollOp theorems are per instance (<=2 operations on one descriptor, "
                     "<=3 threads), all schedules of unbounded length",
                     "the stop source of an operation is the atomic register/take/complete abstraction justified by C03",
                     "io_uring_context, mmap_region and timers of io_epoll_context are not covered (partial level)"],
        trusted_extra=["harness/rt (cooperative scheduler, __tsan_* shim)", "harness/rt/rt_io.cpp (syscall interposition, fault schedule, shadow epoll table)",
                       "Core/Admit.lean trace-inclusion test", "g++ 12 -fsanitize=thread instrumentation", "Linux pipe/eventfd/epoll as found in the sandbox"],
        explanation="Theorems: Props/C14 remote_* / wakeup_* / run_* (parametric, by inductive invariant: Lemmas/RemoteQueue*), Props/C14_ops, "
                    "Props/C14_cancel, Props/C14_race *_ok (kernel-evaluated closures: safe, clean, errTrue in every schedule of each instance) and "
                    "*_completes / race_* (non-vacuity witnesses). Tie: trace inclusion of real executions in the models + model-independent "
                    "monitors (ran twice / wrong thread / lost item, completed twice, bytes differ, buffer or operation state touched after completion, "
                    "stale epoll registration, run() not returning, double close).")
