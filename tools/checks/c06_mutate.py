"""Apply one of the C06 mutations (tools/checks/c06_mutations.md) to a scratch copy of /repo:
   python3 tools/checks/c06_mutate.py <name>   ->  prints the scratch dir; then VERIF_REPO=<dir> ./check C06"""
import os, shutil, sys
MUTS = {
 "m1_enqueue_notify_nonempty": ("source/manual_event_loop.cpp", "  if (wasEmpty) {\n    cv_.notify_one();", "  if (!wasEmpty) {\n    cv_.notify_one();"),
 "m2_run_stop_before_drain": ("source/manual_event_loop.cpp", "  while (true) {\n    while (head_ == nullptr) {\n      if (stop_)\n        return;\n      cv_.wait(lock);\n    }", "  while (true) {\n    if (stop_)\n      return;\n    while (head_ == nullptr) {\n      cv_.wait(lock);\n      if (stop_)\n        return;\n    }"),
 "m3_pool_pop_stop_before_empty": ("source/static_thread_pool.cpp", "  while (queue_.empty()) {\n    if (stopRequested_) {\n      return nullptr;\n    }\n    cv_.wait(lk);\n  }", "  while (!stopRequested_ && queue_.empty()) {\n    cv_.wait(lk);\n  }\n  if (stopRequested_) {\n    return nullptr;\n  }"),
 "m4_tmi_wrong_expected": ("include/unifex/detail/atomic_intrusive_queue.hpp", "    void* oldValue = head_.load(std::memory_order_relaxed);\n    if (oldValue == nullptr) {\n      if (head_.compare_exchange_strong(", "    void* oldValue = head_.load(std::memory_order_relaxed);\n    if (oldValue != inactive) {\n      if (head_.compare_exchange_strong("),
 "m5_enqueue_wrong_return": ("include/unifex/detail/atomic_intrusive_queue.hpp", "        oldValue, item, std::memory_order_acq_rel));\n    return oldValue == inactive;", "        oldValue, item, std::memory_order_acq_rel));\n    return oldValue == nullptr;"),
 "m6_pool_push_notify_nonempty": ("source/static_thread_pool.cpp", "void context::thread_state::push(task_base* task) {\n  std::lock_guard lk{mut_};\n  const bool wasEmpty = queue_.empty();\n  queue_.push_back(task);\n  if (wasEmpty) {", "void context::thread_state::push(task_base* task) {\n  std::lock_guard lk{mut_};\n  const bool wasEmpty = queue_.empty();\n  queue_.push_back(task);\n  if (!wasEmpty) {"),
 "m6b_pool_trypush_notify_nonempty": ("source/static_thread_pool.cpp", "    return false;\n  }\n  const bool wasEmpty = queue_.empty();\n  queue_.push_back(task);\n  if (wasEmpty) {", "    return false;\n  }\n  const bool wasEmpty = queue_.empty();\n  queue_.push_back(task);\n  if (!wasEmpty) {"),
 "m7_newthread_retire_wrong_count": ("include/unifex/new_thread_context.hpp", "if (activeThreadCount_.fetch_sub(1, std::memory_order_relaxed) == 1) {", "if (activeThreadCount_.fetch_sub(1, std::memory_order_relaxed) == 0) {"),
 "m8_trampoline_depth_le": ("include/unifex/trampoline_scheduler.hpp", "currentState->recursionDepth_ < maxRecursionDepth_", "currentState->recursionDepth_ <= maxRecursionDepth_"),
 "m9_trampoline_drain_no_reset": ("source/trampoline_scheduler.cpp", "    recursionDepth_ = 1;\n", ""),
 "m10_stc_dtor_no_stop": ("include/unifex/single_thread_context.hpp", "    loop_.stop();\n", ""),
 "m11_pool_request_stop_no_notify": ("source/static_thread_pool.cpp", "  stopRequested_ = true;\n  cv_.notify_one();", "  stopRequested_ = true;"),
 "m12_loop_stop_no_notify": ("source/manual_event_loop.cpp", "  stop_ = true;\n  cv_.notify_all();", "  stop_ = true;"),
 "m13_trampoline_defer_fifo": ("include/unifex/trampoline_scheduler.hpp", "        next_ = std::exchange(\n            currentState->head_, static_cast<operation_base*>(this));", "        next_ = nullptr;\n        if (currentState->head_ == nullptr) currentState->head_ = this; else { auto* p = currentState->head_; while (p->next_) p = p->next_; p->next_ = this; }"),
 "m14_pool_trypop_ignores_lock": ("source/static_thread_pool.cpp", "  if (!lk || queue_.empty()) {\n    return nullptr;\n  }\n  return queue_.pop_front();\n}\n\ntask_base* context::thread_state::pop()", "  if (queue_.empty()) {\n    return nullptr;\n  }\n  return queue_.pop_front();\n}\n\ntask_base* context::thread_state::pop()"),
}
name = sys.argv[1]
f, old, new = MUTS[name]
d = f"/tmp/c06mut/{name}"
if os.path.exists(d): shutil.rmtree(d)
os.makedirs(d)
shutil.copytree("/repo/include", d + "/include"); shutil.copytree("/repo/source", d + "/source")
p = os.path.join(d, f); s = open(p).read()
assert s.count(old) == 1, (name, s.count(old))
open(p, "w").write(s.replace(old, new))
print(d)
