"""C16 — events and async_pass wake every waiter exactly once and rendezvous atomically."""
from ..atomic import AtomicPart
from ..runner import run_check

PROPS = ["UnifexModel.Props.C16",                                  # v1 event: parametric + 2 instances
         "UnifexModel.Props.C16_auto", "UnifexModel.Props.C16_auto_a", "UnifexModel.Props.C16_auto_b",
         "UnifexModel.Props.C16_v2", "UnifexModel.Props.C16_v2_a", "UnifexModel.Props.C16_v2_b", "UnifexModel.Props.C16_v2_c",
         "UnifexModel.Props.C16_pass", "UnifexModel.Props.C16_pass_a", "UnifexModel.Props.C16_pass_b",
         "UnifexModel.Props.C16_pass_c"]

EVENT_SRC = ["async_manual_reset_event_v1.cpp", "async_auto_reset_event.cpp", "inplace_stop_token.cpp",
             "async_manual_reset_event_v2.cpp", "atomic_intrusive_list.cpp"]
V1 = ["v1_two_waiters", "v1_two_setters", "v1_set_reset", "v1_start_set", "v1_reset_noop"]
V1_THOROUGH = ["v1_three_waiters"]
AR = ["ar_one_consumer", "ar_cancel", "ar_cancel_vs_set", "ar_two_consumers", "ar_start_ready"]
V2 = ["v2_two_waiters", "v2_set_reset", "v2_cancel", "v2_cancel_vs_set", "v2_ready_busy"]
PASS = ["pass_rendezvous", "pass_cancel_call", "pass_cancel_accept", "pass_cancel_call_plain", "pass_try_call", "pass_try_accept", "pass_late_stop"]

QUICK = dict(preemptions=2, max_execs=1500)
THOROUGH = dict(preemptions=3, max_execs=60000)


def run(tier, seed, replay=None):
    v1 = V1 + (V1_THOROUGH if tier == "thorough" else [])
    kw = dict(quick=QUICK, thorough=THOROUGH, random_execs=(250, 5000))
    parts = [
        AtomicPart("eventv1", "scn_c16.cpp", EVENT_SRC, "eventv1", v1, **kw),
        AtomicPart("autoreset", "scn_c16.cpp", EVENT_SRC, "autoreset", AR, **kw),
        AtomicPart("eventv2", "scn_c16.cpp", EVENT_SRC, "eventv2", V2, **kw),
        AtomicPart("asyncpass", "scn_c16_pass.cpp", ["async_pass.cpp", "inplace_stop_token.cpp"], "asyncpass", PASS,
                   std="gnu++20", **kw),
    ]
    return run_check(
        "C16", tier, seed, PROPS, parts,
        rule="every schedule (DFS, preemption-bounded, plus random/PCT walks) of 22 scenarios (23 thorough) on the real v1/v2 "
             "manual-reset events, the auto-reset event and async_pass under the controlled scheduler; a case = one distinct "
             "observable history (calls, returns, completions with the thread that ran them); non-trivial = admitted by the "
             "Lean model configuration of the same name",
        assumptions=[
            "sequentially consistent atomics (memory orders ignored)",
            "v2 event: the operations of atomic_intrusive_list are linearizable (single steps of the model; the real list code "
            "runs in the scenarios but its internals are not modelled)",
            "inplace_stop_source: registration / request_stop / deregistration are atomic, deregistration blocks while the "
            "callback runs on another thread (C03's subject)",
            "the receivers' scheduler completes a scheduled operation with set_done if the receiver's stop token reports a stop "
            "request when it runs, like inline_scheduler / manual_event_loop (pass_cancel_call_plain: a scheduler that ignores it)",
            "instance theorems: <=2 waiters/consumers, one caller and one acceptor (two concurrent callers are std::terminate "
            "in the code); v1 event and auto-reset counting theorems are parametric",
        ],
        trusted_extra=["harness/rt (cooperative scheduler, __tsan_* shim)", "Core/Admit.lean trace-inclusion test",
                       "g++ 12 -fsanitize=thread instrumentation"],
        explanation="Theorems: v1 event parametric by invariant induction (Lemmas/EventV1Inv: every waiter at most once, no stranded "
                    "waiter, no ABA in the CAS loop, reset affects only later waits, no deadlock) + 2 reflection instances; auto-reset "
                    "parametric counting invariant (each set() handed to at most one next(), DONE permanent) + 3 instances with "
                    "deadlock freedom; v2 event and async_pass per instance (kernel-evaluated closure); async_pass incl. call_value_iff_accepted "
                    "in both directions (completion_forwarder's reschedule is unstoppable since /repo b17d5ba; regression monitors kept).  "
                    "v2 event: every instance incl. cancellation proves completion on the waiter's scheduler, no value after a won cancel "
                    "race, no access to the operation after completion (model follows the repaired stop(): tools/checks/c16_repair.patch; "
                    "regression monitor kept); ready() is a linearizable observation of 'set' (bad=7, v2_ready_busy: probes racing with a late "
                    "wait and a redundant set() on a signalled event).  async_pass: slot consistency (slotOk: a parked party IS the word and "
                    "vice versa) in every instance, incl. pass_late_stop (late stop of an already claimed call while another waiter parks).  "
                    "Tie: trace inclusion of real executions in the models; monitors independent of the models.  "
                    "Mutations tried: tools/checks/c16_mutations.md.")
