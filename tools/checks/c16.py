"""C16 — events and async_pass wake every waiter exactly once and rendezvous atomically."""
from ..atomic import AtomicPart
from ..runner import run_check

V1 = ["v1_two_waiters", "v1_two_setters", "v1_set_reset", "v1_start_set", "v1_three_waiters"]


def run(tier, seed, replay=None):
    parts = [
        AtomicPart("eventv1", "scn_c16.cpp", ["async_manual_reset_event_v1.cpp"], "eventv1", V1),
    ]
    return run_check(
        "C16", tier, seed, ["UnifexModel.Props.C16"], parts,
        rule="every schedule (DFS, preemption-bounded, plus random/PCT walks) of the scenarios on the real events under the controlled "
             "scheduler; a case = one distinct observable history; non-trivial = admitted by the Lean model of the same name",
        assumptions=["sequentially consistent atomics (memory orders ignored)"],
        trusted_extra=["harness/rt (cooperative scheduler, __tsan_* shim)", "Core/Admit.lean trace-inclusion test", "g++ 12 -fsanitize=thread instrumentation"],
        explanation="v1 event: parametric theorems (any number of waiters/controllers, all schedules) by invariant induction.")
