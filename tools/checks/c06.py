"""C06 — schedulers run every scheduled item once, on their own context, losing none."""
import random, subprocess, time
from .. import vlib
from ..atomic import AtomicPart
from ..runner import run_check

LIBS = ["manual_event_loop.cpp", "static_thread_pool.cpp", "inplace_stop_token.cpp"]
LOOP = ["loop_wait", "loop_wait2", "stc_wait", "loop_1x2", "loop_2x1", "loop_2x2", "loop_3x1", "loop_1x3", "loop_stop_race", "loop_stop_race2", "loop_tok", "stc", "stc2"]
AQ = ["aq_2x1", "aq_1x2", "aq_dq", "aq_eoma", "aq_2x2"]
POOL = ["pool_1_wait", "pool_2_wait", "pool_1_wait2", "pool_1", "pool_2a", "pool_2b", "pool_2c", "pool_tokfirst"]
NT = ["nt_1", "nt_2", "nt_3", "nt_tokfirst"]
# configurations whose whole reachable set is (also) explored by the compiled driver
MODEL_CONFIGS = [("eventloop", LOOP), ("atomicqueue", AQ), ("threadpool", POOL), ("newthread", NT)]


class ModelSweepPart:
    """Untrusted cross-check: the compiled driver explores the complete reachable set of every
    configuration (including the ones too large for the kernel) and evaluates `safe` on each state."""
    name = "model-sweep"

    def run(self, tier, seed, verdict, cov, driver):
        t0 = time.time()
        states = {}
        for model, cfgs in MODEL_CONFIGS:
            for c in cfgs:
                if c.endswith("_tokfirst"):                 # same state space as pool_2b / nt_2
                    continue
                if tier == "quick" and c in ("pool_2c",):   # 45k states: thorough only
                    continue
                ans = driver.ask(f"ask {model} {c} | checksafe")
                if ans.startswith("ok"):
                    states[f"{model}/{c}"] = int(ans.split()[1])
                else:
                    verdict.add(f"model-sweep/{model}/{c}: model state violates safe", ans[:1500], dict(stream=self.name, model=model, config=c, answer=ans[:4000]), found_input=False)
        cov["model_states_swept"] = states
        cov["parts_wall_s"][self.name] = round(time.time() - t0, 1)


def gen_tree(rng, budget, depth_left, p_stop):
    """random nesting tree as text; returns (text, nodes used)"""
    s = "(" + ("!" if rng.random() < p_stop else "")
    used = 1
    if depth_left > 0:
        nk = rng.choice([0, 1, 1, 1, 2, 2, 3, 4]) if budget > 1 else 0
        for _ in range(nk):
            if used >= budget:
                break
            t, u = gen_tree(rng, (budget - used + 1) // 2 if nk > 1 else budget - used, depth_left - 1, p_stop)
            s += t
            used += u
    return s + ")", used


def chain(n, stop_at=-1):
    return "".join("(!" if i == stop_at else "(" for i in range(n)) + ")" * n


class TrampolinePart:
    """Sequential differential part: generated nesting trees through the REAL trampoline_scheduler
    and through Proto/Trampoline (`ask trampoline run`); event logs must be identical."""
    name = "trampoline"
    flags = ()
    exe_name = "tramp"
    libs = ["trampoline_scheduler.cpp", "inplace_stop_token.cpp"]
    model = "trampoline"

    def cases(self, tier, seed):
        rng = random.Random(seed * 7919 + 13)
        out = []
        for md in (0, 1, 2, 3, 16):
            out.append((md, chain(40)))
            out.append((md, "(" + "()" * 20 + ")"))
            out.append((md, chain(20, stop_at=7)))
            out.append((md, "(" + chain(5) * 6 + ")"))
        n = 300 if tier == "quick" else 6000
        for _ in range(n):
            md = rng.choice([0, 1, 1, 2, 2, 3, 4, 5, 8, 16, 17])
            budget = rng.choice([3, 6, 12, 25, 40, 60])
            depth = rng.choice([2, 4, 8, 40])
            t, _ = gen_tree(rng, budget, depth, rng.choice([0.0, 0.0, 0.1, 0.3]))
            out.append((md, t))
        return out

    def run(self, tier, seed, verdict, cov, driver):
        t0 = time.time()
        try:
            exe = vlib.build_plain(vlib.os.path.join(vlib.VERIF, "harness", "seq", "tramp_c06.cpp"),
                                   self.libs, extra_flags=self.flags, sanitize="address,undefined", name=self.exe_name)
        except vlib.BuildError as e:
            verdict.add(self.name + ":build", "harness does not build against the current tree: " + str(e)[-1500:], dict(stream=self.name), found_input=False)
            return
        cases = self.cases(tier, seed)
        inp = "".join(f"{md} | {t}\n" for md, t in cases)
        try:
            r = subprocess.run([exe], input=inp, capture_output=True, text=True, timeout=600)
        except subprocess.TimeoutExpired:
            verdict.add(self.name + ": harness timeout", "the real scheduler did not finish the generated cases", dict(stream=self.name), found_input=False)
            return
        lines = r.stdout.split("\n")
        # regroup: MONITOR lines belong to the following log line
        outs, mons, cur = [], [], []
        for ln in lines:
            if ln.startswith("MONITOR "):
                cur.append(ln[8:])
            elif len(outs) < len(cases):
                outs.append(ln); mons.append(cur); cur = []
        if r.returncode != 0 or len(outs) < len(cases):
            k = min(len(outs), len(cases) - 1)
            verdict.add(self.name + ": harness crashed", f"rc={r.returncode} after {len(outs)} cases: {(r.stderr or '')[-600:]}",
                        dict(stream=self.name, case=f"{cases[k][0]} | {cases[k][1]}", replay_cmd=f"echo '{cases[k][0]} | {cases[k][1]}' | {exe}"))
            return
        depths = {}
        for (md, t), real, mon in zip(cases, outs, mons):
            cov["evaluations"] += 1
            case = f"{md} | {t}"
            for m in mon:
                kind = "item ran twice" if "ran twice" in m else "item not run exactly once when the outermost start() returned" if "outermost" in m else "start() returned before its item completed" if "inline" in m else "nesting exceeds the maximum depth"
                verdict.add(self.name + ": monitor: " + kind, f"case {case}: {m}",
                            dict(stream=self.name, case=case, real=real, replay_cmd=f"echo '{case}' | {exe}"))
            model = driver.ask(f"ask {self.model} run | {case}" if self.model == "trampoline" else f"ask {self.model} run | {t}")
            cov["traces_validated_against_impl"] += 1
            if model != real:
                verdict.add(self.name + ": real event log differs from Proto/" + ("Trampoline" if self.model == "trampoline" else "InlineSched"), f"case {case}: real [{real}] model [{model}]",
                            dict(stream=self.name, case=case, real=real, model=model, replay_cmd=f"echo '{case}' | {exe}"))
            elif " d" in real or (self.model != "trampoline" and "d " in real + " "):
                cov["distinct_nontrivial"] += 1
            depths[md] = depths.get(md, 0) + 1
        cov[self.name + "_cases_by_maxdepth"] = depths
        if len(cov["samples"]) < 14 and cases:
            cov["samples"].append(dict(stream=self.name, case=f"{cases[-1][0]} | {cases[-1][1]}", log=outs[len(cases) - 1]))
        cov["parts_wall_s"][self.name] = round(time.time() - t0, 1)


class InlinePart(TrampolinePart):
    """The same generated nesting trees through the REAL inline_scheduler (tramp_c06.cpp -DUSE_INLINE) and through
    Proto/InlineSched (`ask inlinesched run`); event logs must be identical; model-independent monitors: every item
    ran exactly once, no start() returned before its item completed."""
    name = "inline"
    flags = ("-DUSE_INLINE",)
    exe_name = "inl"
    libs = ["inplace_stop_token.cpp"]
    model = "inlinesched"

    def cases(self, tier, seed):
        rng = random.Random(seed * 104729 + 7)
        out = [(0, chain(40)), (0, "(" + "()" * 20 + ")"), (0, chain(20, stop_at=7)), (0, "(" + chain(5) * 6 + ")"), (0, "((!())())")]
        for _ in range(150 if tier == "quick" else 4000):
            t, _ = gen_tree(rng, rng.choice([3, 6, 12, 25, 40, 60]), rng.choice([2, 4, 8, 40]), rng.choice([0.0, 0.1, 0.3]))
            out.append((0, t))
        return out


def run(tier, seed, replay=None):
    small = dict(quick=dict(preemptions=2, max_execs=1000), thorough=dict(preemptions=3, max_execs=40000), random_execs=(200, 4000))
    parts = [
        AtomicPart("eventloop", "scn_c06.cpp", LIBS, "eventloop", LOOP, quick=dict(preemptions=2, max_execs=1500)),
        AtomicPart("atomicqueue", "scn_c06.cpp", LIBS, "atomicqueue", AQ, quick=dict(preemptions=2, max_execs=2500)),
        # pool_2c (two pool threads + external producer, 45k model states: the trace-inclusion test alone
        # takes minutes) runs in the thorough tier only
        AtomicPart("threadpool", "scn_c06.cpp", LIBS, "threadpool", [p for p in POOL if tier != "quick" or p != "pool_2c"], **small),
        AtomicPart("newthread", "scn_c06.cpp", LIBS, "newthread", NT, **small),
        TrampolinePart(),
        InlinePart(),
        ModelSweepPart(),
    ]
    return run_check(
        "C06", tier, seed,
        ["UnifexModel.Props.C06", "UnifexModel.Props.C06_loop", "UnifexModel.Props.C06_loop2", "UnifexModel.Props.C06_queue",
         "UnifexModel.Props.C06_queue2", "UnifexModel.Props.C06_pool", "UnifexModel.Props.C06_loop3", "UnifexModel.Props.C06_newthread", "UnifexModel.Props.C06_inline", "UnifexModel.Props.C06_tramp_inline"],
        parts,
        rule="every schedule (DFS preemption-bounded + random/PCT walks) of 30 scenarios (29 in the quick tier) on the REAL manual_event_loop, single_thread_context, "
             "static_thread_pool, new_thread_context and atomic_intrusive_queue under the controlled scheduler (interposed mutex/condvar/threads); "
             "a case = one distinct observable history, non-trivial = admitted by the Lean model of the same name; plus generated nesting trees "
             "through the real trampoline_scheduler compared event-for-event with Proto/Trampoline (non-trivial = at least one deferred item) "
             "and through the real inline_scheduler compared with Proto/InlineSched (non-trivial = at least one done completion after a stop request)",
        assumptions=["sequentially consistent atomics (memory orders ignored)",
                     "event loop: regions protected by mutex_ are atomic (they only touch state protected by that mutex); no spurious condition-variable wake-ups",
                     "parametric theorems: event loop (any producers/items/stoppers, all schedules), trampoline (any tree, any depth); "
                     "atomic queue / thread pool / new_thread_context: per-instance theorems (<=2 producers, <=2 items, <=2 pool threads in the kernel; larger instances only swept by the compiled driver)",
                     "enqueue racing with the stop/destructor is outside the contract: only items accepted before the stop must run",
                     "inline_scheduler: sequential model (Proto/InlineSched), theorems for every nesting tree (Props/C06_inline)"],
        trusted_extra=["harness/rt (cooperative scheduler, __tsan_* shim, pthread interposition)", "Core/Admit.lean trace-inclusion test",
                       "g++ 12 -fsanitize=thread instrumentation", "harness/seq/tramp_c06.cpp (+ -DUSE_INLINE) + Proto/Trampoline / Proto/InlineSched text interfaces"],
        explanation="Parametric: Props/C06 loop_* (Lemmas/EventLoop inductive invariant), trampoline_* (Lemmas/Trampoline), inline_* (Props/C06_inline, structural induction over the nesting tree). "
                    "Instances by kernel-evaluated closure: loop_*_safe, stc2_safe, aq_*_safe, pool_1_safe, newthread_*_joins_all. "
                    "Tie: trace inclusion of real executions in the models; sequential differential for the trampoline; "
                    "model-sweep = untrusted compiled exploration of all configurations incl. those too big for the kernel "
                    "(loop_2x2, loop_3x1, loop_stop_race2, stc, aq_dq, aq_2x2, pool_2a/2b/2c, nt_3).")
