"""C08 — async_scope join completes only after all nested work has finished (v2, v1, v0 scopes)."""
from ..atomic import AtomicPart
from ..runner import run_check

V2 = ["v2_race1", "v2_race2", "v2_late_nest", "v2_detached", "v2_two_joins"]
LIB = ["async_manual_reset_event_v1.cpp", "inplace_stop_token.cpp"]


def run(tier, seed, replay=None):
    parts = [AtomicPart("scopev2", "scn_c08.cpp", LIB, "scopev2", V2)]
    return run_check(
        "C08", tier, seed, ["UnifexModel.Props.C08"], parts,
        rule="every schedule (DFS, preemption-bounded, plus random/PCT walks) of the scenarios on the real v2/v1/v0 async_scope under the "
             "controlled scheduler; a case = one distinct observable history; non-trivial = admitted by the Lean model after at least one context switch",
        assumptions=["sequentially consistent atomics (memory orders ignored)"],
        trusted_extra=["harness/rt (cooperative scheduler, __tsan_* shim)", "Core/Admit.lean trace-inclusion test", "g++ 12 -fsanitize=thread instrumentation"],
        explanation="")
