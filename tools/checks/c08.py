"""C08 — async_scope join completes only after all nested work has finished (v2, v1, v0 scopes)."""
from ..atomic import AtomicPart
from ..runner import run_check

LIB = ["async_manual_reset_event_v1.cpp", "inplace_stop_token.cpp"]
V2 = ["v2_race1", "v2_race2", "v2_late_nest", "v2_detached", "v2_two_joins", "v2_wide"]
V1 = ["v1_complete", "v1_cleanup", "v1_stop_join", "v1_stop_spawn"]
V0 = ["v0_complete", "v0_cleanup", "v0_stop_join", "v0_spawn_race"]
PROPS = ["UnifexModel.Props.C08", "UnifexModel.Props.C08_v2", "UnifexModel.Props.C08_v2b",
         "UnifexModel.Props.C08_v1", "UnifexModel.Props.C08_v1b", "UnifexModel.Props.C08_v0"]


def run(tier, seed, replay=None):
    parts = [AtomicPart("scopev2", "scn_c08.cpp", LIB, "scopev2", V2),
             AtomicPart("scopev1", "scn_c08.cpp", LIB, "scopev1", V1),
             AtomicPart("scopev0", "scn_c08.cpp", LIB, "scopev0", V0)]
    return run_check(
        "C08", tier, seed, PROPS, parts,
        rule="every schedule (DFS with preemption bound, plus random and PCT walks) of 14 scenarios on the real v2/v1/v0 async_scope "
             "(nest / spawn_detached / v0 spawn of manually completed leaf senders racing join / complete / cleanup / request_stop) under the "
             "controlled scheduler; a case = one distinct observable history; non-trivial = admitted by the Lean model of the same name",
        assumptions=["sequentially consistent atomics (memory orders ignored)",
                     "v1/v0: each inplace_stop_source operation (register, deregister, take-next-callback) is atomic (that is property C03)",
                     "parametric theorems: client shape 'worker i: nest;start;complete' / 'joiner j: join' on own threads, any N, J; "
                     "instance theorems: the listed configurations (<= 2 operations, <= 2 closers), all schedules of unbounded length",
                     "scenarios v2_wide, v1_stop_join, v0_stop_join are tied to the model but have no reflection theorem (state space too large for the kernel budget)"],
        trusted_extra=["harness/rt (cooperative scheduler, __tsan_* shim)", "Core/Admit.lean trace-inclusion test", "g++ 12 -fsanitize=thread instrumentation"],
        explanation="Theorems: Props/C08 parametric (invariant induction over Proto/ScopeCounter: join_only_when_closed_and_zero, join_at_most_once, "
                    "admitted_before_close_counted, nest_after_close_never_started, join_fires_when_closed_and_zero, no_deadlock, join_done_no_late_touch, evt_setter_unique) "
                    "and per-instance *_safe (C08 clauses + no touch of the scope after its owner may destroy it) by kernel-evaluated closure "
                    "of the reachable set for v2/v1/v0 configurations. "
                    "Tie: trace inclusion of every explored real execution in the model + model-independent monitors in the harness.")
