"""C17 — bulk operations visit each index once before completing; find_if is exact.

Order of work (every run):
  1. TRANSLATOR  tools/cxx2lean_bulk.py regenerates Generated/FindIfChunks.lean + Generated/BulkLoop.lean from the
     C++ text of the tree under check (before the proof gate, so the theorems are checked against the new text).
  2. PROOF GATE  Props/C17.lean (runner.run_check).
  3. DIFFERENTIAL parts on the real headers (plain harness harness/c17/diff_c17.cpp, ASan+UBSan):
       bulk_schedule / bulk_transform+bulk_join / indexed_for index sequences and terminal signal,
       find_if (sequential + parallel) result and the exact sequence of predicate evaluations,
     each compared with the generated Lean via the driver (`ask bulk loop|findif | …`) and with monitors that do
     not depend on the model (std::find_if oracle, evaluations outside the range, prefix/duplicate checks).
  4. WITNESS     the driver enumerates d <= 5000 for distances whose chunks do not tile [0,d) / whose model evaluates
     the predicate outside the range (DESIGN §3.5; none on the fixed tree) and the distances of the former defect
     (DESIGN §8 #1, fixed by 64fd49b) are always replayed on the real find_if (recording iterator + guard-paged real memory).
  5. RT          bulk_schedule on the real static_thread_pool under the controlled scheduler (harness/rt/scn_c17.cpp).
"""
import os, random, re, subprocess, time
from .. import vlib, cxx2lean_bulk
from ..runner import run_check
from ..vlib import log

LIBS = ["inplace_stop_token.cpp", "manual_event_loop.cpp", "static_thread_pool.cpp", "async_stack.cpp", "exception.cpp"]
HARNESS = os.path.join(vlib.VERIF, "harness", "c17", "diff_c17.cpp")

# stable site strings.  Both defects they were introduced for are FIXED in /repo (5421458 sequential overload,
# 64fd49b parallel overload); the monitors stay, so a regression is reported as a plain VIOLATION under the same site.
SITE_OOB = "find_if/parallel: predicate evaluated outside the range"
SITE_SEQ_UAS = "find_if/sequential: predicate used after the find_if_helper temporary holding it was destroyed"
# distances of the former defect (32q+r, q >= 5, q+r < 31) and neighbours: always replayed with the recording iterator
# and over guard-paged real memory
REGRESSION_DISTANCES = [160, 161, 185, 186, 500, 959, 991]


def kv(line):
    return dict(m.split("=", 1) for m in line.split() if "=" in m)


class Harness:
    """line protocol to the plain harness; one process per batch so that a sanitizer abort is attributable"""

    def __init__(self, exe):
        self.exe = exe

    def batch(self, lines, timeout=600):
        env = dict(os.environ, ASAN_OPTIONS="detect_leaks=0:abort_on_error=0", UBSAN_OPTIONS="print_stacktrace=1")
        try:
            r = subprocess.run([self.exe], input="\n".join(lines) + "\n", capture_output=True, text=True, timeout=timeout, env=env)
        except subprocess.TimeoutExpired:
            return [], "timeout", -1
        out = [l for l in r.stdout.split("\n") if l != ""]
        return out, r.stderr, r.returncode


# ------------------------------------------------------------------------------------------------ translator part
class TranslatorPart:
    name = "translator"

    def __init__(self, result, error):
        self.result, self.error = result, error

    def run(self, tier, seed, verdict, cov, driver):
        t0 = time.time()
        if self.error is not None:
            verdict.add("translator: source outside the translated subset / skeleton (broken tie)", self.error,
                        dict(stream="translator", broken="tie between Generated/*.lean and the C++ text: " + self.error), found_input=False)
        else:
            cov["samples"].append(dict(stream="translator", regenerated_changed=self.result["changed"],
                                       holes={k: v for k, v in list(self.result["holes"]["FindIfChunks.lean"].items())[:6]}))
            cov["evaluations"] += sum(len(h) for h in self.result["holes"].values())
        cov["parts_wall_s"][self.name] = round(time.time() - t0, 1)


# ------------------------------------------------------------------------------------------------ differential part
class DiffPart:
    name = "diff"

    def run(self, tier, seed, verdict, cov, driver):
        t0 = time.time()
        try:
            exe = vlib.build_plain(HARNESS, LIBS, sanitize="address,undefined", name="diff_c17")
        except vlib.BuildError as e:
            verdict.add("diff:build", "harness does not build against the current tree: " + str(e)[-1500:], dict(stream="diff"), found_input=False)
            return
        rnd = random.Random(seed * 7919 + 17)
        thorough = tier == "thorough"
        self.bulk(Harness(exe), rnd, thorough, verdict, cov, driver)
        self.policies(Harness(exe), verdict, cov, driver)
        self.findif_par(Harness(exe), rnd, thorough, verdict, cov, driver)
        self.findif_seq(Harness(exe), rnd, thorough, verdict, cov, driver)
        self.witness(Harness(exe), thorough, verdict, cov, driver)
        cov["parts_wall_s"][self.name] = round(time.time() - t0, 1)

    # ---- bulk_schedule / bulk_transform / bulk_join / indexed_for
    def bulk(self, h, rnd, thorough, verdict, cov, driver):
        out, err, rc = h.batch(["const"])
        chunk = int(kv(out[0])["chunk"]) if out else 16
        mchunk = int(kv(driver.ask("ask bulk loop | const")).get("chunk", -1))
        if chunk != mchunk:
            verdict.add("bulk_schedule: chunk-size constant differs from the generated model", f"real {chunk} model {mchunk}",
                        dict(stream="diff", real=chunk, model=mchunk), found_input=True)
        C = chunk
        ns = sorted(set([0, 1, 2, 3, C - 1, C, C + 1, 2 * C - 1, 2 * C, 2 * C + 1, 3 * C, 3 * C + 5, 100, 1000, 4 * C * 16, 4097] +
                        [rnd.randrange(0, 6 * C) for _ in range(12)] + [rnd.randrange(0, 5000) for _ in range(40 if thorough else 6)]))
        pols = ["seq", "unseq", "par", "par_unseq"]
        reqs = []   # (harness line, model query, description)
        for n in ns:
            for pol in pols:
                u = 1 if pol in ("unseq", "par_unseq") else 0
                reqs.append((f"bulk {n} nostop {pol} 0", f"run {u} 0 -1 {n}"))
                stops = sorted(set([0, 1, 2, C - 1, C, C + 1, 2 * C, n - 1, n, n + 1, max(0, n - C), max(0, n - C + 1)] +
                                   [rnd.randrange(0, n + 2) for _ in range(6 if thorough else 2)]))
                stops = [s for s in stops if s >= 0]
                if pol in ("unseq", "par") and not thorough:
                    stops = stops[::3]
                for s in stops:
                    st = s if s <= n else -1
                    reqs.append((f"bulk {n} stop {pol} {s}", f"run {u} 1 {st} {n}"))
            for pol, s in (("seq", rnd.randrange(0, n + 2)), ("par_unseq", C), ("par", n + 1)):
                if n <= 1200:
                    u = 1 if pol in ("unseq", "par_unseq") else 0
                    reqs.append((f"bulkjoin {n} {pol} {s}", f"run {u} 1 {s if s <= n else -1} {n}"))
        out, err, rc = h.batch([r[0] for r in reqs])
        if len(out) != len(reqs):
            bad = reqs[len(out)][0] if len(out) < len(reqs) else "?"
            verdict.add("bulk_schedule: harness aborted (sanitizer / crash)", f"request `{bad}`: {err[-600:]}", dict(stream="diff", request=bad, stderr=err[-1500:]), found_input=True)
            return
        mism = 0
        for (req, q), real in zip(reqs, out):
            cov["evaluations"] += 1
            f = kv(real)
            n = int(req.split()[1])
            # monitors independent of the model
            idx = f.get("idx", "?")
            k = int(f.get("n", -1))
            prefix_ok = (idx == "-" and k == 0) or (idx == f"0-{k - 1}" and k >= 1)
            if f.get("after_terminal") != "0":
                verdict.add("bulk_schedule: set_next after the terminal signal", f"{req} -> {real}", dict(stream="diff", request=req, real=real))
            if f.get("overlap") != "0":
                verdict.add("bulk_schedule: overlapping set_next calls", f"{req} -> {real}", dict(stream="diff", request=req, real=real))
            if not prefix_ok or k > n:
                verdict.add("bulk_schedule: visited indices are not 0..k-1 each once in order", f"{req} -> {real}", dict(stream="diff", request=req, real=real))
            if f.get("term") == "value" and k != n:
                verdict.add("bulk_schedule: value completion with indices missing", f"{req} -> {real}", dict(stream="diff", request=req, real=real))
            if f.get("term") not in ("value", "done"):
                verdict.add("bulk_schedule: no / wrong terminal signal", f"{req} -> {real}", dict(stream="diff", request=req, real=real))
            if f.get("term") == "done" and ("nostop" in req or (req.startswith("bulk ") and int(req.split()[4]) > n)):
                verdict.add("bulk_schedule: set_done without a stop request", f"{req} -> {real}", dict(stream="diff", request=req, real=real))
            # the STATEMENT of Props/C17 bulk_visits_each_once_in_order / bulk_stop_cuts_at_chunk_boundary, evaluated directly
            qs = q.split()
            stoppable, st = qs[2] == "1", int(qs[3])
            if not stoppable or st < 0:
                want = ("value", n)
            else:
                b = (st + C - 1) // C * C
                want = ("done", b) if b < n else ("value", n)
            if (f.get("term"), k) != want:
                verdict.add("bulk_schedule: stop does not cut at the first chunk boundary at or after the stop point (or indices missing without stop)",
                            f"{req}: real `{real}`, the theorems say term={want[0]} after indices 0..{want[1] - 1}",
                            dict(stream="diff", request=req, real=real, theorem_says=dict(term=want[0], visited=want[1]), chunk=C))
            # the generated model
            model = driver.ask("ask bulk loop | " + q)
            cov["traces_validated_against_impl"] += 1
            m = kv(model)
            if (m.get("term"), m.get("n"), m.get("idx"), m.get("after_terminal")) != (f.get("term"), f.get("n"), f.get("idx"), f.get("after_terminal")):
                mism += 1
                if mism == 1:
                    verdict.add("bulk_schedule: real index sequence differs from the generated Lean model", f"{req}: real `{real}` model `{model}`",
                                dict(stream="diff", request=req, real=real, model=model, model_query=q,
                                     broken="translator correspondence Generated/BulkLoop.lean vs bulk_schedule.hpp"), found_input=True)
            elif " stop " in req or req.startswith("bulkjoin"):
                cov["distinct_nontrivial"] += 1
        if reqs:
            cov["samples"].append(dict(stream="diff/bulk", request=reqs[len(reqs) // 2][0], real=out[len(reqs) // 2]))
        # indexed_for
        ireqs = [f"ifor {p} {n}" for p in ("seq", "par") for n in (0, 1, 7, C, 1000)]
        out, err, rc = h.batch(ireqs)
        for req, real in zip(ireqs, out):
            cov["evaluations"] += 1
            n = int(req.split()[2])
            want = f"n={n} idx=" + ("-" if n == 0 else f"0-{n - 1}")
            if real != want:
                verdict.add("indexed_for: indices are not 0..n-1 each once in order", f"{req} -> {real}", dict(stream="diff", request=req, real=real))
        if len(out) != len(ireqs):
            verdict.add("indexed_for: harness aborted", err[-600:], dict(stream="diff", stderr=err[-1500:]))

    # ---- execution policies: what a policy-honouring bulk source sees below bulk_transform chains
    POL = {"seq": (False, False), "unseq": (False, True), "par": (True, False), "par_unseq": (True, True)}

    def policies(self, h, verdict, cov, driver):
        names = list(self.POL)
        inv = {v: k for k, v in self.POL.items()}
        recv_pol = dict(self.POL, join=self.POL["par_unseq"], default=self.POL["seq"])   # bulk_join.hpp / get_execution_policy.hpp
        reqs = [(r, [p1]) for r in list(self.POL) + ["join", "default"] for p1 in names]
        reqs += [(r, [p1, p2]) for r in ("join", "par") for p1 in names for p2 in names]
        lines = ["policy " + r + " " + " ".join(ps) for r, ps in reqs]
        out, err, rc = h.batch(lines)
        if len(out) != len(lines):
            bad = lines[len(out)] if len(out) < len(lines) else "?"
            verdict.add("bulk_transform: harness aborted (sanitizer / crash) in the policy probe", f"request `{bad}`: {err[-600:]}", dict(stream="diff", request=bad, stderr=err[-1500:]))
            return
        mism = 0
        for (r, ps), req, real in zip(reqs, lines, out):
            cov["evaluations"] += 1
            f = kv(real)
            # the STATEMENT of Props/C17 bulk_transform_policy_is_meet / chain_policy_is_meet, evaluated directly
            par, unseq = recv_pol[r]
            for pn in ps:
                par, unseq = par and self.POL[pn][0], unseq and self.POL[pn][1]
            want = inv[(par, unseq)]
            if f.get("seen") != want:
                verdict.add("bulk_transform: advertised execution policy is not the meet of the function's and the receiver's policy",
                            f"{req}: the source saw `{f.get('seen')}`, the meet is `{want}`  ({real})",
                            dict(stream="diff", request=req, real=real, receiver=r, function_policies=ps, seen=f.get("seen"), meet=want))
            for k, pn in enumerate(ps, 1):
                if int(f.get(f"overlap{k}", 0)) > 1 and not self.POL[pn][0]:
                    verdict.add("bulk_transform: function registered with a non-parallel policy invoked concurrently by a policy-honouring source",
                                f"{req}: function {k} (policy {pn}) ran on {f.get(f'overlap{k}')} threads at once ({real})",
                                dict(stream="diff", request=req, real=real, function=k, function_policy=pn))
            if f.get("term") != "value" or f.get("calls") != "4":
                verdict.add("bulk_transform: probe did not complete with value after 4 calls", f"{req} -> {real}", dict(stream="diff", request=req, real=real))
            model = driver.ask("ask bulk policy | chain " + r + " " + " ".join(ps))
            cov["traces_validated_against_impl"] += 1
            if kv(model).get("seen") != f.get("seen"):
                mism += 1
                if mism == 1:
                    verdict.add("bulk_transform: advertised policy differs from the generated Lean model", f"{req}: real `{real}` model `{model}`",
                                dict(stream="diff", request=req, real=real, model=model, broken="translator correspondence Generated/BulkPolicy.lean vs bulk_transform.hpp / bulk_join.hpp / get_execution_policy.hpp"))
            elif f.get("threads") == "2" or len(ps) == 2:
                cov["distinct_nontrivial"] += 1
        cov["samples"].append(dict(stream="diff/policy", request=lines[2], real=out[2]))

    # ---- find_if
    def distances(self, rnd, thorough):
        if thorough:
            return list(range(0, 1101)) + [rnd.randrange(1101, 5000) for _ in range(60)]
        base = set(range(0, 42)) | set(range(120, 200)) | {255, 256, 257, 350, 351, 500, 511, 512, 640, 958, 959, 960, 961, 990, 991, 992, 993, 1000, 1023, 1024, 2000, 4999}
        base |= {rnd.randrange(0, 1100) for _ in range(40)} | {rnd.randrange(1100, 5000) for _ in range(6)}
        return sorted(base)

    def hit_sets(self, d, rnd, thorough):
        sets = [[]]
        if d > 0:
            sets += [[0], [d - 1], sorted(rnd.sample(range(d), min(d, 3)))]
            if d > 8:
                a = rnd.randrange(d)
                sets.append(sorted({a, rnd.randrange(a, d), d - 1}))   # several matches, later ones after the first
            if thorough:
                sets += [sorted(rnd.sample(range(d), min(d, 5))), [d // 2], [rnd.randrange(d)]]
        return sets

    def findif_requests(self, pol, rnd, thorough):
        reqs = []
        for d in self.distances(rnd, thorough):
            fence = d + 40          # bounds a runaway `it != chunk_end` scan; never reached by correct code
            for k, hits in enumerate(self.hit_sets(d, rnd, thorough)):
                ctx = "loop"
                if k == 0 and d % 37 == 5:
                    ctx = "thread"
                if k == 1 and d % 41 == 7:
                    ctx = "pool"
                reqs.append((d, fence, hits, f"findif {pol} {ctx} {d} {fence} {len(hits)} " + " ".join(map(str, hits)),
                             f"{pol} {d} {fence} {len(hits)} " + " ".join(map(str, hits))))
        return reqs

    def compare_findif(self, tag, reqs, out, verdict, cov, driver):
        mism = 0
        oob_known, oob_other, wrong = [], [], []
        for (d, fence, hits, req, q), real in zip(reqs, out):
            cov["evaluations"] += 1
            f = kv(real)
            model = driver.ask("ask bulk findif | " + q)
            cov["traces_validated_against_impl"] += 1
            m = kv(model)
            if (m.get("res"), m.get("nevals"), m.get("evals")) != (f.get("res"), f.get("nevals"), f.get("evals")):
                mism += 1
                if mism == 1:
                    verdict.add(f"find_if/{tag}: real result / evaluation sequence differs from the generated Lean model", f"{req}: real `{real[:300]}` model `{model[:300]}`",
                                dict(stream="diff", request=req, real=real[:2000], model=model[:2000], model_query=q,
                                     broken="translator correspondence Generated/FindIfChunks.lean (+BulkLoop.lean) vs find_if.hpp"), found_input=True)
            elif hits:
                cov["distinct_nontrivial"] += 1
            # monitors independent of the model
            if int(f.get("oob", 0)) > 0:
                oob_other.append((d, req, real))
            elif f.get("res") != f.get("exp"):
                wrong.append((d, req, real))
        return oob_known, oob_other, wrong

    def findif_par(self, h, rnd, thorough, verdict, cov, driver):
        reqs = self.findif_requests("par", rnd, thorough)
        out, err, rc = h.batch([r[3] for r in reqs])
        if len(out) != len(reqs):
            bad = reqs[len(out)][3] if len(out) < len(reqs) else "?"
            verdict.add("find_if/parallel: harness aborted (sanitizer / crash)", f"request `{bad}`: {err[-600:]}", dict(stream="diff", request=bad, stderr=err[-1500:]), found_input=True)
            return
        oob_known, oob_other, wrong = self.compare_findif("parallel", reqs, out, verdict, cov, driver)
        if oob_other:
            d, req, real = oob_other[0]
            f = kv(real)
            verdict.add(SITE_OOB, f"distance {d}: predicate evaluated on offset {f.get('first_oob')} ({f.get('oob')} evaluations outside [0,{d})), returned {f.get('res')} expected {f.get('exp')}",
                        dict(stream="diff", distance=d, first_out_of_range_index=int(f.get("first_oob", -1)), request=req, real=real[:1500], distances=[x[0] for x in oob_other][:50]))
        if wrong:
            d, req, real = wrong[0]
            f = kv(real)
            verdict.add("find_if/parallel: result differs from std::find_if", f"distance {d}: returned {f.get('res')} expected {f.get('exp')} ({req})",
                        dict(stream="diff", distance=d, request=req, real=real[:1500], distances=[x[0] for x in wrong][:50]))
        cov["samples"].append(dict(stream="diff/find_if par", request=reqs[len(reqs) // 3][3], real=out[len(reqs) // 3][:300]))

    def findif_seq(self, h, rnd, thorough, verdict, cov, driver):
        reqs = [r for i, r in enumerate(self.findif_requests("seq", rnd, thorough)) if thorough or i % 3 == 0]
        out, err, rc = h.batch([r[3] for r in reqs])
        if "stack-use-after-scope" in err:
            # the defect fixed by 5421458: the lambda of the sequential overload captured `this` of a temporary find_if_helper
            bad = reqs[len(out)][3] if len(out) < len(reqs) else "?"
            frame = re.search(r"in (unifex::_find_if::\S+)", err)
            verdict.add(SITE_SEQ_UAS, "AddressSanitizer: stack-use-after-scope while the sequential find_if invokes the predicate",
                        dict(stream="diff", request=bad, asan=err[:1200], frame=frame.group(1) if frame else ""))
            return
        if len(out) != len(reqs):
            bad = reqs[len(out)][3] if len(out) < len(reqs) else "?"
            verdict.add("find_if/sequential: harness aborted (sanitizer / crash)", f"request `{bad}`: {err[-600:]}", dict(stream="diff", request=bad, stderr=err[-1500:]), found_input=True)
            return
        oob_known, oob_other, wrong = self.compare_findif("sequential", reqs, out, verdict, cov, driver)
        if oob_other:
            d, req, real = oob_other[0]
            verdict.add("find_if/sequential: predicate evaluated outside the range", f"{req} -> {real[:300]}", dict(stream="diff", distance=d, request=req, real=real[:1500]))
        if wrong:
            d, req, real = wrong[0]
            f = kv(real)
            verdict.add("find_if/sequential: result differs from std::find_if", f"distance {d}: returned {f.get('res')} expected {f.get('exp')} ({req})",
                        dict(stream="diff", distance=d, request=req, real=real[:1500]))

    # ---- DESIGN §3.5: search in the generated model, replay on the real code
    def witness(self, h, thorough, verdict, cov, driver):
        limit = 5000
        tf = driver.ask(f"ask bulk findif | tilefails {limit}")
        f = kv(tf)
        cov["samples"].append(dict(stream="witness", query=f"tilefails {limit}", answer=tf))
        if "count" not in f:
            verdict.add("witness: driver query failed", tf, dict(stream="witness", answer=tf), found_input=False)
            return
        targets = list(REGRESSION_DISTANCES)
        model_bad = set()
        if f.get("first", "none") != "none":        # contradicts Props/C17 chunks_tile_range: the proof gate is broken too
            targets.append(int(f["first"])); model_bad.add(int(f["first"]))
        oob = driver.ask(f"ask bulk findif | oobfail {limit if thorough else 1500}")
        if oob.startswith("d="):
            targets.append(int(kv(oob)["d"])); model_bad.add(int(kv(oob)["d"]))
        for d in sorted(set(targets)):
            fence = d + 40
            out, err, rc = h.batch([f"findif par loop {d} {fence} 0", f"guard {d}", f"findif par loop {d} {fence} 1 {d - 1}" if d else "const"])
            cov["evaluations"] += 3
            if len(out) < 3:
                verdict.add("witness: harness aborted on the replay", err[-600:], dict(stream="witness", distance=d, stderr=err[-1500:]))
                continue
            r, guard, r2 = kv(out[0]), out[1], kv(out[2]) if d else {}
            real_bad = int(r.get("oob", 0)) > 0 or "SEGV" in guard or "killed" in guard or r.get("res") != r.get("exp") or (d and r2.get("res") != r2.get("exp"))
            if d == REGRESSION_DISTANCES[0] or d in model_bad:
                cov["samples"].append(dict(stream="witness", distance=d, model_chunks=driver.ask(f"ask bulk findif | chunks {d}")[:400], real=out[0][:300], guard=guard))
            if real_bad:
                first_oob = int(r.get("first_oob", -1))
                verdict.add(SITE_OOB, f"distance {d}: the real parallel find_if evaluates the predicate on offset {first_oob} ({r.get('oob')} evaluations outside [0,{d})) and returns {r.get('res')} (expected {r.get('exp')}); over real memory: {guard}",
                            dict(stream="witness", distance=d, first_out_of_range_index=first_oob, evaluations_outside=int(r.get("oob", 0)), returned=r.get("res"), expected=r.get("exp"),
                                 guard_page=guard, model=tf, replay_cmd=f"printf 'findif par loop {d} {fence} 0\\nguard {d}\\n' | {h.exe}"))
            elif d in model_bad:
                verdict.add("witness: the generated model leaves the range but the real find_if does not", f"distance {d}: model {oob} / {tf}; real {out[0][:200]}; {guard}",
                            dict(stream="witness", distance=d, real=out[0][:1000], guard=guard, broken="correspondence of Generated/FindIfChunks.lean"), found_input=False)
        cov["traces_validated_against_impl"] += len(set(targets))


# ------------------------------------------------------------------------------------------------ rt part
class BulkRtPart:
    """bulk_schedule on the real static_thread_pool under the controlled scheduler; every distinct history
    (thread ids dropped) must be an execution of the generated loop model for SOME stop point."""
    name = "bulk_rt"
    # (scenario, n (None = chunk size + 2), quick DFS cap: the one-worker scenarios are exhausted below 1100 executions)
    # policy scenarios: (scenario, receiver, function policy); history "seen <policy> ; value"
    POLICY_SCENARIOS = [("policy_seq_over_join", "join", "seq"), ("policy_unseq_over_par_unseq", "par_unseq", "unseq"),
                        ("policy_par_over_join", "join", "par"), ("policy_par_over_seq", "seq", "par")]
    SCENARIOS = [("pool_bulk_stop", 3, 500), ("pool_bulk_one_worker", 8, 1100), ("pool_bulk_two_chunks", None, 500), ("pool_bulk_empty", 0, 1100), ("pool_composed", None, 500)]

    def run(self, tier, seed, verdict, cov, driver):
        t0 = time.time()
        try:
            exe = vlib.build_rt("scn_c17.cpp", ["static_thread_pool.cpp", "inplace_stop_token.cpp", "manual_event_loop.cpp", "async_stack.cpp", "exception.cpp"])
        except vlib.BuildError as e:
            verdict.add("bulk_rt:build", "harness does not build against the current tree: " + str(e)[-1500:], dict(stream=self.name), found_input=False)
            return
        chunk = int(kv(driver.ask("ask bulk loop | const")).get("chunk", 16))
        quick = tier == "quick"
        for scn, n, cap in self.SCENARIOS:
            if n is None:
                n = chunk + 2
            runs = [vlib.run_rt(exe, scn, "dfs", 2 if quick else 3, cap if quick else 8000, seed),
                    vlib.run_rt(exe, scn, "random", 0, 300 if quick else 2000, seed),
                    vlib.run_rt(exe, scn, "pct", 3, 300 if quick else 2000, seed + 7)]
            seen = {}
            for r in runs:
                st = r["stats"]
                cov["evaluations"] += st.get("executions", 0)
                cov["with_preemption"] += st.get("with_preemption", 0)
                for sched, why, hh in r["fails"]:
                    verdict.add(f"{self.name}/{scn}: {why.split(' && ')[0][:120]}", why,
                                dict(stream=self.name, scenario=scn, schedule=sched, history=hh.split(" ; "), replay_cmd=f"{exe} --scenario {scn} --replay {sched}"))
                for cnt, sched, hh in r["hist"]:
                    seen.setdefault(hh, sched)
            cov["exhaustive_dfs"][f"{self.name}/{scn}"] = bool(runs[0]["stats"].get("exhausted", 0))
            cov["distinct_histories"][f"{self.name}/{scn}"] = len(seen)
            rejected = []
            for hh, sched in seen.items():
                evs = [re.sub(r"^T\d+ ", "", e) for e in hh.split(" ; ") if e]
                idx = [e.split()[1] for e in evs if e.startswith("next ")]
                term = [e for e in evs if not e.startswith("next ")]
                q = f"admits {n} {term[-1] if term else 'none'} " + " ".join(idx)
                ans = driver.ask("ask bulk loop | " + q)
                cov["traces_validated_against_impl"] += 1
                if ans.startswith("ok") and len(term) == 1 and evs[-1] == term[0]:
                    cov["distinct_nontrivial"] += 1
                else:
                    rejected.append((hh, sched, ans))
            if seen and len(cov["samples"]) < 14:
                h0 = sorted(seen.items(), key=lambda x: -len(x[0]))[0]
                cov["samples"].append(dict(stream=self.name, scenario=scn, schedule=h0[1], history=h0[0][:400]))
            if rejected and not any(v[0].startswith(f"{self.name}/{scn}:") for v in verdict.violations):
                hh, sched, ans = rejected[0]
                cov["rejected_histories"] += len(rejected)
                verdict.add(f"{self.name}/{scn}: history is not an execution of the generated bulk loop model", f"{len(rejected)} of {len(seen)} distinct histories rejected ({ans[:300]})",
                            dict(stream=self.name, scenario=scn, schedule=sched, history=hh.split(" ; "), model_answer=ans,
                                 broken="correspondence harness/rt/scn_c17.cpp vs Proto/Bulk.lean (Generated/BulkLoop.lean)", replay_cmd=f"{exe} --scenario {scn} --replay {sched}"), found_input=False)
        for scn, recv, fpol in self.POLICY_SCENARIOS:
            runs = [vlib.run_rt(exe, scn, "dfs", 2 if quick else 3, 600 if quick else 8000, seed),
                    vlib.run_rt(exe, scn, "random", 0, 100 if quick else 1000, seed)]
            seen = {}
            for r in runs:
                st = r["stats"]
                cov["evaluations"] += st.get("executions", 0)
                cov["with_preemption"] += st.get("with_preemption", 0)
                for sched, why, hh in r["fails"]:
                    verdict.add(f"{self.name}/{scn}: {why.split(' && ')[0][:120]}", why,
                                dict(stream=self.name, scenario=scn, schedule=sched, history=hh.split(" ; "), replay_cmd=f"{exe} --scenario {scn} --replay {sched}"))
                for cnt, sched, hh in r["hist"]:
                    seen.setdefault(hh, sched)
            cov["exhaustive_dfs"][f"{self.name}/{scn}"] = bool(runs[0]["stats"].get("exhausted", 0))
            cov["distinct_histories"][f"{self.name}/{scn}"] = len(seen)
            model = driver.ask(f"ask bulk policy | chain {recv} {fpol}")
            want = [f"seen {kv(model).get('seen')}", "value"]
            for hh, sched in seen.items():
                evs = [re.sub(r"^T\d+ ", "", e) for e in hh.split(" ; ") if e]
                cov["traces_validated_against_impl"] += 1
                if evs == want:
                    cov["distinct_nontrivial"] += 1
                elif not any(v[0].startswith(f"{self.name}/{scn}: history") for v in verdict.violations):
                    cov["rejected_histories"] += 1
                    verdict.add(f"{self.name}/{scn}: history is not admitted by the generated policy model", f"history `{hh}`, the model ({model}) admits `{' ; '.join(want)}`",
                                dict(stream=self.name, scenario=scn, schedule=sched, history=hh.split(" ; "), model_answer=model,
                                     broken="correspondence harness/rt/scn_c17.cpp vs Generated/BulkPolicy.lean", replay_cmd=f"{exe} --scenario {scn} --replay {sched}"))
        cov["parts_wall_s"][self.name] = round(time.time() - t0, 1)


# ------------------------------------------------------------------------------------------------ proof part
class ProofPart:
    """The runner does not report a broken proof gate when some part reported a failing input — also when that input is
    a known finding.  This part makes sure a broken proof of Props/C17 against the regenerated text is always reported
    under its own site (the concrete failing inputs, if any, come from the monitors of the other parts, which include
    the theorem statements evaluated directly on the real code, and from the d <= 5000 search of the witness step)."""
    name = "proof"

    def run(self, tier, seed, verdict, cov, driver):
        t0 = time.time()
        ok, out, _ = vlib.lake_build(["UnifexModel.Props.C17"])
        if not ok:
            errs = [l for l in out.split("\n") if "error" in l][:8]
            others = sorted({v[0] for v in verdict.violations if v[3]})
            verdict.add("proof: Props/C17 does not check against the definitions regenerated from the C++ text",
                        " / ".join(errs)[:1200] + (f"  (concrete failing inputs reported under: {others[:3]})" if others else ""),
                        dict(stream="proof", broken_theorems=errs, checker_cmd="cd lean && lake build UnifexModel.Props.C17", failing_inputs_reported_under=others), found_input=bool(others))
        cov["parts_wall_s"][self.name] = round(time.time() - t0, 1)


# ------------------------------------------------------------------------------------------------ entry point
def do_replay(path):
    """./check C17 --replay FILE: re-run the failing input of a replay file on the real code (and the model)."""
    import json
    p = json.load(open(path))
    print(f"replaying {p.get('site')}")
    if "schedule" in p and "scenario" in p:
        exe = vlib.build_rt("scn_c17.cpp", ["static_thread_pool.cpp", "inplace_stop_token.cpp", "manual_event_loop.cpp", "async_stack.cpp", "exception.cpp"])
        r = vlib.run_rt(exe, p["scenario"], replay=p["schedule"])
        for sched, why, hh in r["fails"]:
            print("FAIL", why, "|", hh)
        for cnt, sched, hh in r["hist"]:
            print("HISTORY", hh)
        return 1 if r["fails"] else 0
    exe = vlib.build_plain(HARNESS, LIBS, sanitize="address,undefined", name="diff_c17")
    reqs = []
    if "distance" in p and "request" not in p:
        d = int(p["distance"])
        reqs = [f"findif par loop {d} {d + 40} 0", f"guard {d}"]
    elif "request" in p:
        reqs = [p["request"]]
    out, err, rc = Harness(exe).batch(reqs)
    for q, o in zip(reqs, out):
        print(f"{q}  ->  {o}")
    if len(out) < len(reqs):
        print("harness aborted:", err[-1500:])
        return 1
    bad = any(int(kv(o).get("oob", 0)) > 0 or "SEGV" in o or (("res" in kv(o)) and kv(o).get("res") != kv(o).get("exp")) or kv(o).get("after_terminal", "0") != "0" for o in out)
    if "model_query" in p:
        drv = vlib.Driver()
        print("model:", drv.ask("ask bulk " + ("findif" if p["request"].startswith("findif") else "loop") + " | " + p["model_query"]))
        drv.close()
    return 1 if bad else 0


def run(tier, seed, replay=None):
    if replay:
        return do_replay(replay)
    # 1. translator, BEFORE the proof gate
    result, error = None, None
    try:
        result = cxx2lean_bulk.translate(vlib.REPO, vlib.LEAN)
        if result["changed"]:
            log("C17 translator: regenerated text changed: " + ", ".join(result["changed"]))
    except cxx2lean_bulk.TranslateError as e:
        error = str(e)
        log("C17 translator error: " + error)
    except OSError as e:
        error = f"cannot read the anchored sources: {e}"
    parts = [TranslatorPart(result, error), DiffPart(), BulkRtPart(), ProofPart()]
    return run_check(
        "C17", tier, seed, ["UnifexModel.Props.C17"], parts,
        rule="a case = one request to the real code (bulk_schedule/bulk_transform/bulk_join/indexed_for with a count, policy and stop point; find_if with a distance, policy, "
             "context and set of matching positions) whose observed index sequence + terminal signal / result + exact predicate-evaluation sequence is compared with the "
             "Lean definitions regenerated from the C++ text; plus every distinct history of 5 bulk scenarios on the real static_thread_pool under the controlled scheduler. "
             "non-trivial = with a stop point or a match, agreeing with the model",
        assumptions=["bulk count type modelled as Nat without wrap-around (count + chunk size representable); negative signed counts not modelled",
                     "find_if distances are non-negative; iterators are identified with offsets from begin (random access, as the code itself assumes for par)",
                     "execution policies: the library's only bulk source (bulk_schedule) is sequential, so 'never concurrently beyond what the policy permits' is checked as: the policy ADVERTISED to the source is the meet (theorem + real decltype over all pairs) and a policy-honouring probe source never overlaps a non-parallel function",
                     "statement structure of set_value / find_if_helper outside the arithmetic holes is pinned literally by the translator skeleton (any other edit = broken tie)",
                     "bulk_schedule has no scheduler-specific customisation in the tree (default sender only): index loop runs on one worker; sequentially consistent atomics in the rt runs",
                     "bulk_schedule launches the chunk lambdas in index order on one thread (true for the only bulk_schedule implementation in the tree): find-first relies on it, as the code's own comment says"],
        trusted_extra=["tools/cxx2lean_bulk.py skeleton matcher + expression printer (validated per run by the differential part)", "harness/c17/diff_c17.cpp recording iterator / receivers",
                       "harness/rt (cooperative scheduler)", "g++ 12 -fsanitize=address,undefined"],
        explanation="Theorems (Props/C17, all n / all distances / all predicates / all 16 policy pairs and chains of any length): bulk_transform_policy_is_meet, chain_policy_is_meet, bulk_visits_each_once_in_order, bulk_stop_cuts_at_chunk_boundary, no_next_after_terminal, chunks_tile_range, "
                    "find_if_returns_first, find_if_seq_returns_first (+ history section about the hand-transcribed pre-fix arithmetic). Tie: translator (regenerated every run) + differential runs + regression replay of the former defect distances (recording iterator, guard page).")
