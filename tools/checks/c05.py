"""C05 — algorithm results equal the documented function of their children's results."""
from ..evt import EventPart
from ..runner import run_check
from ..loops import LoopPart


def run(tier, seed, replay=None):
    parts = [EventPart("evt", report_crashes=False), LoopPart()]
    return run_check(
        "C05", tier, seed, ["UnifexModel.Props.C05", "UnifexModel.Props.C05_loops"], parts,
        rule="type-directed random sender expressions (size<=12 quick / <=25 thorough, 27 node kinds) with scripted leaves (inline value/error/done, "
             "pending with/without reaction to stop), scripted throwing callables, and external event scripts (start, stop at a random position, "
             "leaf completions in random order); each is run on the REAL library (children erased with any_sender_of<int>, ASan+UBSan build) and on the "
             "Lean calculus; a case counts as distinct non-trivial when it has at least one pending leaf or stop notification and its canonical trace is new",
        assumptions=["external events are serialised (single thread); concurrent completions are covered by the atomic-level models of when_all/stop_when (C01)",
                     "user callables are total deterministic scripts (add / throw / throw-if-equal)",
                     "algorithm set: just just_error just_done then upon_error upon_done let_value let_error let_done sequence finally when_all(2) when_any(2) stop_when "
                     "materialize+dematerialize done_as_optional unstoppable with_query_value let_value_with_stop_source any_sender_of into_variant defer allocate just_from just_void_or_done; others are outside the theorems"],
        trusted_extra=["harness/evt/evt.cpp (builds the real sender tree, canonicalises observations)", "tools/evt.py generator and diff", "g++ 12, ASan/UBSan"],
        explanation="Looping algorithms outside the calculus (repeat_effect_until, retry_when): Props/C05_loops for every script (repeat_skips_undecided, repeat_predicate_throw_becomes_error, retry_skips_retried_attempts, retry_reconnect_throw_becomes_error, ...), tied by scripted runs of the real algorithms (loopprobe.cpp). Theorems (Props/C05): start_refines_evalI — for every expression whose leaves complete inline, start() completes with exactly the denotational "
                    "spec evalI (Calc/Spec.lean), for all environments and callables; per-algorithm laws for deferred completion (unary_signals_map, "
                    "successor_not_started_while_first_runs, short_circuit, finally_rules, when_all_result_rules, when_all_first_failure_wins, stop_when_source_result, "
                    "then/upon_* channel laws, throw_becomes_set_error). Tie: full-trace equality of the real library and Calc.deliver on generated cases; a differing ROOT OUTCOME "
                    "is reported as a concrete failing input, a differing trace with equal outcome as a broken correspondence.")
