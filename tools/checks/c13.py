"""C13 — streams deliver the adapted sequence in order and clean up exactly once."""
from ..stream import StreamPart
from ..runner import run_check


def run(tier, seed, replay=None):
    parts = [StreamPart("stream")]
    return run_check(
        "C13", tier, seed, ["UnifexModel.Props.C13"], parts,
        rule="random stream pipelines (size<=7 quick / <=12 thorough; sources range_stream, single, never_stream and scripted manual sources whose "
             "next()/cleanup() complete inline or at external events with value/error/done and react or not to stop; adaptors transform_stream, "
             "next_adapt_stream, filter_stream, stop_immediately, type_erase, cleanup_adapt_stream, adapt_stream, take_until with an arbitrary trigger "
             "stream, plus two fused shapes) under reduce_stream, for_each or a manual next/cleanup driver, with event scripts (start, stop at a random "
             "position, completions in random order, always drained to the end); each is run on the REAL library (ASan+UBSan build, tracked next/cleanup "
             "operation objects) and on the Lean stream calculus; a case counts as distinct non-trivial when it has a stop notification or more than "
             "one event and its canonical trace is new",
        assumptions=["external events are serialised (single thread); the take_until / stop_immediately atomics are exercised only in the orders a single thread produces",
                     "user callables (transform function, filter predicate, reducer) are total deterministic scripts (add / throw / throw-if-equal; even / != c / < c / throw-if-equal)",
                     "via_stream / typed_via_stream / on_stream / delay (scheduler hops) are outside the model and the theorems",
                     "between two adaptors the harness inserts its own transparent stream eraser (virtual dispatch, same stop token); it is not represented in the model"],
        trusted_extra=["harness/evt/stream.cpp (builds the real pipeline, manual sources, canonicalises observations, monitors)", "tools/stream.py generator and diff",
                       "g++ 12, ASan/UBSan (vptr check off: double destruction is reported by the tracked-object monitors)"],
        explanation="Theorems (Props/C13) are over Stream.deliver / Stream.rootStep, the event-level stream calculus (Calc/Stream.lean): see the theorem list. "
                    "Tie: full-trace equality of the real library and the calculus on generated cases; independent monitors in the harness check cleanup-once, "
                    "cleanup-after-outstanding-next, result-after-cleanup and the lifetime of every tracked next/cleanup operation object.")
