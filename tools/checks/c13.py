"""C13 — streams deliver the adapted sequence in order and clean up exactly once."""
from ..stream import StreamPart
from ..runner import run_check


from .c13_probe import StreamProbePart


def run(tier, seed, replay=None):
    parts = [StreamPart("stream"), StreamProbePart()]
    return run_check(
        "C13", tier, seed, ["UnifexModel.Props.C13"], parts,
        rule="random stream pipelines (size<=7 quick / <=12 thorough; sources range_stream, single, never_stream and scripted manual sources whose "
             "next()/cleanup() complete inline or at external events with value/error/done and react or not to stop; adaptors transform_stream, "
             "next_adapt_stream, filter_stream, stop_immediately, type_erase, cleanup_adapt_stream, adapt_stream, take_until with an arbitrary trigger "
             "stream, plus two fused shapes) under reduce_stream, for_each or a manual next/cleanup driver, with event scripts (start, stop at a random "
             "position, completions in random order, always drained to the end); each is run on the REAL library (ASan+UBSan build, tracked next/cleanup "
             "operation objects) and on the Lean stream calculus; a case counts as distinct non-trivial when it has a stop notification or more than "
             "one event and its canonical trace is new",
        assumptions=["external events are serialised (single thread); the take_until / stop_immediately atomics are exercised only in the orders a single thread produces",
                     "user callables (transform function, filter predicate, reducer) are total deterministic scripts (add / throw / throw-if-equal; even / != c / < c / throw-if-equal)",
                     "via_stream / typed_via_stream / on_stream (scheduler hops) are outside the model and the theorems; they are exercised by a model-independent probe (harness/evt/streamprobe.cpp: tracked source under on_stream/via_stream, for_each/reduce_stream, a stop at every position; oracle = the property sentence — a test, not a theorem); delay is not exercised",
                     "between two adaptors the harness inserts its own transparent stream eraser (virtual dispatch, same stop token); it is not represented in the model"],
        trusted_extra=["harness/evt/stream.cpp (builds the real pipeline, manual sources, canonicalises observations, monitors)", "tools/stream.py generator and diff",
                       "g++ 12, ASan/UBSan (vptr check off: double destruction is reported by the tracked-object monitors)"],
        explanation="Theorems (Props/C13) over the event-level stream calculus Calc/Stream.lean. Part A, every stream expression whose sources complete inline "
                    "(all lengths, values, scripted functions, error positions, stop before start or not): inline_run / elements_eq_spec (the consumer receives exactly "
                    "SExpr.den — range = [lo,hi), transform = map, filter = List.filter, stop_immediately, take_until, type_erase …), fold_eq_spec (reduce_stream's result is "
                    "the fold, or the stream's / cleanup's error), reducer_throw_spec, den_stop_prefix / stop_before_start_prefix_inline (inline special case: stop before start only "
                    "shortens the sequence). Part B, EVERY expression, script, consumer and sequence of legal external events: "
                    "cleanup_at_most_once, cleanup_after_outstanding_next, result_after_cleanup / cleanup_once_iff_next_started (from the protocol contract deliver_ok and "
                    "the root invariant RInv), stop_ends_early_no_dup_no_invent (stop / take_until trigger at ANY position: delivered elements are a prefix of SExpr.free, the sequence "
                    "without stop; every expression incl. take_until; from deliver_all = protocol + value + fuel contracts), stop_immediately_abandons_then_awaits. Part C: take_until_receivers_destruct_their_own_op, "
                    "take_until_cleanup_ops_balanced(_pending) — sourceOp_ / triggerOp_ each constructed once and destructed once (regression of DESIGN §8 #6). "
                    "Tie: full-trace equality of the real library and the calculus on generated cases (stop at a random position of every script); independent "
                    "monitors in the harness check cleanup-once, cleanup-after-outstanding-next, result-after-cleanup and the lifetime of every tracked next/cleanup "
                    "operation object (construction/destruction by address, running flag).")
