"""runner — the common verdict logic of every check (DESIGN §1.1)."""
import json, os, sys, time
from . import vlib
from .vlib import log


def new_cov():
    return dict(evaluations=0, distinct_nontrivial=0, with_preemption=0, traces_validated_against_impl=0,
                rejected_histories=0, samples=[], distinct_histories={}, exhaustive_dfs={}, parts_wall_s={})


def run_check(prop, tier, seed, prop_modules, parts, rule, assumptions, trusted_extra=(), explanation="", replay=None):
    """prop_modules: Lean modules holding the property theorems; parts: objects with
    .run(tier, seed, verdict, cov, driver)."""
    t0 = time.time()
    verdict = vlib.Verdict(prop)
    cov = new_cov()
    gate = vlib.proof_gate(prop_modules, leanchecker=(tier == "thorough"))
    driver = None
    try:
        driver = vlib.Driver()
    except vlib.BuildError as e:
        gate["ok"] = False
        gate["failures"].append("umdriver does not build: " + str(e)[-500:])
    if driver is not None:
        for part in parts:
            try:
                part.run(tier, seed, verdict, cov, driver)
            except Exception as e:  # a crashing part must not look like success
                verdict.add(f"{getattr(part, 'name', part)}:crash", f"check part crashed: {e!r}", dict(stream=str(getattr(part, 'name', part))), found_input=False)
        driver.close()
    if not gate["ok"]:
        # a proof obligation no longer checks: a concrete failing input may already have been found by a part
        # (a failing input that is a KNOWN finding does not explain a broken proof)
        found = any(v[3] and not verdict.is_known(v[0]) for v in verdict.violations)
        if not found:
            verdict.add("proof-gate", "; ".join(gate["failures"])[:1500], dict(broken_theorems=gate["failures"], checker_cmd=gate["cmd"]), found_input=False)
        else:
            log("proof gate failed as well: " + "; ".join(gate["failures"])[:800])
    nviol = verdict.finish()
    coverage = dict(
        obligations=gate["obligations"], discharged=gate["discharged"], checker_cmd=gate["cmd"],
        trusted_base=["Lean 4.33 kernel", "axioms used: " + (", ".join(gate["axioms"]) or "none")] + list(trusted_extra),
        theorems=gate["theorems"], rule=rule, explanation=explanation, proof_gate_wall_s=round(gate["wall"], 1), **cov)
    if coverage["distinct_nontrivial"] < 2 and coverage["evaluations"] >= 1:
        coverage["rule"] += " (few distinct cases this run)"
    vlib.write_evidence(prop, tier, seed, coverage, assumptions, time.time() - t0, nviol)
    return 1 if nviol else 0
