"""coro — coroutine correspondence part (property C10): generated coroutine PROGRAMS are run by the
interpreter coroutine of harness/evt/coro.cpp on the REAL unifex::task<> (C++20, ASan+UBSan) and by the
Lean machine Calc/Coro.lean (umdriver `ask coro run`); the per-event observations (in emission order)
must be equal token for token.  An independent trace monitor (no Lean involved) checks the cleanup /
frame-lifetime discipline directly on the implementation's trace."""
import os, random, re, subprocess, time
from . import vlib
from .evt import run_lines, crash_site

LIB = ["inplace_stop_token.cpp", "task.cpp", "async_stack.cpp"]


class Gen:
    """programs of nesting depth <= max_depth, <= max_awaits leaf awaits (body + cleanup leaves),
    0..3 cleanups per frame, every exit path (fall off the end, co_return, throw, leaf error, leaf
    done, stop_if_requested by both routes), try/catch around awaits, co_await schedule(k) rescheduling,
    plain awaitables (ready / not suspending / suspending; bool, handle and void await_suspend)"""

    def __init__(self, rng, max_depth=4, max_awaits=6):
        self.r, self.max_depth, self.max_awaits = rng, max_depth, max_awaits

    def prog(self, depth):
        r = self.r
        stmts = []
        ncl = 0
        want_cl = r.choice([0, 0, 1, 1, 2, 3])
        n = r.randint(0, 4) if depth else r.randint(1, 5)
        for _ in range(n):
            k = r.random()
            if k < 0.34 and self.nleaf < self.max_awaits:
                self.nleaf += 1
                self.body.append(self.nleaf)
                stmts.append(f"({'taw' if r.random() < 0.3 else 'aw'} {self.nleaf})")
            elif k < 0.40 and self.nleaf < self.max_awaits:
                self.nleaf += 1
                self.plain.append(self.nleaf)
                stmts.append(f"({'tpw' if r.random() < 0.3 else 'pw'} {self.nleaf})")
            elif k < 0.56 and depth < self.max_depth and self.ntask < 5:
                self.ntask += 1
                kind = 'ttask' if r.random() < 0.3 else 'task'
                stmts.append(f"({kind} {self.prog(depth + 1)})")
            elif k < 0.84 and ncl < want_cl:
                ncl += 1
                self.ncl += 1
                leaf = 0
                if r.random() < 0.3 and self.nleaf < self.max_awaits:
                    self.nleaf += 1
                    leaf = self.nleaf
                    self.cleanup.append(leaf)
                stmts.append(f"(ax {self.ncl} {leaf})")
            elif k < 0.90:
                stmts.append("(sirs)" if r.random() < 0.5 else "(sir)")
            elif k < 0.935:
                stmts.append(f"(rs {r.randint(1, 3)})")
            elif k < 0.965:
                stmts.append(f"(ret {r.randint(0, 9)})")
            else:
                stmts.append(f"(thr {r.randint(1, 9)})")
        k = r.random()
        if k < 0.25:
            stmts.append(f"(ret {r.randint(0, 9)})")
        elif k < 0.37:
            stmts.append(f"(thr {r.randint(1, 9)})")
        return "(" + " ".join(stmts) + ")"

    def outcome(self, pv=0.6, pe=0.2):
        k = self.r.random()
        if k < pv:
            return f"v{self.r.randint(0, 9)}"
        if k < pv + pe:
            return f"e{self.r.randint(1, 9)}"
        return "d"

    def program(self):
        self.nleaf = self.ntask = self.ncl = 0
        self.body, self.cleanup, self.plain = [], [], []
        p = self.prog(0)
        r = self.r
        specs = []
        for i in self.body:
            a = "a" if r.random() < 0.5 else ""
            k = r.random()
            if k < 0.3:
                specs.append(f"{i}=i{a}:{self.outcome()}")
            elif k < 0.62:
                specs.append(f"{i}=p{a}:ign")
            else:
                specs.append(f"{i}=p{a}:{self.outcome(0.25, 0.2)}")
        for i in self.cleanup:
            specs.append(f"{i}=i:v{r.randint(0, 9)}" if r.random() < 0.4 else f"{i}=p:ign")
        for i in self.plain:
            # plain awaitables: ready / bool await_suspend false / handle = self (inline) ; bool true / noop handle / void (suspend)
            if r.random() < 0.55:
                o = f"v{r.randint(0, 9)}" if r.random() < 0.8 else f"e{r.randint(1, 9)}"
                specs.append(f"{i}={r.choice(['r', 'b0', 'b0', 'h0'])}:{o}")
            else:
                specs.append(f"{i}={r.choice(['b1', 'h1', 'vd'])}:ign")
        return p, " ".join(specs)

    def script(self, mode):
        """start + generic steps: complete the pending leaf / run the scheduler"""
        r = self.r
        n = self.nleaf + r.randint(0, 3)
        evs = ["start"]
        for _ in range(n):
            if mode.startswith("man") and r.random() < 0.45:
                evs.append("run")
            else:
                evs.append("c?:" + self.outcome(0.7, 0.15))
        return evs

    def cases(self, cid):
        """one program, one base script, and the script with a stop request inserted at EVERY position
        (before start, after start, after each step)"""
        p, specs = self.program()
        mode = "man" if self.r.random() < 0.55 else "inl"
        k = self.r.random()
        if k < 0.12:
            mode += ":u"      # receiver without a stop token
        elif k < 0.24:
            mode += ":w"      # receiver with a foreign stop-token type
        base = self.script(mode)
        out = []
        variants = [base] + [base[:k] + ["stop"] + base[k:] for k in range(len(base) + 1)]
        if self.r.random() < 0.03:
            variants.append([])            # never started
            variants.append(["stop"])
        for n, evs in enumerate(variants):
            out.append(f"{cid}.{n} | {mode} | {p} | {specs} | {' '.join(evs)}")
        return out


# ---------------------------------------------------------------- independent trace monitor
def monitor(obs):
    """cleanup / lifetime discipline on ONE observation line of the implementation; returns the name of the
    first violated rule or None.  Uses only the trace (no model)."""
    toks = []
    for part in obs.split(" | ")[1:]:
        for t in part.split(","):
            t = t.strip()
            if t and t != "-":
                toks.append(t)
    stack, cancelled = [], set()
    reg, ran, started, dead, ld = {}, {}, set(), {}, set()
    roots = 0
    for t in toks:
        if t.startswith("!!"):
            continue
        m = re.match(r"(fs|ld|fd)(\d+)$", t)
        m2 = re.match(r"(rg|cl)(\d+):(\d+)$", t)
        if m:
            k, f = m.group(1), int(m.group(2))
            if k == "fs":
                if f in started:
                    return "frame-started-twice"
                started.add(f); stack.append(f); reg[f] = []; ran[f] = []
            elif k == "ld":
                if f in ld or f not in started:
                    return "locals-destroyed-twice-or-never-constructed"
                ld.add(f)
                if f not in cancelled:
                    if not stack or stack[-1] != f:
                        return "locals-destroyed-while-a-child-is-running"
                    if ran[f]:
                        return "cleanup-ran-before-locals-destroyed"
            else:
                dead[f] = dead.get(f, 0) + 1
                if dead[f] > 1:
                    return "frame-destroyed-twice"
                if f in started:
                    if f not in ld:
                        return "frame-destroyed-with-live-locals"
                    if ran[f] != reg[f][::-1]:
                        return "frame-destroyed-before-its-cleanups-ran"
                    if f not in cancelled:
                        if not stack or stack[-1] != f:
                            return "frame-destroyed-while-a-child-is-running"
                        stack.pop()
        elif m2:
            k, f, a = m2.group(1), int(m2.group(2)), int(m2.group(3))
            if f not in started or f in cancelled and k == "rg":
                return "activity-of-a-dead-or-cancelled-frame"
            if k == "rg":
                if not stack or stack[-1] != f or ran[f]:
                    return "registration-by-a-frame-that-is-not-running"
                reg[f].append(a)
            else:
                # frames above f on the stack must be cancelled frames whose cleanups are complete
                while stack and stack[-1] != f:
                    g = stack[-1]
                    if ran[g] != reg[g][::-1] or g in ld:
                        return "parent-cleanup-before-child-finished"
                    cancelled.add(g); stack.pop()
                if not stack:
                    return "cleanup-of-unknown-frame"
                want = reg[f][::-1]
                if len(ran[f]) >= len(want):
                    return "cleanup-ran-twice"
                if want[len(ran[f])] != a:
                    return "cleanup-order-not-reverse-registration"
                ran[f].append(a)
        elif t.startswith("R="):
            roots += 1
            if roots > 1:
                return "root-completed-twice"
            if t == "R=d":
                for g in stack:
                    if ran[g] != reg[g][::-1]:
                        return "done-delivered-before-all-cleanups-ran"
                    cancelled.add(g)
                stack = []
            else:
                if stack:
                    return "result-delivered-while-frames-are-live"
    for f in started:
        if dead.get(f, 0) != 1:
            return "frame-never-destroyed"
        if ran[f] != reg[f][::-1]:
            return "cleanup-never-ran"
    return None


PROP_TOKENS = ("cl", "fd", "ld", "R=", "rg", "fs")


def prop_view(obs):
    out = []
    for part in obs.split(" | ")[1:]:
        out.append([t for t in part.split(",") if t.startswith(PROP_TOKENS)])
    return out


class CoroPart:
    def __init__(self, name="coro", n_quick=1500, n_thorough=25000):
        self.name, self.n_quick, self.n_thorough = name, n_quick, n_thorough

    def run(self, tier, seed, verdict, cov, driver):
        t0 = time.time()
        src = os.path.join(vlib.VERIF, "harness", "evt", "coro.cpp")
        try:
            exe = vlib.build_plain(src, LIB, (), "gnu++20", sanitize="address,undefined", name="coro")
        except vlib.BuildError as e:
            verdict.add(f"{self.name}:build", "coroutine harness does not build against the current tree: " + str(e)[-1500:],
                        dict(stream=self.name), found_input=False)
            return
        # second configuration: WITHOUT NDEBUG — async stacks on (await_transform wraps plain awaitables in
        # awaitable_wrapper + coro_resumer, _awaiter pushes stack frames) and UNIFEX_ASSERTs active
        try:
            exe_dbg = vlib.build_plain(src, LIB, ("-UNDEBUG",), "gnu++20", sanitize="address,undefined", name="coro")
        except vlib.BuildError as e:
            verdict.add(f"{self.name}:build[async-stacks]", "coroutine harness does not build without NDEBUG: " + str(e)[-1500:],
                        dict(stream=self.name), found_input=False)
            return
        n = self.n_quick if tier == "quick" else self.n_thorough
        rng = random.Random(seed * 104729 + 17)
        g = Gen(rng)
        corpus = []
        cdir = os.path.join(vlib.VERIF, "corpus", "coro")
        if os.path.isdir(cdir):
            for fn in sorted(os.listdir(cdir)):
                corpus += [l.strip() for l in open(os.path.join(cdir, fn)) if l.strip() and not l.startswith("#")]
        lines = list(corpus)
        nprog = 0
        while nprog < n:
            lines += g.cases(nprog)
            nprog += 1
        try:
            impl, crashes = run_lines(exe, lines, "case ")
        except subprocess.TimeoutExpired:
            verdict.add(f"{self.name}: harness timeout", "coroutine harness timed out", dict(stream=self.name), found_input=False)
            return
        cov["sanitizer_aborts"] = cov.get("sanitizer_aborts", 0) + len(crashes)
        for k, site, err in crashes:
            site = re.sub(r"-?\d+", "N", site)     # operand values in UBSan messages are not stable
            verdict.add(f"{self.name}: {site}", f"the real library aborted (ASan/UBSan/terminate) on a generated coroutine program: {lines[k]}",
                        dict(stream=self.name, case=lines[k], sanitizer_report=err), found_input=True)
        # the async-stack configuration: the corpus, every case with a plain awaitable, every 3rd other program
        sub = [i for i, l in enumerate(lines) if i < len(corpus) or "pw " in l or (l.split(".")[0].isdigit() and int(l.split(".")[0]) % 3 == 0)]
        try:
            impl_d, crashes_d = run_lines(exe_dbg, [lines[i] for i in sub], "case ")
        except subprocess.TimeoutExpired:
            verdict.add(f"{self.name}: harness timeout", "coroutine harness (async stacks) timed out", dict(stream=self.name), found_input=False)
            return
        cov["sanitizer_aborts"] += len(crashes_d)
        for k, site, err in crashes_d:
            site = re.sub(r"-?\d+", "N", site)
            verdict.add(f"{self.name}[async-stacks]: {site}", f"the real library (built without NDEBUG: async stacks on) aborted on a generated coroutine program: {lines[sub[k]]}",
                        dict(stream=self.name, case=lines[sub[k]], config="-UNDEBUG", sanitizer_report=err), found_input=True)
        dbg = {sub[j]: x for j, x in enumerate(impl_d) if x is not None}
        cov["cases_also_run_with_async_stacks"] = cov.get("cases_also_run_with_async_stacks", 0) + len(dbg)
        keep = [i for i, x in enumerate(impl) if x is not None]
        dbg = {k2: dbg[i] for k2, i in enumerate(keep) if i in dbg}
        lines = [lines[i] for i in keep]; impl = [impl[i] for i in keep]
        model = [driver.ask("ask coro run | " + l) for l in lines]
        for k2, a in dbg.items():
            cov["evaluations"] += 1
            cov["traces_validated_against_impl"] += 1
            if a != model[k2]:
                mons = [t for t in re.findall(r"!![\w\-=]+", a) if t != "!!bad-op"]
                what = ("monitor " + re.sub(r"[0-9=]+", "", mons[0][2:])) if mons else "trace differs from the model"
                verdict.add(f"{self.name}[async-stacks]: {what}", f"impl (no NDEBUG): {a}  model: {model[k2]}",
                            dict(stream=self.name, case=lines[k2], config="-UNDEBUG", impl=a, model=model[k2]), found_input=True)
        distinct = set()
        hist = {}
        exits = {}
        mism = 0
        stops_at_suspension = 0
        for l, a, b in zip(lines, impl, model):
            cov["evaluations"] += 1
            cov["traces_validated_against_impl"] += 1
            for tok in re.findall(r"\((\w+)", l.split("|")[2]):
                hist[tok] = hist.get(tok, 0) + 1
            mons = [t for t in re.findall(r"!![\w\-=]+", a) if t != "!!bad-op"]
            if mons:
                verdict.add(f"{self.name}: monitor {re.sub(r'[0-9=]+', '', mons[0][2:])}", f"implementation monitor fired: {a}",
                            dict(stream=self.name, case=l, impl=a, model=b), found_input=True)
            rule = monitor(a)
            if rule:
                verdict.add(f"{self.name}: trace monitor {rule}", f"cleanup/lifetime discipline violated on the real library: {a}",
                            dict(stream=self.name, case=l, impl=a, model=b), found_input=True)
            if a != b:
                mism += 1
                ra = re.findall(r"R=\w+", a); rb = re.findall(r"R=\w+", b)
                if ra != rb:
                    kind, found = "root outcome differs from the model", True
                elif prop_view(a) != prop_view(b):
                    kind, found = "cleanup/lifetime trace differs from the model", True
                else:
                    kind, found = "trace differs from the model", False
                verdict.add(f"{self.name}: {kind}", f"impl: {a}  model: {b}",
                            dict(stream=self.name, case=l, impl=a, model=b, broken="correspondence coro.cpp vs Coro.deliver"), found_input=found)
            else:
                r = re.findall(r"R=(\w)", a)
                exits[r[0] if r else "none"] = exits.get(r[0] if r else "none", 0) + 1
                if "lp" in a:
                    stops_at_suspension += 1
                if " | " in a.split(" | ", 1)[-1]:
                    distinct.add(a.split(" | ", 1)[-1] + "#" + l.split("|")[2])
        cov["distinct_nontrivial"] += len(distinct)
        cov["rejected_histories"] += mism
        cov.setdefault("statement_histogram", {}).update(hist)
        cov.setdefault("root_outcomes", {}).update(exits)
        cov["programs"] = cov.get("programs", 0) + nprog
        cov["cases_where_stop_reached_a_suspended_leaf"] = cov.get("cases_where_stop_reached_a_suspended_leaf", 0) + stops_at_suspension
        if lines:
            k = len(corpus) if len(lines) > len(corpus) else 0
            cov["samples"].append(dict(stream=self.name, case=lines[k], observation=impl[k]))
        cov["parts_wall_s"][self.name] = round(time.time() - t0, 1)


def replay(path, driver):
    """./check C10 --replay FILE: re-run the recorded case on the real library and on the model; prints both"""
    import json
    d = json.load(open(path))
    case = d.get("case")
    if not case:
        print("replay file has no case"); return 1
    src = os.path.join(vlib.VERIF, "harness", "evt", "coro.cpp")
    flags = ("-UNDEBUG",) if d.get("config") == "-UNDEBUG" else ()
    exe = vlib.build_plain(src, LIB, flags, "gnu++20", sanitize="address,undefined", name="coro")
    impl, crashes = run_lines(exe, [case], "case ")
    model = driver.ask("ask coro run | " + case)
    print("case :", case, "(built without NDEBUG: async stacks on)" if flags else "")
    print("impl :", impl[0] if impl[0] is not None else "<aborted> " + (crashes[0][1] if crashes else ""))
    print("model:", model)
    if crashes:
        print(crashes[0][2][-1500:])
    bad = bool(crashes) or impl[0] != model or (impl[0] is not None and (monitor(impl[0]) or "!!leak" in impl[0] or "!!frame" in impl[0] or "!!root" in impl[0]))
    if impl[0] is not None and monitor(impl[0]):
        print("trace monitor:", monitor(impl[0]))
    print("REPRODUCED" if bad else "not reproduced")
    return 1 if bad else 0
