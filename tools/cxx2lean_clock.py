#!/usr/bin/env python3
"""cxx2lean_clock — regenerate lean/UnifexModel/Generated/Clock.lean from
include/unifex/linux/monotonic_clock.hpp (DESIGN §3.1, property C07).

A small hand-written front end for exactly the statement subset the anchored functions use:

  functions   time_point::normalize, time_point::from_seconds_and_nanoseconds,
              time_point::operator+= / operator-= (template over the duration type, instantiated
              at monotonic_clock::duration = 100 ns ticks),
              friend operator-(time_point, time_point), operator+ / operator-(time_point, duration),
              operator== != < > <= >=
  statements  local declarations with initialiser (`constexpr T x = e;`, `auto x = e;`,
              `const auto x = e;`, `time_point tp;`, `time_point tp = a;`), assignments
              `= += -=` to seconds_/nanoseconds_ (of *this or of a local time_point), `tp += d;`
              `tp -= d;`, `normalize();` / `tp.normalize();`, if / else-if / else chains,
              `return e;`, `return *this;`
  expressions integer literals (with digit separators), + - * / %, unary -, comparisons, && || !,
              ?:, member access .seconds_ .nanoseconds_, .count(), duration(e),
              std::chrono::duration_cast<std::chrono::{seconds,milliseconds,microseconds,
              nanoseconds}>(e), duration - duration

C++ `/` and `%` on integers become Int.tdiv / Int.tmod.  std::chrono semantics (duration_cast and
the common type of a duration subtraction) are built into the translator as libstdc++ defines them
(integer representation, truncating division); that part is validated, like everything else here,
by the differential run of the generated definitions against the compiled C++ on every check.

ANYTHING outside the subset raises TranslateError: the check reports it as a broken tie.
"""
import math
import os
import re
import sys


class TranslateError(Exception):
    pass


# ------------------------------------------------------------------ lexer
TOKEN_RE = re.compile(r"""
    (?P<ws>\s+)
  | (?P<num>\d[\d']*(?:[uUlL]*))
  | (?P<id>[A-Za-z_]\w*)
  | (?P<op>::|\+=|-=|\*=|/=|%=|==|!=|<=|>=|&&|\|\||->|<<|>>|\+\+|--|[-+*/%<>=!?:;,.(){}\[\]&|~^\#])
""", re.X)


def strip_comments(src):
    src = re.sub(r"/\*.*?\*/", lambda m: re.sub(r"[^\n]", " ", m.group(0)), src, flags=re.S)
    src = re.sub(r"//[^\n]*", "", src)
    return src


def lex(src):
    toks, i, line = [], 0, 1
    while i < len(src):
        m = TOKEN_RE.match(src, i)
        if not m:
            raise TranslateError(f"line {line}: cannot tokenize {src[i:i+20]!r}")
        i = m.end()
        kind = m.lastgroup
        text = m.group(0)
        if kind != "ws":
            toks.append((kind, text, line))
        line += text.count("\n")
    return toks


# ------------------------------------------------------------------ types
class Ty:
    pass


class TInt(Ty):
    def __repr__(self): return "int"


class TBool(Ty):
    def __repr__(self): return "bool"


class TTp(Ty):
    def __repr__(self): return "time_point"


class TDur(Ty):
    def __init__(self, num, den):
        g = math.gcd(num, den)
        self.num, self.den = num // g, den // g

    def __repr__(self): return f"duration<{self.num}/{self.den}>"


INT, BOOL, TP = TInt(), TBool(), TTp()
TICKS = TDur(1, 10_000_000)          # monotonic_clock::duration, re-read from the header below
CHRONO = {"seconds": TDur(1, 1), "milliseconds": TDur(1, 1000), "microseconds": TDur(1, 1_000_000),
          "nanoseconds": TDur(1, 1_000_000_000)}
FIELDS = ("seconds_", "nanoseconds_")

# ------------------------------------------------------------------ AST (tuples)
# expr: ("num", n) ("var", name) ("field", expr, fname) ("bin", op, l, r) ("un", op, e)
#       ("cond", c, a, b) ("call", fname, [args]) ("cast", TDur, e) ("count", e) ("this",)
# stmt: ("decl", name, ty_or_None, expr_or_None) ("assign", lhs_expr, op, expr) ("if", c, then, else)
#       ("return", expr) ("expr", expr)


class Parser:
    def __init__(self, toks, pos, end):
        self.t, self.i, self.end = toks, pos, end

    def peek(self, k=0):
        j = self.i + k
        return self.t[j] if j < self.end else ("eof", "", -1)

    def at(self, text, k=0):
        return self.peek(k)[1] == text and self.peek(k)[0] != "eof"

    def next(self):
        tok = self.peek()
        self.i += 1
        return tok

    def expect(self, text):
        tok = self.next()
        if tok[1] != text:
            raise TranslateError(f"line {tok[2]}: expected {text!r}, found {tok[1]!r}")
        return tok

    def err(self, msg):
        tok = self.peek()
        raise TranslateError(f"line {tok[2]}: {msg} (at {tok[1]!r})")

    # ---- qualified names / types
    def qualified(self):
        parts = [self.next()[1]]
        while self.at("::"):
            self.next()
            tok = self.next()
            if tok[0] != "id":
                self.err("identifier expected in qualified name")
            parts.append(tok[1])
        return parts

    def chrono_type(self):
        q = self.qualified()
        if q[-1] in CHRONO and q[:-1] in (["std", "chrono"], ["chrono"], []):
            return CHRONO[q[-1]]
        if q == ["duration"]:
            return TICKS
        raise TranslateError(f"unsupported duration type {'::'.join(q)}")

    # ---- expressions (precedence climbing)
    def expr(self):
        c = self.lor()
        if self.at("?"):
            self.next()
            a = self.expr()
            self.expect(":")
            b = self.expr()
            return ("cond", c, a, b)
        return c

    def binlevel(self, ops, sub):
        l = sub()
        while self.peek()[0] == "op" and self.peek()[1] in ops:
            op = self.next()[1]
            r = sub()
            l = ("bin", op, l, r)
        return l

    def lor(self): return self.binlevel(("||",), self.land)
    def land(self): return self.binlevel(("&&",), self.equality)
    def equality(self): return self.binlevel(("==", "!="), self.relational)
    def relational(self): return self.binlevel(("<", ">", "<=", ">="), self.additive)
    def additive(self): return self.binlevel(("+", "-"), self.multiplicative)
    def multiplicative(self): return self.binlevel(("*", "/", "%"), self.unary)

    def unary(self):
        if self.at("-") or self.at("!") or self.at("+"):
            op = self.next()[1]
            e = self.unary()
            return e if op == "+" else ("un", op, e)
        if self.at("*") and self.at("this", 1):
            self.next(); self.next()
            return ("this",)
        return self.postfix()

    def postfix(self):
        e = self.primary()
        while self.at("."):
            self.next()
            tok = self.next()
            if tok[1] in FIELDS:
                e = ("field", e, tok[1])
            elif tok[1] == "count":
                self.expect("("); self.expect(")")
                e = ("count", e)
            else:
                raise TranslateError(f"line {tok[2]}: unsupported member .{tok[1]}")
        return e

    def primary(self):
        tok = self.peek()
        if tok[0] == "num":
            self.next()
            return ("num", int(re.sub(r"[uUlL']", "", tok[1])))
        if tok[1] == "(":
            self.next()
            e = self.expr()
            self.expect(")")
            return e
        if tok[0] == "id":
            if tok[1] in ("static_cast", "reinterpret_cast", "const_cast", "sizeof", "new", "delete"):
                self.err("unsupported expression")
            q = self.qualified()
            if q[-1] == "duration_cast":
                self.expect("<")
                ty = self.chrono_type()
                self.expect(">")
                self.expect("(")
                e = self.expr()
                self.expect(")")
                return ("cast", ty, e)
            if len(q) > 1:
                raise TranslateError(f"line {tok[2]}: unsupported qualified name {'::'.join(q)}")
            if self.at("("):
                self.next()
                args = []
                if not self.at(")"):
                    args.append(self.expr())
                    while self.at(","):
                        self.next()
                        args.append(self.expr())
                self.expect(")")
                return ("call", q[0], args)
            return ("var", q[0])
        self.err("unsupported expression")

    # ---- statements
    def block(self):
        self.expect("{")
        out = []
        while not self.at("}"):
            out.append(self.stmt())
        self.expect("}")
        return out

    def block_or_stmt(self):
        return self.block() if self.at("{") else [self.stmt()]

    DECL_START = ("constexpr", "const", "auto", "std", "time_point", "duration", "long", "int", "bool")

    def stmt(self):
        tok = self.peek()
        if tok[1] == "if":
            self.next()
            if self.at("constexpr"):
                self.err("if constexpr is outside the subset")
            self.expect("(")
            c = self.expr()
            self.expect(")")
            th = self.block_or_stmt()
            el = []
            if self.at("else"):
                self.next()
                el = self.block_or_stmt()
            return ("if", c, th, el)
        if tok[1] == "return":
            self.next()
            e = self.expr()
            self.expect(";")
            return ("return", e)
        if tok[1] in ("while", "for", "do", "switch", "goto", "try", "throw", "break", "continue"):
            self.err("statement outside the translatable subset")
        if tok[0] == "id" and tok[1] in self.DECL_START and not (tok[1] in ("time_point", "duration") and self.at("(", 1)):
            return self.decl()
        # expression statement: assignment / call
        lhs = self.postfix_lhs()
        if self.peek()[1] in ("=", "+=", "-="):
            op = self.next()[1]
            e = self.expr()
            self.expect(";")
            return ("assign", lhs, op, e)
        if self.peek()[1] in ("*=", "/=", "%=", "++", "--"):
            self.err("assignment operator outside the subset")
        self.expect(";")
        return ("expr", lhs)

    def postfix_lhs(self):
        # `x`, `x.seconds_`, `normalize()`, `x.normalize()`
        tok = self.next()
        if tok[0] != "id":
            raise TranslateError(f"line {tok[2]}: statement outside the subset (at {tok[1]!r})")
        e = ("var", tok[1])
        if self.at("("):
            self.next(); self.expect(")")
            return ("mcall", ("this",), tok[1])
        while self.at("."):
            self.next()
            m = self.next()
            if self.at("("):
                self.next(); self.expect(")")
                e = ("mcall", e, m[1])
            elif m[1] in FIELDS:
                e = ("field", e, m[1])
            else:
                raise TranslateError(f"line {m[2]}: unsupported member .{m[1]}")
        return e

    def decl(self):
        ty = None
        saw_auto = False
        # swallow cv/constexpr and the type
        while True:
            tok = self.peek()
            if tok[1] in ("constexpr", "const"):
                self.next(); continue
            break
        tok = self.peek()
        if tok[1] == "auto":
            self.next(); saw_auto = True
        else:
            q = self.qualified()
            while self.peek()[1] in ("long", "int", "unsigned"):
                q.append(self.next()[1])
            name = q[-1]
            if name in ("int64_t", "int32_t", "long", "int", "intmax_t"):
                ty = INT
            elif name == "time_point":
                ty = TP
            elif name == "bool":
                ty = BOOL
            elif name == "duration":
                ty = TICKS
            else:
                raise TranslateError(f"line {tok[2]}: unsupported local type {'::'.join(q)}")
            if "unsigned" in q or name.startswith("uint"):
                raise TranslateError(f"line {tok[2]}: unsigned arithmetic is outside the subset")
        while self.at("&") or self.at("const"):
            self.next()
        ntok = self.next()
        if ntok[0] != "id":
            raise TranslateError(f"line {ntok[2]}: declarator expected")
        init = None
        if self.at("="):
            self.next()
            init = self.expr()
        elif not (ty is TP):
            raise TranslateError(f"line {ntok[2]}: local {ntok[1]} without initialiser")
        self.expect(";")
        if saw_auto and init is None:
            raise TranslateError(f"line {ntok[2]}: auto without initialiser")
        return ("decl", ntok[1], ty, init)


# ------------------------------------------------------------------ function discovery
OPNAMES = {"+=": "addAssign", "-=": "subAssign", "==": "eq", "!=": "ne", "<": "lt", ">": "gt", "<=": "le", ">=": "ge"}


def match_paren(toks, i, open_, close):
    depth = 0
    while i < len(toks):
        if toks[i][1] == open_:
            depth += 1
        elif toks[i][1] == close:
            depth -= 1
            if depth == 0:
                return i
        i += 1
    raise TranslateError("unbalanced " + open_)


def split_params(toks, lo, hi):
    """tokens lo..hi (exclusive) of a parameter list -> [(type_tokens, name)]"""
    params, cur, depth = [], [], 0
    for k in range(lo, hi):
        t = toks[k][1]
        if t == "<":
            depth += 1
        elif t == ">":
            depth -= 1
        if t == "," and depth == 0:
            params.append(cur); cur = []
        else:
            cur.append(toks[k])
    if cur:
        params.append(cur)
    out = []
    for p in params:
        if p[-1][0] != "id":
            raise TranslateError(f"line {p[-1][2]}: unnamed parameter")
        name = p[-1][1]
        tys = [x[1] for x in p[:-1]]
        if "time_point" in tys:
            ty = TP
        elif "duration" in tys:
            ty = TICKS       # template parameter instantiated at monotonic_clock::duration
        elif any(x in tys for x in ("int64_t", "long", "int")):
            if "unsigned" in tys:
                raise TranslateError(f"line {p[0][2]}: unsigned parameter")
            ty = INT
        else:
            raise TranslateError(f"line {p[0][2]}: unsupported parameter type {' '.join(tys)}")
        out.append((name, ty))
    return out


def find_functions(toks):
    """-> {leanName: dict(params, body=(lo,hi), member:bool, ret, line)} for every DEFINITION found"""
    fns = {}
    i = 0
    n = len(toks)
    while i < n:
        kind, text, line = toks[i]
        name = None
        j = i
        if text == "operator":
            op = toks[i + 1][1]
            if op == "(":
                i += 1; continue
            name = "operator" + op
            j = i + 2
        elif text in ("normalize", "from_seconds_and_nanoseconds") and toks[i + 1][1] == "(":
            name = text
            j = i + 1
        if name is None or toks[j][1] != "(":
            i += 1; continue
        close = match_paren(toks, j, "(", ")")
        k = close + 1
        while toks[k][1] in ("const", "noexcept"):
            k += 1
        if toks[k][1] != "{":
            i = close + 1; continue          # a declaration or a call
        # is it a call (e.g. `tp.normalize();`) — then the token before is '.' ; a definition has a type/`::` before
        prev = toks[i - 1][1] if i > 0 else ""
        if prev == ".":
            i = close + 1; continue
        bend = match_paren(toks, k, "{", "}")
        params = split_params(toks, j + 1, close)
        member = prev == "::"
        if name.startswith("operator"):
            op = name[len("operator"):]
            ptys = [p[1] for p in params]
            if member and op in ("+=", "-="):
                lean = OPNAMES[op]
            elif not member and op == "-" and ptys == [TP, TP]:
                lean = "diff"
            elif not member and op in ("+", "-") and len(ptys) == 2 and ptys[0] is TP and isinstance(ptys[1], TDur):
                lean = "add" if op == "+" else "sub"
            elif not member and op in OPNAMES and ptys == [TP, TP]:
                lean = OPNAMES[op]
            elif op == "=":
                i = bend + 1; continue
            else:
                raise TranslateError(f"line {line}: unexpected operator definition operator{op}({ptys})")
        else:
            lean = {"normalize": "normalize", "from_seconds_and_nanoseconds": "fromSecondsAndNanoseconds"}[name]
        # return type and member-ness are fixed by which anchored function it is
        if lean in ("normalize",):
            ret, is_member = None, True
        elif lean in ("addAssign", "subAssign"):
            ret, is_member = TP, True
        elif lean == "fromSecondsAndNanoseconds":
            ret, is_member = TP, False
        elif lean == "diff":
            ret, is_member = TICKS, False
        elif lean in ("add", "sub"):
            ret, is_member = TP, False
        else:
            ret, is_member = BOOL, False
        if lean in fns:
            raise TranslateError(f"line {line}: second definition of {name}")
        fns[lean] = dict(params=params, body=(k, bend + 1), member=is_member, ret=ret, line=line, cxx=name)
        i = bend + 1
    return fns


def read_tick_ratio(toks):
    """`using ratio = std::ratio<1, 10'000'000>;` inside monotonic_clock"""
    for i, t in enumerate(toks):
        if t[1] == "using" and toks[i + 1][1] == "ratio" and toks[i + 2][1] == "=":
            j = i + 3
            q = []
            while toks[j][1] != "<":
                q.append(toks[j][1]); j += 1
            if q[-1] != "ratio":
                break
            num = int(re.sub(r"[uUlL']", "", toks[j + 1][1]))
            if toks[j + 2][1] != ",":
                break
            den = int(re.sub(r"[uUlL']", "", toks[j + 3][1]))
            return TDur(num, den)
    raise TranslateError("cannot find `using ratio = std::ratio<N, D>` of monotonic_clock")


# ------------------------------------------------------------------ Lean printer
class Emitter:
    """translates one function body into a Lean term (string with explicit layout)"""

    def __init__(self, fname, info, known):
        self.fname, self.info, self.known = fname, info, known
        self.env = {}        # C++ name -> (type, leanexpr) ; for time_point variables leanexpr = {field: leanexpr}
        self.counter = {}
        self.used_names = set()

    def fresh(self, base):
        k = self.counter.get(base, 0) + 1
        self.counter[base] = k
        return f"{base}_{k}"

    # ---- expressions: returns (type, lean string).  Bool-typed values are Lean `Bool`.
    def tp_fields(self, e):
        """e must denote a time_point; returns dict field->lean expr"""
        if e[0] == "var":
            if e[1] not in self.env:
                raise TranslateError(f"{self.fname}: unknown variable {e[1]}")
            ty, v = self.env[e[1]]
            if ty is not TP:
                raise TranslateError(f"{self.fname}: {e[1]} is not a time_point")
            return v
        if e[0] == "this":
            return self.tp_fields(("var", "this"))
        raise TranslateError(f"{self.fname}: unsupported time_point expression {e[0]}")

    def tp_value(self, fields):
        s, n = fields["seconds_"], fields["nanoseconds_"]
        m1 = re.fullmatch(r"(\w+)\.seconds_", s)
        m2 = re.fullmatch(r"(\w+)\.nanoseconds_", n)
        if m1 and m2 and m1.group(1) == m2.group(1):
            return m1.group(1)
        return f"{{ seconds_ := {s}, nanoseconds_ := {n} }}"

    def as_prop(self, e):
        """condition position: a Lean Prop"""
        if e[0] == "bin" and e[1] in ("&&", "||"):
            return f"({self.as_prop(e[2])} {'∧' if e[1] == '&&' else '∨'} {self.as_prop(e[3])})"
        if e[0] == "un" and e[1] == "!":
            return f"(¬ {self.as_prop(e[2])})"
        if e[0] == "bin" and e[1] in ("==", "!=", "<", ">", "<=", ">="):
            lt, ls = self.expr(e[2])
            rt, rs = self.expr(e[3])
            if isinstance(lt, TInt) and isinstance(rt, TInt):
                op = {"==": "=", "!=": "≠", "<": "<", ">": ">", "<=": "≤", ">=": "≥"}[e[1]]
                return f"({ls} {op} {rs})"
        ty, s = self.expr(e)
        if ty is not BOOL:
            raise TranslateError(f"{self.fname}: condition is not boolean")
        return f"({s} = true)"

    def expr(self, e):
        k = e[0]
        if k == "num":
            return INT, str(e[1])
        if k == "var":
            name = e[1]
            if name in self.env:
                ty, v = self.env[name]
                if ty is TP:
                    return TP, self.tp_value(v)
                return ty, v
            if name in FIELDS and "this" in self.env:
                return INT, self.env["this"][1][name]
            raise TranslateError(f"{self.fname}: unknown identifier {name}")
        if k == "this":
            return TP, self.tp_value(self.tp_fields(e))
        if k == "field":
            return INT, self.tp_fields(e[1])[e[2]]
        if k == "un":
            ty, s = self.expr(e[2])
            if e[1] == "-":
                if not isinstance(ty, TInt):
                    raise TranslateError(f"{self.fname}: unary - on {ty}")
                return INT, f"(-{s})"
            if e[1] == "!":
                if ty is not BOOL:
                    raise TranslateError(f"{self.fname}: ! on {ty}")
                return BOOL, f"(!{s})"
        if k == "cond":
            c = self.as_prop(e[1])
            at, as_ = self.expr(e[2])
            bt, bs = self.expr(e[3])
            if type(at) is not type(bt):
                raise TranslateError(f"{self.fname}: ?: branches of different type")
            return at, f"(if {c} then {as_} else {bs})"
        if k == "count":
            ty, s = self.expr(e[1])
            if not isinstance(ty, TDur):
                raise TranslateError(f"{self.fname}: .count() on {ty}")
            return INT, s
        if k == "cast":
            ty, s = self.expr(e[2])
            if not isinstance(ty, TDur):
                raise TranslateError(f"{self.fname}: duration_cast of {ty}")
            to = e[1]
            # libstdc++ __duration_cast_impl: CF = from_period / to_period reduced
            num, den = ty.num * to.den, ty.den * to.num
            g = math.gcd(num, den)
            num, den = num // g, den // g
            if num == 1 and den == 1:
                return to, s
            if den == 1:
                return to, f"({s} * {num})"
            if num == 1:
                return to, f"(Int.tdiv {s} {den})"
            return to, f"(Int.tdiv ({s} * {num}) {den})"
        if k == "call":
            fn, args = e[1], e[2]
            if fn == "duration" and len(args) == 1:
                ty, s = self.expr(args[0])
                if not isinstance(ty, TInt):
                    raise TranslateError(f"{self.fname}: duration(...) of {ty}")
                return TICKS, s
            raise TranslateError(f"{self.fname}: unsupported call {fn}(...)")
        if k == "bin":
            op = e[1]
            lt, ls = self.expr(e[2])
            rt, rs = self.expr(e[3])
            if op in ("&&", "||"):
                if lt is not BOOL or rt is not BOOL:
                    raise TranslateError(f"{self.fname}: {op} on non-boolean")
                return BOOL, f"({ls} {op} {rs})"
            if isinstance(lt, TInt) and isinstance(rt, TInt):
                if op in ("+", "-", "*"):
                    return INT, f"({ls} {op} {rs})"
                if op == "/":
                    return INT, f"(Int.tdiv {ls} {rs})"
                if op == "%":
                    return INT, f"(Int.tmod {ls} {rs})"
                if op in ("==", "!=", "<", ">", "<=", ">="):
                    return BOOL, f"(decide {self.as_prop(e)})"
            if lt is TP and rt is TP and op in OPNAMES:
                fn = OPNAMES[op]
                if fn not in self.known:
                    raise TranslateError(f"{self.fname}: uses operator{op} on time_points before its definition was translated")
                return BOOL, f"({fn} {ls} {rs})"
            if isinstance(lt, TDur) and isinstance(rt, TDur) and op in ("+", "-"):
                # common_type: period = gcd(num)/lcm(den)
                cn = math.gcd(lt.num, rt.num)
                cd = lt.den * rt.den // math.gcd(lt.den, rt.den)
                ct = TDur(cn, cd)

                def conv(ty, s):
                    f = (ty.num * ct.den) // (ty.den * ct.num)
                    if (ty.num * ct.den) % (ty.den * ct.num) != 0:
                        raise TranslateError("inexact common_type conversion")
                    return s if f == 1 else f"({s} * {f})"
                return ct, f"({conv(lt, ls)} {op} {conv(rt, rs)})"
            raise TranslateError(f"{self.fname}: operator {op} on ({lt}, {rt}) is outside the subset")
        raise TranslateError(f"{self.fname}: unsupported expression node {k}")

    # ---- statements (continuation style: `rest` are the statements that follow)
    def result_of_fallthrough(self):
        if self.info["member"]:
            return self.tp_value(self.env["this"][1])
        raise TranslateError(f"{self.fname}: control reaches the end of a non-void function")

    def stmts(self, sts, ind):
        pad = "  " * ind
        if not sts:
            return pad + self.result_of_fallthrough() + "\n"
        st, rest = sts[0], sts[1:]
        k = st[0]
        if k == "decl":
            _, name, ty, init = st
            if name in self.env:
                raise TranslateError(f"{self.fname}: redeclaration of {name}")
            if ty is TP or (init is not None and ty is None and self.peek_type(init) is TP):
                if init is None:
                    fields = {"seconds_": "0", "nanoseconds_": "0"}     # time_point() : seconds_(0), nanoseconds_(0)
                else:
                    it, _ = self.expr(init)
                    if it is not TP:
                        raise TranslateError(f"{self.fname}: time_point {name} initialised from {it}")
                    fields = dict(self.tp_fields(init))
                self.env[name] = (TP, fields)
                return self.stmts(rest, ind)
            it, s = self.expr(init)
            if ty is not None and type(ty) is not type(it):
                raise TranslateError(f"{self.fname}: {name} declared {ty} but initialised with {it}")
            lean = name if name not in self.used_names else self.fresh(name)
            self.used_names.add(lean)
            self.env[name] = (it, lean)
            lty = "Int" if isinstance(it, (TInt, TDur)) else "Bool"
            return f"{pad}let {lean} : {lty} := {s}\n" + self.stmts(rest, ind)
        if k == "assign":
            _, lhs, op, rhs = st
            if lhs[0] == "var" and lhs[1] in FIELDS and "this" in self.env:
                lhs = ("field", ("this",), lhs[1])
            if lhs[0] == "field":
                fields = self.tp_fields(lhs[1])
                rt, rs = self.expr(rhs)
                if not isinstance(rt, TInt):
                    raise TranslateError(f"{self.fname}: assigning {rt} to {lhs[2]}")
                cur = fields[lhs[2]]
                val = rs if op == "=" else f"{cur} {op[0]} {rs}"
                fbase = lhs[2].rstrip("_")
                lean = self.fresh(fbase if lhs[1][0] == "this" else f"{lhs[1][1]}_{fbase}")
                fields[lhs[2]] = lean
                return f"{pad}let {lean} : Int := {val}\n" + self.stmts(rest, ind)
            if lhs[0] == "var" and lhs[1] in self.env and self.env[lhs[1]][0] is TP and op in ("+=", "-="):
                fn = OPNAMES[op]
                if fn not in self.known:
                    raise TranslateError(f"{self.fname}: uses operator{op} before its definition was translated")
                rt, rs = self.expr(rhs)
                if not isinstance(rt, TDur) or (rt.num, rt.den) != (TICKS.num, TICKS.den):
                    raise TranslateError(f"{self.fname}: time_point {op} {rt}: only the tick duration is instantiated")
                fields = self.env[lhs[1]][1]
                lean = self.fresh(lhs[1])
                line = f"{pad}let {lean} : TimePoint := {fn} {self.tp_value(fields)} {rs}\n"
                fields["seconds_"], fields["nanoseconds_"] = f"{lean}.seconds_", f"{lean}.nanoseconds_"
                return line + self.stmts(rest, ind)
            raise TranslateError(f"{self.fname}: unsupported assignment target")
        if k == "expr":
            e = st[1]
            if e[0] == "mcall" and e[2] == "normalize":
                if "normalize" not in self.known:
                    raise TranslateError(f"{self.fname}: normalize() used before it was translated")
                fields = self.tp_fields(e[1])
                base = "self" if e[1][0] == "this" else e[1][1]
                lean = self.fresh(base)
                line = f"{pad}let {lean} : TimePoint := normalize {self.tp_value(fields)}\n"
                fields["seconds_"], fields["nanoseconds_"] = f"{lean}.seconds_", f"{lean}.nanoseconds_"
                return line + self.stmts(rest, ind)
            raise TranslateError(f"{self.fname}: unsupported expression statement")
        if k == "return":
            ty, s = self.expr(st[1])
            ret = self.info["ret"]
            if ret is None or type(ty) is not type(ret):
                raise TranslateError(f"{self.fname}: returns {ty}, expected {ret}")
            return f"{pad}{s}\n"
        if k == "if":
            _, c, th, el = st
            cond = self.as_prop(c)
            saved = self.snapshot()
            a = self.stmts(th + rest, ind + 1)
            self.restore(saved)
            b = self.stmts(el + rest, ind + 1)
            self.restore(saved)
            return f"{pad}if {cond} then\n{a}{pad}else\n{b}"
        raise TranslateError(f"{self.fname}: unsupported statement {k}")

    def peek_type(self, e):
        saved = self.snapshot()
        try:
            return self.expr(e)[0]
        finally:
            self.restore(saved)

    def snapshot(self):
        env = {k: (t, dict(v) if isinstance(v, dict) else v) for k, (t, v) in self.env.items()}
        return env, dict(self.counter), set(self.used_names)

    def restore(self, snap):
        env, counter, used = snap
        self.env = {k: (t, dict(v) if isinstance(v, dict) else v) for k, (t, v) in env.items()}
        # counters keep growing so that names stay unique across branches
        self.used_names |= used


ORDER = ["normalize", "fromSecondsAndNanoseconds", "addAssign", "subAssign", "add", "sub", "diff",
         "eq", "ne", "lt", "gt", "le", "ge"]
REQUIRED = list(ORDER)


def translate(header_path):
    src = strip_comments(open(header_path).read())
    toks = lex(src)
    global TICKS
    TICKS = read_tick_ratio(toks)
    fns = find_functions(toks)
    missing = [f for f in REQUIRED if f not in fns]
    if missing:
        raise TranslateError("anchored functions not found (renamed/removed?): " + ", ".join(missing))
    out = []
    out.append("/-\n  Generated/Clock.lean — GENERATED by tools/cxx2lean_clock.py from\n"
               "  include/unifex/linux/monotonic_clock.hpp.  DO NOT EDIT: every `./check C07` regenerates this file\n"
               "  and re-checks lean/UnifexModel/Props/C07_Clock.lean against it.\n"
               "  C++ integer `/` and `%` are Int.tdiv / Int.tmod; integers are mathematical (no wrap-around:\n"
               "  the theorems' precondition is absence of signed overflow, which is UB in the source).\n"
               "  Template duration parameters are instantiated at monotonic_clock::duration "
               f"(ratio {TICKS.num}/{TICKS.den} s).\n-/\n")
    out.append("namespace Unifex.Generated.Clock\n\n")
    out.append("/-- monotonic_clock::time_point (the two data members) -/\n"
               "structure TimePoint where\n  seconds_ : Int\n  nanoseconds_ : Int\n  deriving DecidableEq, Repr\n\n")
    out.append(f"/-- monotonic_clock::ratio -/\ndef tickNum : Int := {TICKS.num}\ndef tickDen : Int := {TICKS.den}\n\n")
    known = set()
    pending = [f for f in ORDER]
    # translate in dependency order: retry until no progress
    texts = {}
    last_err = None
    while pending:
        progressed = False
        for f in list(pending):
            info = fns[f]
            em = Emitter(f, info, known)
            params = []
            if info["member"]:
                em.env["this"] = (TP, {"seconds_": "self.seconds_", "nanoseconds_": "self.nanoseconds_"})
                params.append("(self : TimePoint)")
            for (pn, pt) in info["params"]:
                if pt is TP:
                    em.env[pn] = (TP, {"seconds_": f"{pn}.seconds_", "nanoseconds_": f"{pn}.nanoseconds_"})
                    params.append(f"({pn} : TimePoint)")
                else:
                    em.env[pn] = (pt, pn)
                    params.append(f"({pn} : Int)")
                em.used_names.add(pn)
            p = Parser(toks, info["body"][0], info["body"][1])
            try:
                body = p.block()
                term = em.stmts(body, 1)
            except TranslateError as e:
                if "before its definition" in str(e) or "before it was translated" in str(e):
                    last_err = e
                    continue
                raise TranslateError(f"{info['cxx']} (line {info['line']}): {e}")
            ret = {None: "TimePoint"}.get(info["ret"], None) or ("TimePoint" if info["ret"] is TP else "Bool" if info["ret"] is BOOL else "Int")
            texts[f] = (f"/-- `{info['cxx']}` (monotonic_clock.hpp line {info['line']}) -/\n"
                        f"def {f} {' '.join(params)} : {ret} :=\n{term}\n")
            known.add(f)
            pending.remove(f)
            progressed = True
        if not progressed:
            raise TranslateError(f"cyclic or unresolved dependencies among {pending}: {last_err}")
    # dependency order = order of insertion into `texts`
    for f in texts:
        out.append(texts[f])
    out.append("end Unifex.Generated.Clock\n")
    return "".join(out)


def main():
    repo = os.environ.get("VERIF_REPO", "/repo")
    hdr = os.path.join(repo, "include", "unifex", "linux", "monotonic_clock.hpp")
    here = os.path.dirname(os.path.dirname(os.path.abspath(__file__)))
    dst = os.path.join(here, "lean", "UnifexModel", "Generated", "Clock.lean")
    if len(sys.argv) > 1 and sys.argv[1] == "--stdout":
        sys.stdout.write(translate(hdr))
        return 0
    try:
        text = translate(hdr)
    except TranslateError as e:
        print("translator error:", e, file=sys.stderr)
        return 2
    os.makedirs(os.path.dirname(dst), exist_ok=True)
    old = open(dst).read() if os.path.exists(dst) else None
    if old != text:
        open(dst, "w").write(text)
        print("regenerated", dst, "(changed)")
    else:
        print("regenerated", dst, "(unchanged)")
    return 0


if __name__ == "__main__":
    sys.exit(main())
