"""evt — event-level correspondence part (C-event, DESIGN §3.2): generated sender expressions are run
through the REAL library (harness/evt/evt.cpp, rebuilt from the working tree) and through the Lean
calculus (umdriver `ask calc run`), and the canonical per-event observations are compared."""
import os, random, subprocess, time
from . import vlib
from .vlib import log

UN = ["then", "uerr", "udone", "md", "dao", "uns", "tag", "src", "era", "iv", "dfr", "alc", "rtk", "lvt", "mob"]
BIN = ["lv", "le", "ld", "seq", "fin", "wa", "sw", "any"]


class Gen:
    def __init__(self, rng, max_size=12, max_depth=5, allow=None, tok_flag=False):
        self.r, self.max_size, self.max_depth = rng, max_size, max_depth
        self.allow = allow
        self.tok_flag = tok_flag
        self.nleaf = 0
        self.size = 0

    def fn(self, nullary=False):
        """scripted user callable; the v* forms return void (the library has separate branches for void results);
        nullary (upon_done): no argument, so add/tie are pointless"""
        k = self.r.random()
        if nullary:
            if k < 0.45:
                return f"{self.r.randint(0, 9)}"
            if k < 0.6:
                return f"thr:{self.r.randint(1, 9)}"
            if k < 0.8:
                return f"vcst:{self.r.randint(0, 9)}"
            return f"vthr:{self.r.randint(1, 9)}"
        if k < 0.4:
            return f"add:{self.r.randint(0, 9)}"
        if k < 0.52:
            return f"thr:{self.r.randint(1, 9)}"
        if k < 0.64:
            return f"tie:{self.r.randint(0, 12)}:{self.r.randint(1, 9)}:{self.r.randint(0, 9)}"
        if k < 0.72:
            return f"cst:{self.r.randint(0, 9)}"
        if k < 0.82:
            return f"vcst:{self.r.randint(0, 9)}"
        if k < 0.91:
            return f"vthr:{self.r.randint(1, 9)}"
        return f"vtie:{self.r.randint(0, 12)}:{self.r.randint(1, 9)}:{self.r.randint(0, 9)}"

    def leafish(self, in_let):
        self.size += 1
        k = self.r.random()
        if k < 0.45:
            self.nleaf += 1
            return f"(leaf {self.nleaf})"
        if k < 0.65:
            return f"(just {self.r.randint(0, 9)})"
        if k < 0.75:
            return f"(jerr {self.r.randint(1, 9)})"
        if k < 0.80:
            return "(jdone)"
        if k < 0.84:
            return f"(jfrom {self.r.randint(0, 9)})"
        if k < 0.87:
            return f"(jvod {self.r.randint(0, 1)})"
        return f"(argv {self.r.randint(0, 5)})"

    def expr(self, depth=0, in_let=False):
        if depth >= self.max_depth or self.size >= self.max_size or self.r.random() < 0.18:
            return self.leafish(in_let)
        self.size += 1
        if self.r.random() < 0.45:
            k = self.r.choice(UN)
            c = self.expr(depth + 1, in_let)
            if k in ("then", "uerr"):
                return f"({k} {self.fn()} {c})"
            if k == "udone":
                return f"({k} {self.fn(nullary=True)} {c})"
            if k in ("dao", "tag"):
                return f"({k} {self.r.randint(0, 9)} {c})"
            return f"({k} {c})"
        k = self.r.choice(BIN)
        a = self.expr(depth + 1, in_let)
        b = self.expr(depth + 1, in_let or k in ("lv", "le"))
        return f"({k} {a} {b})"

    def case(self, cid):
        self.nleaf = 0
        self.size = 0
        e = self.expr()
        specs = []
        pend = []
        for i in range(1, self.nleaf + 1):
            k = self.r.random()
            if k < 0.35:
                ch = self.r.choice(["v", "v", "e", "d"])
                specs.append(f"{i}=i:{ch}{self.r.randint(0, 9) if ch != 'd' else ''}")
            elif k < 0.7:
                specs.append(f"{i}=p:ign"); pend.append(i)
            else:
                specs.append(f"{i}=p:done"); pend.append(i)
        evs = []
        if self.r.random() < 0.1:
            evs.append("stop")
        evs.append("start")
        order = pend[:]
        self.r.shuffle(order)
        stop_at = self.r.randint(0, len(order)) if self.r.random() < 0.45 else -1
        for n, i in enumerate(order):
            if n == stop_at:
                evs.append("stop")
            if self.r.random() < 0.8:
                ch = self.r.choice(["v", "v", "v", "e", "d"])
                evs.append(f"c{i}:{ch}{self.r.randint(0, 9) if ch != 'd' else ''}")
        if stop_at == len(order):
            evs.append("stop")
        tok = " | tok" if self.tok_flag and self.r.random() < 0.4 else ""
        return f"{cid} | {e} | {' '.join(specs)} | {' '.join(evs)}{tok}"


def _clean_fn(fn):
    import re
    prev = None
    while prev != fn:                      # drop template arguments
        prev = fn
        fn = re.sub(r"<[^<>]*>", "", fn)
    if fn.startswith("decltype"):          # "decltype (...) real::name(args)"
        depth = 0
        for i, ch in enumerate(fn):
            if ch == "(":
                depth += 1
            elif ch == ")":
                depth -= 1
                if depth == 0:
                    fn = fn[i + 1:].strip()
                    break
    fn = fn.split("(")[0].strip()
    fn = re.sub(r"^(void|auto|bool|int) ", "", fn)
    return fn.split(" ")[-1] if fn else fn


def crash_site(err):
    """stable site string from an ASan/UBSan report: error kind + the first two /repo frames"""
    import re
    kind = "crash"
    m = re.search(r"ERROR: AddressSanitizer: ([A-Za-z\-]+)", err)
    if m:
        kind = "asan " + m.group(1)
        if m.group(1) == "ABRT":
            kind = "terminate" if "terminate called" in err else "abort"
    elif "runtime error:" in err:
        kind = "ubsan " + err.split("runtime error:")[1].split("\n")[0].strip()[:60]
    elif "terminate called" in err:
        kind = "terminate"
    frames = []
    for m in re.finditer(r"#\d+ 0x[0-9a-f]+ in (.+?) (" + re.escape(vlib.REPO.rstrip("/")) + r"/\S+?):(\d+)", err):
        fn = _clean_fn(m.group(1))
        if fn and fn not in frames and not fn.startswith("std::") and not fn.startswith("_Z") and "operator" not in fn and "tag_invoke" not in fn:
            frames.append(fn)
        if len(frames) == (1 if kind == "terminate" else 2):
            break
    return kind + (" in " + " <- ".join(frames) if frames else "")


def run_lines(exe, lines, prefix, timeout=900, max_crashes=25, per_proc=240):
    """run all lines; the harness may crash on a case (sanitizer abort): record it and continue after it.
    returns (outputs aligned with lines — None for a crashed case, crashes[list of (index, site, stderr)])"""
    out = [None] * len(lines)
    crashes = []
    start = 0
    env = dict(os.environ, ASAN_OPTIONS="detect_leaks=0:abort_on_error=0:symbolize=1:handle_abort=1", UBSAN_OPTIONS="print_stacktrace=1")
    t0 = time.time()
    while start < len(lines):
        inp = "".join(prefix + l + "\n" for l in lines[start:])
        try:
            # per_proc: a single harness process that runs this long is stuck (e.g. the sanitizer runtime deadlocking inside its
            # own error report): it is killed and the case it was working on counts as a crash at site "hang …"
            r = subprocess.run([exe], input=inp, capture_output=True, text=True,
                               timeout=max(60, min(per_proc, timeout - (time.time() - t0))), env=env)
        except subprocess.TimeoutExpired as e:
            if time.time() - t0 >= timeout - 1:
                raise
            def _txt(b):
                return b.decode("utf-8", "replace") if isinstance(b, bytes) else (b or "")
            so, se = _txt(e.stdout), _txt(e.stderr)
            r = subprocess.CompletedProcess([exe], -9, so, "HANG: harness process killed after %ds without finishing\n" % per_proc + se)
        got = [x for x in r.stdout.split("\n")]
        # complete lines are those followed by a newline
        complete = got[:-1] if got else []
        n = min(len(complete), len(lines) - start)
        for k in range(n):
            out[start + k] = complete[k]
        if r.returncode == 0 and n == len(lines) - start:
            break
        if start + n >= len(lines):
            break
        crashes.append((start + n, crash_site(r.stderr), r.stderr[-3000:]))
        start = start + n + 1
        if len(crashes) >= max_crashes:
            break
    return out, crashes


class EventPart:
    """site_prefix distinguishes the property using this part (C01 looks at monitors, C05 at outcomes…)"""

    def __init__(self, name="evt", n_quick=3000, n_thorough=60000, max_size=12, max_size_thorough=25, std=None,
                 extra_flags=(), monitors_only=False, report_crashes=True, extra_cases=None, src_file="evt.cpp",
                 faults_quick=0, faults_thorough=0, tok_flag=True):
        self.tok_flag = tok_flag
        self.name, self.n_quick, self.n_thorough = name, n_quick, n_thorough
        self.max_size, self.max_size_thorough, self.std, self.extra_flags = max_size, max_size_thorough, std, extra_flags
        self.monitors_only = monitors_only
        self.report_crashes = report_crashes
        self.extra_cases = extra_cases
        self.src_file = src_file
        self.faults_quick, self.faults_thorough = faults_quick, faults_thorough

    def run(self, tier, seed, verdict, cov, driver):
        t0 = time.time()
        src = os.path.join(vlib.VERIF, "harness", "evt", self.src_file)
        try:
            exe = vlib.build_plain(src, ["inplace_stop_token.cpp"], self.extra_flags, self.std, sanitize="address,undefined", name="evt")
        except vlib.BuildError as e:
            verdict.add(f"{self.name}:build", "event harness does not build against the current tree: " + str(e)[-1500:],
                        dict(stream=self.name), found_input=False)
            return
        n = self.n_quick if tier == "quick" else self.n_thorough
        rng = random.Random(seed * 7919 + 11)
        g = Gen(rng, self.max_size if tier == "quick" else self.max_size_thorough, tok_flag=self.tok_flag)
        corpus = []
        cdir = os.path.join(vlib.VERIF, "corpus", "evt")
        if os.path.isdir(cdir):
            for fn in sorted(os.listdir(cdir)):
                corpus += [l.strip() for l in open(os.path.join(cdir, fn)) if l.strip() and not l.startswith("#")]
        extra = self.extra_cases(tier, seed) if self.extra_cases else []
        lines = corpus + extra + [g.case(i) for i in range(n)]
        try:
            impl, crashes = run_lines(exe, lines, "case ")
        except subprocess.TimeoutExpired:
            verdict.add(f"{self.name}: harness timeout", "event harness timed out", dict(stream=self.name), found_input=False)
            return
        cov["sanitizer_aborts"] = cov.get("sanitizer_aborts", 0) + len(crashes)
        for k, site, err in crashes:
            if not self.report_crashes:
                cov["skipped_sanitizer_aborts_reported_under_C02"] = cov.get("skipped_sanitizer_aborts_reported_under_C02", 0) + 1
                continue
            verdict.add(f"{self.name}: {site}", f"the real library aborted under ASan/UBSan on a generated expression: {lines[k]}",
                        dict(stream=self.name, case=lines[k], sanitizer_report=err), found_input=True)
        keep = [i for i, x in enumerate(impl) if x is not None]
        lines = [lines[i] for i in keep]; impl = [impl[i] for i in keep]
        moves = []
        for k, x in enumerate(impl):
            if " # moves=" in x:
                x, _, m = x.rpartition(" # moves=")
                impl[k] = x
                moves.append(int(m))
            else:
                moves.append(0)
        model = [driver.ask("ask calc run | " + (l[:-6] if l.endswith(" | tok") else l)) for l in lines]
        distinct = set()
        hist = {}
        mism = 0
        for l, a, b in zip(lines, impl, model):
            cov["evaluations"] += 1
            cov["traces_validated_against_impl"] += 1
            for tok in l.split("|")[1].replace("(", " ").replace(")", " ").split():
                if tok.isalpha():
                    hist[tok] = hist.get(tok, 0) + 1
            if "!!root" in a or "!!completion" in a or "!!leak" in a or "!!tvleak" in a or "!!errleak" in a or "!!cbreg" in a or "!!alloc" in a:
                verdict.add(f"{self.name}: monitor {([x for x in __import__('re').findall(r'!!([a-z-]+)', a) if x != 'bad-op'] or ['bad-op'])[0]}", f"implementation monitor fired: {a}",
                            dict(stream=self.name, case=l, impl=a, model=b), found_input=True)
            if a != b:
                mism += 1
                if not self.monitors_only:
                    # same events, different observation: is the ROOT OUTCOME different (property-level) or only the trace?
                    ra = [x for x in a.replace("|", ",").split(",") if x.strip().startswith("R=")]
                    rb = [x for x in b.replace("|", ",").split(",") if x.strip().startswith("R=")]
                    kind = "root outcome differs from the model" if ra != rb else "trace differs from the model"
                    verdict.add(f"{self.name}: {kind}", f"impl: {a}  model: {b}",
                                dict(stream=self.name, case=l, impl=a, model=b, broken="correspondence evt vs Calc.deliver"), found_input=(ra != rb))
            elif "lp" in a or " | " in a.split(" | ", 1)[-1]:
                distinct.add(a.split(" | ", 1)[-1] + "#" + l.split("|")[1])
        # ---- fault injection (C02): the K-th move of a tracked value throws; only the monitors judge
        nf = self.faults_quick if tier == "quick" else self.faults_thorough
        if nf:
            # a FIXED corpus (independent of VERIF_SEED), so that the set of failing sites on the unchanged
            # tree is the same on every run and the known findings recorded for it are complete
            fbase = [l.strip() for l in open(os.path.join(vlib.VERIF, "corpus", "evt_fault", "fixed.txt")) if l.strip() and not l.startswith("#")][:nf]
            fb_out, fb_cr = run_lines(exe, fbase, "case ")
            flines = []
            for l, a in zip(fbase, fb_out):
                if a is None or " # moves=" not in a:
                    continue
                m = int(a.rpartition(" # moves=")[2])
                for k in range(1, min(m, 10) + 1):
                    flines.append(f"{l} | throw={k}")
            try:
                fout, fcr = run_lines(exe, flines, "case ", timeout=2400, max_crashes=1000)
            except subprocess.TimeoutExpired:
                fout, fcr = [], []
                verdict.add(f"{self.name}: fault harness timeout", "fault-injection run timed out", dict(stream=self.name), found_input=False)
            cov["fault_cases"] = cov.get("fault_cases", 0) + len(flines)
            cov["fault_fired"] = cov.get("fault_fired", 0) + sum(1 for x in fout if x and "e77" in x)
            cov["evaluations"] += len(flines)
            for k, site, err in fcr:
                verdict.add(f"{self.name}: fault {site}", f"with an injected throwing move the real library aborted: {flines[k]}",
                            dict(stream=self.name, case=flines[k], sanitizer_report=err), found_input=True)
            for l, a in zip(flines, fout):
                if a and "!!" in a.replace("!!bad-op", ""):
                    what = a.replace("!!bad-op", "").split("!!")[1].split(",")[0].split(" ")[0].split("=")[0]
                    verdict.add(f"{self.name}: fault monitor {what}", f"with an injected throwing move: {a}",
                                dict(stream=self.name, case=l, impl=a), found_input=True)
            if flines:
                cov["samples"].append(dict(stream=self.name + "/fault", case=flines[0], observation=fout[0] if fout else None))
        cov["distinct_nontrivial"] += len(distinct)
        cov["rejected_histories"] += mism
        cov.setdefault("node_histogram", {}).update(hist)
        if lines:
            cov["samples"].append(dict(stream=self.name, case=lines[len(corpus)] if len(lines) > len(corpus) else lines[0],
                                       observation=impl[len(corpus)] if len(impl) > len(corpus) else impl[0]))
        cov["parts_wall_s"][self.name] = round(time.time() - t0, 1)
