"""ctx — event-level correspondence part WITH EXECUTION CONTEXTS (property C11): generated sender
expressions over via / typed_via / on / with_scheduler_affinity / with_query_value(get_scheduler) /
schedule(s) / schedule() and the usual algorithms are run through the REAL library
(harness/evt/ctx.cpp, rebuilt from the working tree, ASan+UBSan) and through the Lean calculus
(umdriver `ask ctx run`, lean/UnifexModel/Calc/Ctx.lean); the canonical per-event observations — each
item carries the context it was observed on — are compared."""
import os, random, subprocess, time
from . import vlib
from .evt import run_lines

UN = ["then", "uns", "wq", "era", "md", "dao"]
BIN = ["lv", "seq", "fin", "wa", "sw"]
CTXOPS = ["via", "tvia", "on", "wsa"]
NCTX = 4


class Gen:
    def __init__(self, rng, max_size=12, max_depth=5):
        self.r, self.max_size, self.max_depth = rng, max_size, max_depth
        self.nleaf = 0
        self.ntag = 0
        self.size = 0
        self.sleafs = []

    def fn(self):
        k = self.r.random()
        if k < 0.6:
            return f"add:{self.r.randint(0, 9)}"
        if k < 0.8:
            return f"thr:{self.r.randint(1, 9)}"
        return f"tie:{self.r.randint(0, 12)}:{self.r.randint(1, 9)}:{self.r.randint(0, 9)}"

    def sched(self):
        return "i" if self.r.random() < 0.15 else str(self.r.randint(0, NCTX - 1))

    def tag(self):
        self.ntag += 1
        return self.ntag

    def leafish(self, in_uns):
        self.size += 1
        k = self.r.random()
        if k < 0.35:
            self.nleaf += 1
            return f"(leaf {self.nleaf})"
        if k < 0.47:
            return f"(just {self.r.randint(0, 9)})"
        if k < 0.53:
            return f"(jerr {self.r.randint(1, 9)})"
        if k < 0.58:
            return "(jdone)"
        if k < 0.66:
            self.nleaf += 1
            self.sleafs.append(self.nleaf)
            return f"(sleaf {self.nleaf})"
        if k < 0.72 and not in_uns:
            return "(never)"
        if k < 0.88:
            return f"(sched {self.sched()} {self.tag()})"
        return f"(scur {self.tag()})"

    def expr(self, depth=0, in_uns=False):
        if depth >= self.max_depth or self.size >= self.max_size or self.r.random() < 0.15:
            return self.leafish(in_uns)
        self.size += 1
        k = self.r.random()
        if k < 0.33:
            op = self.r.choice(CTXOPS)
            s, j = self.sched(), self.tag()
            return f"({op} {s} {j} {self.expr(depth + 1, in_uns)})"
        if k < 0.62:
            op = self.r.choice(UN)
            if op == "then":
                return f"(then {self.fn()} {self.expr(depth + 1, in_uns)})"
            if op == "dao":
                return f"(dao {self.r.randint(0, 9)} {self.expr(depth + 1, in_uns)})"
            if op == "wq":
                return f"(wq {self.sched()} {self.expr(depth + 1, in_uns)})"
            if op == "uns":
                return f"(uns {self.expr(depth + 1, True)})"
            return f"({op} {self.expr(depth + 1, in_uns)})"
        op = self.r.choice(BIN)
        a = self.expr(depth + 1, in_uns)
        b = self.expr(depth + 1, in_uns)
        return f"({op} {a} {b})"

    def case(self, cid):
        self.nleaf = 0
        self.ntag = 0
        self.size = 0
        self.sleafs = []
        e = self.expr()
        specs, pend = [], []
        for i in range(1, self.nleaf + 1):
            if i in self.sleafs:
                continue
            k = self.r.random()
            if k < 0.3:
                ch = self.r.choice(["v", "v", "e", "d"])
                specs.append(f"{i}=i:{ch}{self.r.randint(0, 9) if ch != 'd' else ''}")
            elif k < 0.65:
                specs.append(f"{i}=p:ign"); pend.append(i)
            else:
                specs.append(f"{i}=p:done"); pend.append(i)
        evs = []
        if self.r.random() < 0.08:
            evs.append(f"x@{self.r.randint(0, NCTX)}")
        evs.append(f"s@{0 if self.r.random() < 0.75 else self.r.randint(1, NCTX)}")
        todo = []
        order = pend[:]
        self.r.shuffle(order)
        for i in order:
            if self.r.random() < 0.8:
                ch = self.r.choice(["v", "v", "v", "e", "d"])
                todo.append(f"c{i}:{ch}{self.r.randint(0, 9) if ch != 'd' else ''}@{self.r.randint(0, NCTX)}")
        for _ in range(self.r.randint(0, 2 + self.ntag)):
            todo.insert(self.r.randint(0, len(todo)), f"{self.r.choice('rrR')}@{self.r.randint(0, NCTX - 1)}")
        if self.r.random() < 0.45:
            todo.insert(self.r.randint(0, len(todo)), f"x@{self.r.randint(0, NCTX)}")
        evs += todo
        return f"{cid} | {e} | {' '.join(specs)} | {' '.join(evs)}"


def build_ctx(extra_flags=()):
    src = os.path.join(vlib.VERIF, "harness", "evt", "ctx.cpp")
    return vlib.build_plain(src, ["inplace_stop_token.cpp"], ["-Wno-deprecated-declarations"] + list(extra_flags), "gnu++20",
                            sanitize="address,undefined", name="ctx")


def contexts_of(obs):
    out = set()
    for ev in obs.split(" | ")[1:]:
        for it in ev.split(","):
            if "@" in it:
                out.add(it.rsplit("@", 1)[1])
    return out


class CtxPart:
    def __init__(self, name="ctx", n_quick=2500, n_thorough=50000, max_size=12, max_size_thorough=22):
        self.name, self.n_quick, self.n_thorough = name, n_quick, n_thorough
        self.max_size, self.max_size_thorough = max_size, max_size_thorough

    def run(self, tier, seed, verdict, cov, driver):
        t0 = time.time()
        try:
            exe = build_ctx()
        except vlib.BuildError as e:
            verdict.add(f"{self.name}:build", "context harness does not build against the current tree: " + str(e)[-1500:],
                        dict(stream=self.name), found_input=False)
            return
        n = self.n_quick if tier == "quick" else self.n_thorough
        rng = random.Random(seed * 7919 + 1111)
        g = Gen(rng, self.max_size if tier == "quick" else self.max_size_thorough)
        corpus = []
        cdir = os.path.join(vlib.VERIF, "corpus", "ctx")
        if os.path.isdir(cdir):
            for fn in sorted(os.listdir(cdir)):
                corpus += [l.strip() for l in open(os.path.join(cdir, fn)) if l.strip() and not l.startswith("#")]
        lines = corpus + [g.case(i) for i in range(n)]
        try:
            impl, crashes = run_lines(exe, lines, "case ")
        except subprocess.TimeoutExpired:
            verdict.add(f"{self.name}: harness timeout", "context harness timed out", dict(stream=self.name), found_input=False)
            return
        cov["sanitizer_aborts"] = cov.get("sanitizer_aborts", 0) + len(crashes)
        for k, site, err in crashes:
            verdict.add(f"{self.name}: {site}", f"the real library aborted under ASan/UBSan on a generated expression: {lines[k]}",
                        dict(stream=self.name, case=lines[k], sanitizer_report=err), found_input=True)
        keep = [i for i, x in enumerate(impl) if x is not None]
        lines = [lines[i] for i in keep]; impl = [impl[i] for i in keep]
        model = [driver.ask("ask ctx run | " + l) for l in lines]
        distinct, hist, mism = set(), {}, 0
        for l, a, b in zip(lines, impl, model):
            cov["evaluations"] += 1
            cov["traces_validated_against_impl"] += 1
            for tok in l.split("|")[1].replace("(", " ").replace(")", " ").split():
                if tok.isalpha() and len(tok) > 1:
                    hist[tok] = hist.get(tok, 0) + 1
            if "!!root" in a or "!!completion" in a or "!!leak" in a:
                verdict.add(f"{self.name}: monitor {a.split('!!')[1].split(',')[0].split(' ')[0].split('=')[0]}", f"implementation monitor fired: {a}",
                            dict(stream=self.name, case=l, impl=a, model=b), found_input=True)
            if a != b:
                mism += 1
                ra = [x for x in a.replace("|", ",").split(",") if x.strip().startswith("R=")]
                rb = [x for x in b.replace("|", ",").split(",") if x.strip().startswith("R=")]
                kind = "root completion (outcome or context) differs from the model" if ra != rb else "trace differs from the model"
                verdict.add(f"{self.name}: {kind}", f"impl: {a}  model: {b}",
                            dict(stream=self.name, case=l, impl=a, model=b, broken="correspondence ctx.cpp vs Ctx.step"), found_input=(ra != rb))
            elif len(contexts_of(a)) >= 2:
                distinct.add(a.split(" | ", 1)[-1] + "#" + l.split("|")[1])
        cov["distinct_nontrivial"] += len(distinct)
        cov["rejected_histories"] += mism
        cov.setdefault("node_histogram", {}).update(hist)
        if lines:
            cov["samples"].append(dict(stream=self.name, case=lines[len(corpus)] if len(lines) > len(corpus) else lines[0],
                                       observation=impl[len(corpus)] if len(impl) > len(corpus) else impl[0]))
        cov["parts_wall_s"][self.name] = round(time.time() - t0, 1)
