"""gen_typed — the TYPED corpus of property C11 (DESIGN §3.2): concrete (non-erased) sender
expression types generated from the same grammar as tools/ctx.py.  For every expression the compiled
program prints sender_traits<S>::{blocking, is_always_scheduler_affine, sends_done}, the run-time
blocking(s), and runs it; the SAME expression (as an s-expression) goes to the Lean driver, which
evaluates the transcribed trait functions (`ask ctx traits`) and the calculus (`ask ctx runt`).

  python3 -m tools.gen_typed [seed] [n]     prints the generated C++ translation unit on stdout
"""
import hashlib, os, random, shutil, subprocess, sys, time
from concurrent.futures import ThreadPoolExecutor

NCTX = 4

# always part of the corpus: the basic shapes and the witnesses of the repaired trait defects
# (dematerialize∘materialize over a done-sending source, with_query_value replacing get_scheduler)
FIXED = [
    "(just 1)", "(jdone)", "(sleaf 1)", "(sched i 1)", "(sched 2 1)", "(scur 1)", "(never)",
    "(via 2 5 (just 1))", "(tvia 1 5 (just 1))", "(on 1 3 (scur 4))", "(on i 3 (just 4))",
    "(wsa 0 7 (via 2 1 (just 4)))", "(wsa 0 7 (just 4))", "(wsa i 7 (sched 1 2))",
    "(wa (sleaf 1) (just 2))", "(wa (sched 1 1) (just 2))", "(sw (just 1) (sched 1 2))",
    "(lv (just 1) (sched 2 3))", "(seq (sched i 1) (just 2))", "(fin (just 1) (sched i 2))",
    "(md (jdone))", "(md (just 3))", "(md (seq (jdone) (just 1)))", "(dao 3 (seq (jdone) (just 1)))", "(dao 3 (just 1))",
    "(wq 2 (scur 1))", "(on i 1 (wsa i 2 (via 2 3 (just 1))))", "(uns (sched 1 1))",
    "(then add:2 (via 1 1 (sleaf 3)))",
]


class TGen:
    """generates (s-expression, valued) pairs; `valued` = the sender type has the value type int
    (never_sender has none, which some parents cannot take)"""

    def __init__(self, rng, max_size=9, max_depth=4):
        self.r, self.max_size, self.max_depth = rng, max_size, max_depth

    def sched(self):
        return "i" if self.r.random() < 0.25 else str(self.r.randint(0, NCTX - 1))

    def tag(self):
        self.ntag += 1
        return self.ntag

    def leafish(self, in_uns, need_value):
        self.size += 1
        k = self.r.random()
        if k < 0.25:
            return f"(just {self.r.randint(0, 9)})"
        if k < 0.33 and not need_value:
            return "(jdone)"
        if k < 0.45:
            self.nleaf += 1
            return f"(sleaf {self.nleaf})"
        if k < 0.52 and not in_uns and not need_value:
            return "(never)"
        if k < 0.85:
            return f"(sched {self.sched()} {self.tag()})"
        return f"(scur {self.tag()})"

    def expr(self, depth=0, in_uns=False, need_value=True):
        if depth >= self.max_depth or self.size >= self.max_size or self.r.random() < 0.15:
            return self.leafish(in_uns, need_value)
        self.size += 1
        k = self.r.random()
        if k < 0.32:
            op = self.r.choice(["via", "tvia", "on", "wsa"])
            s, j = self.sched(), self.tag()
            return f"({op} {s} {j} {self.expr(depth + 1, in_uns, need_value)})"
        if k < 0.6:
            op = self.r.choice(["then", "uns", "wq", "md", "dao"])
            if op == "then":
                return f"(then add:{self.r.randint(0, 9)} {self.expr(depth + 1, in_uns, need_value)})"
            if op == "dao":
                return f"(dao {self.r.randint(0, 9)} {self.expr(depth + 1, in_uns, True)})"
            if op == "wq":
                return f"(wq {self.sched()} {self.expr(depth + 1, in_uns, need_value)})"
            if op == "uns":
                return f"(uns {self.expr(depth + 1, True, need_value)})"
            return f"(md {self.expr(depth + 1, in_uns, True)})"
        op = self.r.choice(["lv", "seq", "fin", "wa", "sw"])
        if op == "lv":
            return f"(lv {self.expr(depth + 1, in_uns, True)} {self.expr(depth + 1, in_uns, need_value)})"
        if op == "seq":
            return f"(seq {self.expr(depth + 1, in_uns, False)} {self.expr(depth + 1, in_uns, need_value)})"
        if op == "fin":
            return f"(fin {self.expr(depth + 1, in_uns, need_value)} {self.expr(depth + 1, in_uns, False)})"
        if op == "wa":
            return f"(wa {self.expr(depth + 1, in_uns, True)} {self.expr(depth + 1, in_uns, True)})"
        return f"(sw {self.expr(depth + 1, in_uns, need_value)} {self.expr(depth + 1, in_uns, False)})"

    def one(self):
        self.nleaf = 0
        self.ntag = 0
        self.size = 0
        return self.expr()


def corpus(seed, n):
    rng = random.Random(seed * 104729 + 7)
    g = TGen(rng)
    out = list(FIXED)
    seen = set(out)
    while len(out) < n:
        e = g.one()
        if e not in seen:
            seen.add(e); out.append(e)
    return out[:n]


# ---------------------------------------------------------------- s-expression -> C++
def parse(s):
    toks = s.replace("(", " ( ").replace(")", " ) ").split()
    pos = 0

    def node():
        nonlocal pos
        assert toks[pos] == "("
        pos += 1
        k = toks[pos]; pos += 1
        args, ch = [], []
        while toks[pos] != ")":
            if toks[pos] == "(":
                ch.append(node())
            else:
                args.append(toks[pos]); pos += 1
        pos += 1
        return (k, args, ch)
    return node()


def sched_cxx(s, j):
    return "inline_scheduler{}" if s == "i" else f"M({s}, {j})"


def cxx(n):
    k, a, ch = n
    c = [cxx(x) for x in ch]
    if k == "just": return f"just({a[0]})"
    if k == "jdone": return "then(just_done(), Z())"
    if k == "sleaf": return f"SyncLeaf{{g_w, {a[0]}}}"
    if k == "never": return "then(never_sender{}, Z())"
    if k == "sched": return f"then(schedule({sched_cxx(a[0], a[1])}), Z())"
    if k == "scur": return f"SCUR({a[0]})"
    if k == "then": return f"then({c[0]}, [](int x) noexcept {{ return x + {a[0].split(':')[1]}; }})"
    if k == "uns": return f"unstoppable({c[0]})"
    if k == "wq": return f"with_query_value({c[0]}, get_scheduler, {sched_cxx(a[0], -1)})"
    if k == "md": return f"dematerialize(materialize({c[0]}))"
    if k == "dao": return f"then(done_as_optional({c[0]}), [](std::optional<int> o) noexcept {{ return o ? *o : {a[0]}; }})"
    if k == "lv": return f"let_value({c[0]}, [](int&) {{ return {c[1]}; }})"
    if k == "seq": return f"sequence(then({c[0]}, DISC()), {c[1]})"
    if k == "fin": return f"finally({c[0]}, then({c[1]}, DISC()))"
    if k == "wa": return f"then(when_all({c[0]}, {c[1]}), WAC())"
    if k == "sw": return f"stop_when({c[0]}, then({c[1]}, DISC()))"
    if k == "via": return f"via({c[0]}, {sched_cxx(a[0], a[1])})"
    if k == "tvia": return f"typed_via({c[0]}, {sched_cxx(a[0], a[1])})"
    if k == "on": return f"on({sched_cxx(a[0], a[1])}, {c[0]})"
    if k == "wsa": return f"with_scheduler_affinity({c[0]}, {sched_cxx(a[0], a[1])})"
    raise ValueError(k)


def tu_source(items):
    """items: list of (id, sexpr)"""
    out = ['#include "typed_common.hpp"', ""]
    for i, e in items:
        out.append(f"// {i}: {e}")
        out.append(f"static void case_{i}(char cmd) {{ typed_case<true>({i}, cmd, [] {{ return {cxx(parse(e))}; }}); }}")
    out.append("const CaseEntry g_cases[] = {" + ", ".join(f"{{{i}, &case_{i}}}" for i, _ in items) + "};")
    out.append(f"const int g_ncases = {len(items)};")
    return "\n".join(out) + "\n"



# ---------------------------------------------------------------- the check part
def wsa_scoped(n, cur="0"):
    """every with_scheduler_affinity(e, s) names the scheduler lexically in scope (its contract)"""
    k, a, ch = n
    if k == "wsa":
        return a[0] == cur and wsa_scoped(ch[0], cur)
    if k in ("wq", "on"):
        return wsa_scoped(ch[0], a[0])
    return all(wsa_scoped(c, cur) for c in ch)


# POSITIVE compile checks: the run-time CPO blocking(s) must be well-formed for these senders (it was not
# before /repo 1851e17 — inside the friend tag_invoke the unqualified name `blocking` found the class's
# static data member — and recursed forever for let_done before b8af8c9); its value must be the static trait
PROBES = {
    "finally": "auto s = finally(just(1), just()); static_assert(blocking(s)() == sender_traits<decltype(s)>::blocking());",
    # (schedule(s)'s sender_for wrapper has no constexpr blocking: only well-formedness here, the value is
    #  compared at run time on every via / typed_via expression of the typed corpus)
    "via": "auto s = via(just(1), inline_scheduler{}); (void)blocking(s);",
    "let_value": "auto s = let_value(just(1), [](int&) { return just(2); }); static_assert(blocking(s)() == sender_traits<decltype(s)>::blocking());",
    "let_done": "auto s = let_done(just_done(), [] { return just(); }); static_assert(blocking(s)() == sender_traits<decltype(s)>::blocking());",
    "done_as_optional": "auto s = done_as_optional(just(1)); static_assert(blocking(s)() == sender_traits<decltype(s)>::blocking());",
}
PROBE_HDR = """#include <unifex/just.hpp>
#include <unifex/just_done.hpp>
#include <unifex/finally.hpp>
#include <unifex/via.hpp>
#include <unifex/let_value.hpp>
#include <unifex/let_done.hpp>
#include <unifex/done_as_optional.hpp>
#include <unifex/inline_scheduler.hpp>
#include <unifex/blocking.hpp>
using namespace unifex;
void probe() { %s }
"""


def compile_probe(vlib, name, body):
    """does `blocking(s)` compile for this sender?  (syntax-only, cached)"""
    src = PROBE_HDR % body
    key = hashlib.sha256((src + vlib.repo_hash()).encode()).hexdigest()[:20]
    d = os.path.join(vlib.BUILD, "probe_" + key)
    res = os.path.join(d, "result")
    if os.path.exists(res):
        return open(res).read().startswith("ok"), open(res).read()
    os.makedirs(d, exist_ok=True)
    f = os.path.join(d, name + ".cpp")
    open(f, "w").write(src)
    r = subprocess.run([vlib.GXX, "-std=gnu++17", "-DNDEBUG", "-I" + os.path.join(vlib.REPO, "include"), "-fsyntax-only", f],
                       capture_output=True, text=True)
    errs = [l for l in r.stderr.split("\n") if "error:" in l][:2]
    txt = "ok" if r.returncode == 0 else "fail " + " / ".join(e.strip()[:300] for e in errs)
    open(res, "w").write(txt)
    return r.returncode == 0, txt


class TypedPart:
    def __init__(self, name="typed", n_quick=128, n_thorough=1500, per_tu=16):
        self.name, self.n_quick, self.n_thorough, self.per_tu = name, n_quick, n_thorough, per_tu

    def build_all(self, vlib, exprs):
        hdir = os.path.join(vlib.VERIF, "harness", "evt")
        hdrs = ["ctx_common.hpp", "typed_common.hpp"]
        h = hashlib.sha256(("\n".join(exprs) + "".join(open(os.path.join(hdir, x)).read() for x in hdrs)).encode()).hexdigest()[:16]
        gdir = os.path.join(vlib.BUILD, "typed_src_" + h)
        os.makedirs(gdir, exist_ok=True)
        for x in hdrs:
            shutil.copyfile(os.path.join(hdir, x), os.path.join(gdir, x))
        tus = []
        for k in range(0, len(exprs), self.per_tu):
            items = [(i, exprs[i]) for i in range(k, min(len(exprs), k + self.per_tu))]
            path = os.path.join(gdir, f"tu_{k // self.per_tu}.cpp")
            src = tu_source(items)
            if not os.path.exists(path) or open(path).read() != src:
                open(path, "w").write(src)
            tus.append((path, items))

        def build(t):
            try:
                return vlib.build_plain(t[0], ["inplace_stop_token.cpp"], ["-O0", "-Wno-deprecated-declarations"], "gnu++20",
                                        sanitize="address", name="typed"), None
            except vlib.BuildError as e:
                return None, str(e)
        with ThreadPoolExecutor(max_workers=max(1, min(4, vlib.NPROC))) as ex:
            exes = list(ex.map(build, tus))
        # a compiler killed for lack of memory (busy machine) is not a property of the tree: retry those alone
        for k, (exe, err) in enumerate(exes):
            if exe is None and ("error:" not in err or "Killed" in err or "internal compiler error" in err):
                exes[k] = build(tus[k])
        return tus, exes

    def run(self, tier, seed, verdict, cov, driver):
        from . import vlib
        from .evt import run_lines
        t0 = time.time()
        n = self.n_quick if tier == "quick" else self.n_thorough
        # the quick corpus does not depend on VERIF_SEED (so that its build is cached); thorough does
        exprs = corpus(0 if tier == "quick" else seed, n)
        for name, body in PROBES.items():
            ok, txt = compile_probe(vlib, name, body)
            cov["evaluations"] += 1
            if not ok:
                verdict.add(f"{self.name}: blocking(s) does not compile (or is not the static trait in a constant expression) for {name} senders",
                            "the run-time CPO unifex::blocking(s) is ill-formed or inconsistent: " + txt,
                            dict(stream=self.name, probe=body, compiler=txt), found_input=True)
        tus, exes = self.build_all(vlib, exprs)
        stat = dict(exprs=0, rb_checked=0, rb_skipped=0, blocking_hist={}, affine=0, sends_done_false=0, multi_context=0)
        for (path, items), (exe, err) in zip(tus, exes):
            if exe is None:
                errs = [l.strip()[:300] for l in err.split("\n") if "error:" in l][:3]
                verdict.add(f"{self.name}:build", f"typed corpus translation unit {os.path.basename(path)} does not compile against the current tree: " + " / ".join(errs),
                            dict(stream=self.name, tu=path, exprs=[e for _, e in items]), found_input=False)
                continue
            lines = []
            for i, e in items:
                lines += [f"t {i}", f"b {i}", f"d {i}"]
            try:
                out, crashes = run_lines(exe, lines, "")
            except subprocess.TimeoutExpired:
                verdict.add(f"{self.name}: harness timeout", "typed corpus program timed out", dict(stream=self.name, tu=path), found_input=False)
                continue
            for k, site, err2 in crashes:
                i = int(lines[k].split()[1])
                cov["sanitizer_aborts"] = cov.get("sanitizer_aborts", 0) + 1
                what = {"t": "printing the traits of", "b": "evaluating blocking(s) on", "d": "running"}[lines[k][0]]
                if lines[k][0] == "b":
                    site = "blocking(s) aborts with " + site.split(" in ")[0]
                verdict.add(f"{self.name}: {site}", f"the program aborted while {what} {exprs[i]}",
                            dict(stream=self.name, expr=exprs[i], command=lines[k], sanitizer_report=err2), found_input=True)
            for idx, (i, e) in enumerate(items):
                t, b, d = out[3 * idx], out[3 * idx + 1], out[3 * idx + 2]
                stat["exprs"] += 1
                cov["evaluations"] += 1
                node = parse(e)
                if t is None or not t.startswith(f"T {i} "):
                    continue
                tr = t.split(" ", 2)[2]
                mt = driver.ask("ask ctx traits | " + e)
                if tr != mt:
                    verdict.add(f"{self.name}: static trait differs from the Lean transcription",
                                f"{e}: sender_traits = [{tr}]  Lean trait functions = [{mt}]",
                                dict(stream=self.name, expr=e, impl=tr, model=mt, broken="trait transcription Ctx.blocking/affine/sendsDone"), found_input=True)
                kv = dict(x.split("=") for x in tr.split())
                stat["blocking_hist"][kv["b"]] = stat["blocking_hist"].get(kv["b"], 0) + 1
                stat["affine"] += kv["a"] == "1"
                stat["sends_done_false"] += kv["d"] == "0"
                if b is not None and b.startswith(f"B {i} rb="):
                    rb = b.split("rb=")[1]
                    if rb == "skipped":
                        stat["rb_skipped"] += 1
                    else:
                        stat["rb_checked"] += 1
                        if rb == kv["b"]:
                            stat["rb_equal"] = stat.get("rb_equal", 0) + 1
                        elif kv["b"] == "maybe":
                            stat["rb_refined"] = stat.get("rb_refined", 0) + 1      # a run-time refinement of `maybe`
                        else:
                            verdict.add(f"{self.name}: blocking(s) inconsistent with sender_traits<S>::blocking",
                                        f"{e}: blocking(s) = {rb}, sender_traits<S>::blocking = {kv['b']}",
                                        dict(stream=self.name, expr=e, runtime=rb, static=kv["b"]), found_input=True)
                if d is None or not d.startswith(f"D {i} "):
                    continue
                cov["traces_validated_against_impl"] += 1
                obs, _, tail = d.partition(" # ")
                obs = obs.split(" ", 2)[2]
                dyn = dict(x.split("=") for x in tail.split())
                model = driver.ask(f"ask ctx runt | {i} | {e} | | s@0").split(" ", 1)[1]
                if obs != model:
                    verdict.add(f"{self.name}: trace differs from the model", f"{e}: impl {obs}  model {model}",
                                dict(stream=self.name, expr=e, impl=obs, model=model, broken="correspondence typed corpus vs Ctx.step"), found_input=False)
                if len(set(x.rsplit("@", 1)[1] for ev in obs.split(" | ") for x in ev.split(",") if "@" in x)) >= 2:
                    stat["multi_context"] += 1
                    cov["distinct_nontrivial"] += 1
                # the dynamic meaning of the declared traits, checked on the real run
                if kv["b"] in ("always_inline", "always") and (dyn["inl"] != "1" or dyn["ctx"] != "0"):
                    verdict.add(f"{self.name}: blocking {kv['b']} but not completed inside start() on the starting context",
                                f"{e}: {d}", dict(stream=self.name, expr=e, traits=tr, run=d), found_input=True)
                if kv["d"] == "0" and dyn["chan"] == "d":
                    verdict.add(f"{self.name}: sends_done=false but completed with done",
                                f"{e}: {d}", dict(stream=self.name, expr=e, traits=tr, run=d), found_input=True)
                if kv["a"] == "1" and dyn["ctx"] not in ("0", "-2") and wsa_scoped(node):
                    verdict.add(f"{self.name}: is_always_scheduler_affine but completed on a foreign context",
                                f"{e} (receiver's scheduler: context 0, started on context 0): {d}",
                                dict(stream=self.name, expr=e, traits=tr, run=d), found_input=True)
        cov["typed_corpus"] = stat
        if exprs:
            cov["samples"].append(dict(stream=self.name, expr=exprs[min(len(exprs) - 1, 40)]))
        cov["parts_wall_s"][self.name] = round(time.time() - t0, 1)


if __name__ == "__main__":
    seed = int(sys.argv[1]) if len(sys.argv) > 1 else 0
    n = int(sys.argv[2]) if len(sys.argv) > 2 else 32
    sys.stdout.write(tu_source(list(enumerate(corpus(seed, n)))))
