"""vlib — shared machinery of the /verif checks (build cache, Lean gates, driver, evidence)."""
import hashlib, json, os, re, subprocess, sys, time, glob, shlex

VERIF = os.path.dirname(os.path.dirname(os.path.abspath(__file__)))
REPO = os.environ.get("VERIF_REPO", "/repo")
LEAN = os.path.join(VERIF, "lean")
BUILD = os.path.join(VERIF, "build")
EVID = os.environ.get("VERIF_EVIDENCE_DIR") or os.path.join(VERIF, "evidence")   # VERIF_EVIDENCE_DIR: runs against scratch copies (seeded changes) must not overwrite the evidence of /repo
REPLAYS = os.path.join(VERIF, "replays")
NPROC = os.cpu_count() or 4
ALLOWED_AXIOMS = {"propext", "Classical.choice", "Quot.sound"}

for d in (BUILD, EVID, REPLAYS):
    os.makedirs(d, exist_ok=True)


def log(*a):
    print(*a, file=sys.stderr, flush=True)


def run(cmd, **kw):
    kw.setdefault("capture_output", True)
    kw.setdefault("text", True)
    return subprocess.run(cmd, **kw)


def sha_files(paths, extra=""):
    h = hashlib.sha256()
    for p in sorted(paths):
        h.update(p.encode())
        try:
            with open(p, "rb") as f:
                h.update(f.read())
        except OSError:
            h.update(b"<missing>")
    h.update(extra.encode())
    return h.hexdigest()[:20]


def repo_sources():
    out = []
    for root in ("include", "source"):
        for dp, _, fns in os.walk(os.path.join(REPO, root)):
            for fn in fns:
                out.append(os.path.join(dp, fn))
    return out


_repo_hash = None


def repo_hash():
    global _repo_hash
    if _repo_hash is None:
        _repo_hash = sha_files(repo_sources())
    return _repo_hash


# ------------------------------------------------------------------ C++ builds
GXX = "g++"
BASE_FLAGS = ["-std=gnu++17", "-O1", "-g0", "-DNDEBUG", "-pthread", "-I" + os.path.join(REPO, "include")]


def compile_objs(srcs, flags, outdir, tag):
    """compile each source to an object (in parallel), return object list"""
    procs, objs = [], []
    for s in srcs:
        o = os.path.join(outdir, tag + "_" + re.sub(r"[^A-Za-z0-9]", "_", os.path.relpath(s, "/")) + ".o")
        objs.append(o)
        if not os.path.exists(o):
            procs.append((s, o, subprocess.Popen([GXX] + flags + ["-c", s, "-o", o + ".tmp.o"], stdout=subprocess.PIPE, stderr=subprocess.STDOUT, text=True)))
    errs = []
    for s, o, p in procs:
        out, _ = p.communicate()
        if p.returncode != 0:
            errs.append((s, out))
        else:
            os.rename(o + ".tmp.o", o)
    return objs, errs


class BuildError(Exception):
    pass


class _dir_lock:
    """serialise builds into one cache directory (several checks may run in parallel and share a harness)"""
    def __init__(self, outdir):
        os.makedirs(os.path.dirname(outdir), exist_ok=True)
        self.path = outdir + ".lock"
    def __enter__(self):
        import fcntl
        self.f = open(self.path, "w")
        fcntl.flock(self.f, fcntl.LOCK_EX)
    def __exit__(self, *a):
        import fcntl
        fcntl.flock(self.f, fcntl.LOCK_UN)
        self.f.close()


def _link(cmd, exe):
    """link to a temporary name and rename: an existing `exe` is always complete"""
    tmp = exe + ".tmp%d" % os.getpid()
    r = run([tmp if c == exe else c for c in cmd])
    if r.returncode != 0:
        raise BuildError(r.stdout + r.stderr)
    os.rename(tmp, exe)


def build_rt(scn_cpp, lib_sources=(), extra_flags=(), std=None, extra_srcs=()):
    """Build an atomic-level harness: scenario + selected /repo sources compiled with
    -fsanitize=thread, linked against harness/rt/rt.cpp (no libtsan).  Cached by content.
    extra_srcs: further runtime files of harness/rt (e.g. rt_io.cpp, syscall interposition),
    compiled like rt.cpp (no sanitizer) and linked only into this harness."""
    rtdir = os.path.join(VERIF, "harness", "rt")
    scn = os.path.join(rtdir, scn_cpp) if not os.path.isabs(scn_cpp) else scn_cpp
    lib = [os.path.join(REPO, "source", s) for s in lib_sources]
    flags = list(BASE_FLAGS) + list(extra_flags)
    if std:
        flags = [f for f in flags if not f.startswith("-std=")] + ["-std=" + std]
        if "20" in std:
            flags.append("-fcoroutines")
    extra = [os.path.join(rtdir, s) if not os.path.isabs(s) else s for s in extra_srcs]
    key = sha_files([scn, os.path.join(rtdir, "rt.cpp"), os.path.join(rtdir, "rt.hpp"), os.path.join(rtdir, "rt_main.hpp")] + extra
                    + glob.glob(os.path.join(rtdir, "*.hpp")), repo_hash() + " ".join(flags) + " ".join(lib_sources))
    outdir = os.path.join(BUILD, key)
    exe = os.path.join(outdir, "harness")
    if os.path.exists(exe):
        return exe
    with _dir_lock(outdir):
        if os.path.exists(exe):
            return exe
        os.makedirs(outdir, exist_ok=True)
        tsan = flags + ["-fsanitize=thread", "-I" + rtdir]
        objs1, e1 = compile_objs([scn] + lib, tsan, outdir, "t")
        objs2, e2 = compile_objs([os.path.join(rtdir, "rt.cpp")] + extra, [f for f in flags if not f.startswith("-I" + REPO)] + ["-I" + rtdir], outdir, "r")
        if e1 or e2:
            raise BuildError("\n".join(f"{s}:\n{o}" for s, o in e1 + e2))
        _link([GXX, "-pthread", "-o", exe] + objs1 + objs2 + ["-ldl"], exe)
    return exe


def build_plain(src, lib_sources=(), extra_flags=(), std=None, sanitize=None, name="harness", extra_srcs=()):
    """Build an ordinary harness (no controlled scheduler)."""
    lib = [os.path.join(REPO, "source", s) for s in lib_sources]
    flags = list(BASE_FLAGS) + list(extra_flags)
    if std:
        flags = [f for f in flags if not f.startswith("-std=")] + ["-std=" + std]
        if "20" in std:
            flags.append("-fcoroutines")
    if sanitize:
        flags = [f for f in flags if f != "-g0"] + ["-g1", "-fsanitize=" + sanitize, "-fno-sanitize-recover=all", "-fno-omit-frame-pointer"]
    srcdir = os.path.dirname(src)
    key = sha_files([src] + list(extra_srcs) + glob.glob(os.path.join(srcdir, "*.hpp")), repo_hash() + " ".join(flags) + " ".join(lib_sources))
    outdir = os.path.join(BUILD, key)
    exe = os.path.join(outdir, name)
    if os.path.exists(exe):
        return exe
    with _dir_lock(outdir):
        if os.path.exists(exe):
            return exe
        os.makedirs(outdir, exist_ok=True)
        objs, errs = compile_objs([src] + list(extra_srcs) + lib, flags + ["-I" + srcdir], outdir, "p")
        if errs:
            raise BuildError("\n".join(f"{s}:\n{o}" for s, o in errs))
        link = [GXX, "-pthread", "-o", exe] + objs
        if sanitize:
            link += ["-fsanitize=" + sanitize]
        _link(link, exe)
    return exe


# ------------------------------------------------------------------ Lean gates
FORBIDDEN = re.compile(r"\b(sorry|admit|native_decide|bv_decide|implemented_by|unsafe)\b|^\s*axiom\s|maxHeartbeats\s+0")


def strip_comments(text):
    # remove /- ... -/ (nested) and -- comments
    out, i, depth = [], 0, 0
    while i < len(text):
        if text.startswith("/-", i):
            depth += 1; i += 2; continue
        if text.startswith("-/", i) and depth:
            depth -= 1; i += 2; continue
        if depth:
            if text[i] == "\n":
                out.append("\n")
            i += 1; continue
        if text.startswith("--", i):
            while i < len(text) and text[i] != "\n":
                i += 1
            continue
        out.append(text[i]); i += 1
    return "".join(out)


def grep_forbidden(files):
    hits = []
    for f in files:
        try:
            txt = strip_comments(open(f).read())
        except OSError:
            continue
        for n, line in enumerate(txt.split("\n"), 1):
            # ignore string literals
            l2 = re.sub(r'"[^"]*"', '""', line)
            if FORBIDDEN.search(l2):
                hits.append(f"{f}:{n}: {line.strip()}")
    return hits


def lean_files():
    return [p for p in glob.glob(os.path.join(LEAN, "UnifexModel", "**", "*.lean"), recursive=True)]


def lake_build(targets):
    t0 = time.time()
    r = run(["lake", "build"] + list(targets), cwd=LEAN)
    return r.returncode == 0, (r.stdout + r.stderr), time.time() - t0


def theorems_in(module_file):
    """names of theorems declared in a Props file (with their namespace)"""
    txt = strip_comments(open(module_file).read())
    ns = []
    names = []
    for line in txt.split("\n"):
        m = re.match(r"\s*namespace\s+(\S+)", line)
        if m:
            ns.append(m.group(1)); continue
        m = re.match(r"\s*end\s+(\S+)", line)
        if m and ns and ns[-1] == m.group(1):
            ns.pop(); continue
        m = re.match(r"\s*(?:private\s+|protected\s+)?theorem\s+(\S+)", line)
        if m:
            names.append(".".join(ns + [m.group(1)]))
    return names


def axiom_audit(module, thms):
    """#print axioms for each theorem; returns {thm: [axioms]} and raw output"""
    src = f"import {module}\n" + "\n".join(f"#print axioms {t}" for t in thms) + "\n"
    path = os.path.join(BUILD, f"audit_{module.replace('.', '_')}.lean")
    open(path, "w").write(src)
    r = run(["lake", "env", "lean", path], cwd=LEAN)
    out = r.stdout + r.stderr
    res = {}
    # output format: 'X' depends on axioms: [a, b]   or   'X' does not depend on any axioms
    for m in re.finditer(r"'([^']+)' depends on axioms: \[([^\]]*)\]", out.replace("\n ", " ").replace("\n", " ")):
        res[m.group(1)] = [a.strip() for a in m.group(2).split(",") if a.strip()]
    for m in re.finditer(r"'([^']+)' does not depend on any axioms", out):
        res[m.group(1)] = []
    return res, out, r.returncode


def proof_gate(prop_modules, extra_modules=(), leanchecker=False):
    """Build the Props modules, grep for forbidden constructs, audit axioms.
    Returns dict(ok, obligations, discharged, failures[list of str], theorems, axioms, cmd, wall)"""
    t0 = time.time()
    res = dict(ok=True, obligations=0, discharged=0, failures=[], theorems=[], axioms=set(), wall=0.0)
    mods = list(prop_modules) + list(extra_modules)
    ok, out, _ = lake_build(mods + ["umdriver"])
    if not ok:
        res["ok"] = False
        errs = [l for l in out.split("\n") if "error" in l][:10]
        res["failures"].append("lake build failed: " + " / ".join(errs))
    hits = grep_forbidden(lean_files())
    if hits:
        res["ok"] = False
        res["failures"].append("forbidden construct in Lean sources: " + "; ".join(hits[:5]))
    for mod in prop_modules:
        f = os.path.join(LEAN, mod.replace(".", "/") + ".lean")
        thms = theorems_in(f)
        res["obligations"] += len(thms)
        res["theorems"] += thms
        if not ok:
            continue
        ax, raw, rc = axiom_audit(mod, thms)
        for t in thms:
            if t not in ax:
                res["ok"] = False
                res["failures"].append(f"theorem {t}: no axiom report (does not check)")
                continue
            bad = set(ax[t]) - ALLOWED_AXIOMS
            res["axioms"] |= set(ax[t])
            if bad:
                res["ok"] = False
                res["failures"].append(f"theorem {t} depends on disallowed axioms {sorted(bad)}")
            else:
                res["discharged"] += 1
        if leanchecker and ok:
            r = run(["lake", "env", "leanchecker", mod], cwd=LEAN)
            if r.returncode != 0:
                res["ok"] = False
                res["failures"].append(f"leanchecker {mod} failed: {(r.stdout + r.stderr)[-300:]}")
    res["axioms"] = sorted(res["axioms"])
    res["cmd"] = "cd lean && lake build " + " ".join(mods) + " && lake env lean <#print axioms of every theorem>" + (" && lake env leanchecker <module>" if leanchecker else "")
    res["wall"] = time.time() - t0
    return res


# ------------------------------------------------------------------ driver
class Driver:
    def __init__(self):
        self.exe = os.path.join(LEAN, ".lake", "build", "bin", "umdriver")
        if not os.path.exists(self.exe):
            ok, out, _ = lake_build(["umdriver"])
            if not ok:
                raise BuildError("umdriver build failed:\n" + out[-2000:])
        self.p = subprocess.Popen([self.exe], stdin=subprocess.PIPE, stdout=subprocess.PIPE, text=True, bufsize=1)

    def ask(self, line):
        self.p.stdin.write(line.replace("\n", " ") + "\n")
        self.p.stdin.flush()
        return self.p.stdout.readline().rstrip("\n")

    def close(self):
        try:
            self.p.stdin.close(); self.p.wait(timeout=5)
        except Exception:
            self.p.kill()


# ------------------------------------------------------------------ rt harness runs
def run_rt(exe, scenario, mode="dfs", preemptions=2, max_execs=20000, seed=1, replay=None, timeout=None, extra=()):
    cmd = [exe, "--scenario", scenario, "--mode", mode, "--preemptions", str(preemptions), "--max-execs", str(max_execs), "--seed", str(seed)] + list(extra)
    if replay is not None:
        cmd = [exe, "--scenario", scenario, "--replay", replay] + list(extra)
    if timeout is None:
        # a harness that hangs (the scheduler cannot detect a hang outside its control, e.g. a lost OS-level wake-up)
        # is reported as "harness timeout"; the quick tier must stay quick even on a broken tree
        timeout = 300 if os.environ.get("VERIF_TIER_EFFECTIVE", "quick") == "quick" else 3600
    try:
        r = run(cmd, timeout=timeout)
    except subprocess.TimeoutExpired:
        return dict(hist=[], fails=[("-", "harness timeout", "")], stats={}, rc=-1, cmd=cmd)
    hist, fails, stats = [], [], {}
    for line in r.stdout.split("\n"):
        if line.startswith("H "):
            head, _, h = line.partition(" | ")
            _, scn, cnt, sched = head.split(" ", 3)
            hist.append((int(cnt), sched, h))
        elif line.startswith("F "):
            parts = line[2:].split(" | ", 2)
            scn, sched = parts[0].split(" ", 1)
            fails.append((sched, parts[1] if len(parts) > 1 else "", parts[2] if len(parts) > 2 else ""))
        elif line.startswith("S "):
            for kv in line.split()[2:]:
                k, _, v = kv.partition("=")
                stats[k] = int(v)
    if r.returncode not in (0, 1):
        fails.append(("-", f"harness crashed rc={r.returncode}: {(r.stderr or '')[-400:]}", ""))
    return dict(hist=hist, fails=fails, stats=stats, rc=r.returncode, cmd=cmd)


# ------------------------------------------------------------------ findings / evidence / verdict
def known_findings(prop):
    p = os.path.join(VERIF, "known_findings.json")
    if not os.path.exists(p):
        return []
    data = json.load(open(p))
    return [f for f in data.get("findings", []) if f.get("property") == prop and f.get("status") == "open"]


def write_replay(prop, name, payload):
    path = os.path.join(REPLAYS, f"{prop}_{name}.json")
    json.dump(payload, open(path, "w"), indent=1)
    return path


def write_evidence(prop, tier, seed, coverage, assumptions, wall, violations, level="proof"):
    ev = dict(property_id=prop, tier=tier, seed=seed, level=level, coverage=coverage, assumptions=assumptions,
              wall_s=round(wall, 2), violations=violations)
    json.dump(ev, open(os.path.join(EVID, f"{prop}.json"), "w"), indent=1)


class Verdict:
    """collects violations of one check run; prints VIOLATION / KNOWN-FINDING lines; exit code"""

    def __init__(self, prop):
        self.prop = prop
        self.violations = []   # (site, what, replay_payload, found_input: bool)
        self.known = known_findings(prop)

    def is_known(self, site):
        return any(k.get("site") == site for k in self.known)

    def add(self, site, what, payload, found_input=True):
        self.violations.append((site, what, payload, found_input))

    def finish(self):
        nviol = 0
        printed_known = set()
        seen_sites = set()
        for site, what, payload, found in self.violations:
            if site in seen_sites:
                continue
            seen_sites.add(site)
            kf = next((k for k in self.known if k.get("site") == site), None)
            if kf is not None:
                if site not in printed_known:
                    print(f"KNOWN-FINDING: property={self.prop} {site}: {kf.get('what', what)}")
                    printed_known.add(site)
                continue
            nviol += 1
            path = write_replay(self.prop, re.sub(r"[^A-Za-z0-9_]", "_", site)[:60] + f"_{nviol}", dict(property=self.prop, site=site, what=what, **payload))
            tail = "" if found else " no-failing-input-found"
            print(f"VIOLATION property={self.prop} replay={path}{tail}")
            log(f"  {site}: {what}")
        return nviol
