"""stream — event-level correspondence part for the STREAM algorithms (C13): generated stream pipelines
are run through the REAL library (harness/evt/stream.cpp, rebuilt from the working tree, ASan+UBSan) and
through the Lean stream calculus (umdriver `ask stream run`); the canonical per-event observations are
compared and the harness's own monitors (cleanup exactly once / after the outstanding next / result
after cleanup / tracked operation objects) are evaluated independently of the model."""
import os, random, re, subprocess, time
from . import vlib

# UBSan without the vptr check: a second destructor call on a polymorphic operation object is reported by the
# harness's own tracked-object monitors (deterministic, model-independent) instead of a process abort
SANITIZE = ("address,null,alignment,bounds,signed-integer-overflow,shift,bool,enum,return,unreachable,pointer-overflow,"
            "object-size,integer-divide-by-zero,vla-bound,nonnull-attribute,returns-nonnull-attribute,builtin")

UNARY = ["tf", "na", "fi", "si", "te", "ca", "ad", "tffi"]
BINARY = ["tu", "situ"]


class Gen:
    def __init__(self, rng, max_size=7, max_depth=4):
        self.r, self.max_size, self.max_depth = rng, max_size, max_depth
        self.nsrc = 0
        self.size = 0
        self.trigs = []

    def fn(self):
        k = self.r.random()
        if k < 0.7:
            return f"add:{self.r.randint(0, 9)}"
        if k < 0.8:
            return f"thr:{self.r.randint(1, 9)}"
        return f"tie:{self.r.randint(0, 9)}:{self.r.randint(1, 9)}:{self.r.randint(0, 9)}"

    def pred(self):
        k = self.r.random()
        if k < 0.35:
            return "even"
        if k < 0.6:
            return f"ne:{self.r.randint(0, 9)}"
        if k < 0.85:
            return f"lt:{self.r.randint(0, 12)}"
        return f"tie:{self.r.randint(0, 9)}:{self.r.randint(1, 9)}"

    def cad(self):
        return "sw" if self.r.random() < 0.4 else f"mk:{self.r.randint(1, 9)}"

    def source(self, trigger=False):
        self.size += 1
        k = self.r.random()
        if k < (0.7 if trigger else 0.55):
            self.nsrc += 1
            if trigger:
                self.trigs.append(self.nsrc)
            return f"(src {self.nsrc})"
        if k < 0.85:
            lo = self.r.randint(0, 4) if self.r.random() < 0.5 else 0
            return f"(range {lo} {max(0, lo + self.r.randint(-1, 6))})"
        if k < 0.93:
            return f"(single {self.r.randint(0, 9)})"
        return "(never)"

    def expr(self, depth=0, trigger=False):
        if depth >= self.max_depth or self.size >= self.max_size or self.r.random() < (0.55 if trigger else 0.22):
            return self.source(trigger)
        self.size += 1
        if self.r.random() < 0.72:
            k = self.r.choice(UNARY)
            c = self.expr(depth + 1, trigger)
            if k in ("tf", "na"):
                return f"({k} {self.fn()} {c})"
            if k == "fi":
                return f"(fi {self.pred()} {c})"
            if k == "ca":
                return f"(ca {self.cad()} {c})"
            if k == "ad":
                return f"(ad {self.fn()} {self.cad()} {c})"
            if k == "tffi":
                return f"(tffi {self.fn()} {self.pred()} {c})"
            return f"({k} {c})"
        k = self.r.choice(BINARY)
        a = self.expr(depth + 1, trigger)
        b = self.expr(depth + 2, True)
        return f"({k} {a} {b})"

    def spec(self, i):
        n = self.r.choice([0, 1, 2, 3, 3, 4, 5, 6])
        ents = []
        trig = i in self.trigs
        for j in range(n):
            k = self.r.random()
            mode = "i" if k < (0.2 if trig else 0.45) else ("p" if k < 0.75 else "q")
            c = self.r.random()
            if c < 0.8:
                ents.append(f"{mode}v{self.r.randint(0, 9)}")
            elif c < 0.9:
                ents.append(f"{mode}e{self.r.randint(1, 9)}")
            else:
                ents.append(f"{mode}d")
        c = self.r.random()
        clean = ("i" if c < 0.55 else "p") + ("d" if self.r.random() < 0.8 else f"e{self.r.randint(1, 9)}")
        return f"{i}={','.join(ents)}/{clean}"

    def case(self, cid):
        self.nsrc = 0
        self.size = 0
        self.trigs = []
        e = self.expr()
        specs = [self.spec(i) for i in range(1, self.nsrc + 1)]
        k = self.r.random()
        if k < 0.45:
            cons = f"red:{self.r.randint(0, 9)}:{self.r.choice([1, 10, 10, 31])}"
            if self.r.random() < 0.15:
                cons += f":{self.r.randint(0, 9)}:{self.r.randint(1, 9)}"
        elif k < 0.65:
            cons = "fe" + (f":{self.r.randint(0, 9)}:{self.r.randint(1, 9)}" if self.r.random() < 0.15 else "")
        else:
            cons = "man"
        evs = []
        ids = list(range(1, self.nsrc + 1)) or [1]
        if cons == "man":
            n = self.r.randint(0, 12)
            stop_at = self.r.randint(0, n) if self.r.random() < 0.5 else -1
            for j in range(n):
                if j == stop_at:
                    evs.append("stop")
                k = self.r.random()
                if k < 0.5:
                    evs.append("next")
                elif k < 0.85:
                    evs.append(f"n{self.r.choice(ids)}")
                elif k < 0.93:
                    evs.append(f"k{self.r.choice(ids)}")
                else:
                    evs.append("cleanup")
        else:
            if self.r.random() < 0.08:
                evs.append("stop")
            evs.append("start")
            n = self.r.randint(0, 10)
            stop_at = self.r.randint(0, n) if self.r.random() < 0.5 else -1
            for j in range(n):
                if j == stop_at:
                    evs.append("stop")
                k = self.r.random()
                if k < 0.8:
                    evs.append(f"n{self.r.choice(ids)}")
                else:
                    evs.append(f"k{self.r.choice(ids)}")
            if stop_at == n:
                evs.append("stop")
        return f"{cid} | {cons} | {e} | {' '.join(specs)} | {' '.join(evs)}"


def crash_site(err):
    """stable site string from an ASan/UBSan report: error kind (addresses removed) + the first two /repo frames"""
    kind = "crash"
    m = re.search(r"ERROR: AddressSanitizer: ([a-z\-]+)", err)
    if m:
        kind = "asan " + m.group(1)
    elif "runtime error:" in err:
        msg = err.split("runtime error:")[1].split("\n")[0].strip()
        kind = "ubsan " + re.sub(r"0x[0-9a-f]+", "ADDR", msg)[:60]
    frames = []
    for m in re.finditer(r"#\d+ 0x[0-9a-f]+ in (.+?) (" + re.escape(vlib.REPO.rstrip("/")) + r"/\S+?):(\d+)", err):
        fn = m.group(1)
        fn = re.sub(r"<.*", "", fn)            # drop template arguments
        fn = fn.split("(")[0]
        if fn not in frames and not fn.startswith("std::"):
            frames.append(fn)
        if len(frames) == 2:
            break
    return kind + (" in " + " <- ".join(frames) if frames else "")


def run_lines(exe, lines, prefix, timeout=900, max_crashes=60):
    """run all lines; the harness may crash on a case (sanitizer abort): record it and continue after it.
    The bulk run does not symbolize (fast); a crashing case is re-run alone with symbolization to get its site.
    returns (outputs aligned with lines — None for a crashed case, crashes[list of (index, site, stderr)])"""
    out = [None] * len(lines)
    crashes = []
    start = 0
    env = dict(os.environ, ASAN_OPTIONS="detect_leaks=0:abort_on_error=0:symbolize=0", UBSAN_OPTIONS="print_stacktrace=0")
    env1 = dict(os.environ, ASAN_OPTIONS="detect_leaks=0:abort_on_error=0:symbolize=1", UBSAN_OPTIONS="print_stacktrace=1")
    t0 = time.time()
    while start < len(lines):
        inp = "".join(prefix + l + "\n" for l in lines[start:])
        r = subprocess.run([exe], input=inp, capture_output=True, text=True, timeout=max(60, timeout - (time.time() - t0)), env=env)
        complete = r.stdout.split("\n")[:-1]
        n = min(len(complete), len(lines) - start)
        for k in range(n):
            out[start + k] = complete[k]
        if r.returncode == 0 and n == len(lines) - start:
            break
        if start + n >= len(lines):
            break
        r1 = subprocess.run([exe], input=prefix + lines[start + n] + "\n", capture_output=True, text=True, timeout=120, env=env1)
        crashes.append((start + n, crash_site(r1.stderr or r.stderr), (r1.stderr or r.stderr)[-3000:]))
        start = start + n + 1
        if len(crashes) > max_crashes:
            break
    return out, crashes


# monitors whose firing means the real code has left defined behaviour: the trace after it is not compared
UB_MONITORS = ("op-destroyed-while-running", "use-after-destroy")


def split_monitors(line):
    """returns (trace without monitor tokens, [monitor names])"""
    segs = line.split(" | ")
    out, mons = [segs[0]], []
    for seg in segs[1:]:
        toks = seg.split(",")
        m = [t for t in toks if t.startswith("!!")]
        rest = [t for t in toks if not t.startswith("!!")]
        mons += [re.sub(r"([:=]-?\d+|:[A-Za-z])$", "", t[2:]) for t in m]
        if rest:
            out.append(",".join(rest))
        elif not all(t.startswith(("!!op-never-destroyed", "!!leak")) for t in m):
            out.append("-")       # an event whose only observation was a monitor (the end-of-case monitors are dropped)
    return " | ".join(out), mons


def primary_monitors(mons, stuck=False):
    """drop monitors that are mere consequences of another one in the same case"""
    s = list(dict.fromkeys(mons))
    has = lambda p: any(m.startswith(p) for m in s)
    if stuck:   # an operation that never completes is never destroyed; reported as `stuck`
        s = [m for m in s if not m.startswith(("op-never-destroyed", "leak"))]
    if has("op-destroyed-while-running"):
        s = [m for m in s if not m.startswith(("use-after-destroy", "op-never-destroyed", "leak", "op-destroyed-twice", "result-"))]
    if has("op-destroyed-twice"):
        s = [m for m in s if not m.startswith(("op-never-destroyed", "leak"))]
    if has("op-never-destroyed"):
        s = [m for m in s if not m.startswith("leak")]
    return s


class StreamPart:
    def __init__(self, name="stream", n_quick=6000, n_thorough=60000, max_size=7, max_size_thorough=12):
        self.name, self.n_quick, self.n_thorough = name, n_quick, n_thorough
        self.max_size, self.max_size_thorough = max_size, max_size_thorough

    def run(self, tier, seed, verdict, cov, driver):
        t0 = time.time()
        src = os.path.join(vlib.VERIF, "harness", "evt", "stream.cpp")
        try:
            exe = vlib.build_plain(src, ["inplace_stop_token.cpp"], (), None, sanitize=SANITIZE, name="stream")
        except vlib.BuildError as e:
            verdict.add(f"{self.name}:build", "stream harness does not build against the current tree: " + str(e)[-1500:],
                        dict(stream=self.name), found_input=False)
            return
        n = self.n_quick if tier == "quick" else self.n_thorough
        rng = random.Random(seed * 7919 + 13)
        g = Gen(rng, self.max_size if tier == "quick" else self.max_size_thorough, 4 if tier == "quick" else 5)
        corpus = []
        cdir = os.path.join(vlib.VERIF, "corpus", "stream")
        if os.path.isdir(cdir):
            for fn in sorted(os.listdir(cdir)):
                corpus += [l.strip() for l in open(os.path.join(cdir, fn)) if l.strip() and not l.startswith("#")]
        lines = corpus + [g.case(i) for i in range(n)]
        try:
            impl, crashes = run_lines(exe, lines, "case ")
        except subprocess.TimeoutExpired:
            verdict.add(f"{self.name}: harness timeout", "stream harness timed out", dict(stream=self.name), found_input=False)
            return
        cov["sanitizer_aborts"] = cov.get("sanitizer_aborts", 0) + len(crashes)
        for k, site, err in crashes:
            verdict.add(f"{self.name}: {site}", f"the real library aborted under ASan/UBSan on a generated pipeline: {lines[k]}",
                        dict(stream=self.name, case=lines[k], sanitizer_report=err), found_input=True)
        keep = [i for i, x in enumerate(impl) if x is not None]
        lines = [lines[i] for i in keep]; impl = [impl[i] for i in keep]
        model = [driver.ask("ask stream run | " + l) for l in lines]
        distinct = set()
        hist, cons_hist = {}, {}
        mism = 0
        stuck_manual = 0
        for l, a, b in zip(lines, impl, model):
            cov["evaluations"] += 1
            cov["traces_validated_against_impl"] += 1
            parts = l.split("|")
            for tok in parts[2].replace("(", " ").replace(")", " ").split():
                if tok.isalpha():
                    hist[tok] = hist.get(tok, 0) + 1
            ck = parts[1].strip().split(":")[0]
            cons_hist[ck] = cons_hist.get(ck, 0) + 1
            trace, mons = split_monitors(a)
            ub = any(m.startswith(UB_MONITORS) for m in mons)
            for m in primary_monitors(mons, trace.endswith("stuck")):
                verdict.add(f"{self.name}: monitor {m}", f"implementation monitor fired: {a}",
                            dict(stream=self.name, case=l, impl=a, model=b), found_input=True)
            if "!!fuel" in b or b.startswith("bad-case"):
                verdict.add(f"{self.name}: model cannot run the case", f"model: {b}", dict(stream=self.name, case=l, model=b), found_input=False)
                continue
            if ub:
                continue
            if trace.endswith("stuck"):
                if ck == "man" and trace == b:
                    stuck_manual += 1
                else:
                    verdict.add(f"{self.name}: consumer never completes", f"impl: {a}  model: {b}",
                                dict(stream=self.name, case=l, impl=a, model=b), found_input=True)
                    continue
            if trace != b:
                mism += 1
                pick = lambda s: [x for x in s.replace("|", ",").split(",") if x.strip()[:2] in ("R=", "N=", "C=") or x.strip().startswith("e")]
                ra, rb = pick(trace), pick(b)
                kind = "delivered elements / results differ from the model" if ra != rb else "trace differs from the model"
                verdict.add(f"{self.name}: {kind}", f"impl: {a}  model: {b}",
                            dict(stream=self.name, case=l, impl=a, model=b, broken="correspondence stream.cpp vs Stream.rootStep"),
                            found_input=(ra != rb))
            elif "np" in a or a.count(" | ") > 1:
                distinct.add(trace.split(" | ", 1)[-1] + "#" + parts[2])
        cov["distinct_nontrivial"] += len(distinct)
        cov["rejected_histories"] += mism
        cov.setdefault("node_histogram", {}).update(hist)
        cov.setdefault("consumer_histogram", {}).update(cons_hist)
        cov["manual_cleanup_without_next_on_take_until_never_completes"] = stuck_manual
        if lines:
            cov["samples"].append(dict(stream=self.name, case=lines[len(corpus)] if len(lines) > len(corpus) else lines[0],
                                       observation=impl[len(corpus)] if len(impl) > len(corpus) else impl[0]))
        cov["parts_wall_s"][self.name] = round(time.time() - t0, 1)
