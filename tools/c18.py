"""c18 — the differential parts of property C18 (type-erased wrappers are transparent).

AnyObjPart        generated construct/move/assign/swap/invoke/destroy sequences over tracked payloads
                  through the REAL basic_any_object (5 instantiations) / any_unique
                  (harness/evt/anyobj.cpp, ASan+UBSan) and through the Lean state machine
                  (Proto/AnyObject.lean, `ask anyobj run`); outputs must be identical, harness
                  monitors (double destruction, copy, leak, wrong allocator/size, misalignment) must
                  stay silent.
WrapInsertPart    generated sender expressions (tools/evt.Gen, the C05 generator) are run on the REAL
                  library twice: as generated and with an extra `(era …)` any_sender_of layer inserted
                  at a random node; the canonical traces must be identical.
TokenAdapterPart  the same expressions on harness/evt/evt_tok.cpp, whose root receiver exposes a
                  harness stop token (not inplace_stop_token), so the outer any_sender_of goes through
                  inplace_stop_token_adapter: the adapter must be unsubscribed when the root receiver
                  is signalled, nothing may stay registered, and the trace (incl. stop notifications
                  reaching the leaves) must equal the Lean calculus.
DirectPart        small direct tests (harness/evt/anysched.cpp): any_scheduler / any_scheduler_ref
                  equality matches the wrapped schedulers, type_erased_stream yields what the wrapped
                  stream yields.
"""
import os, random, re, subprocess, time
from . import vlib, evt

CFGS = ["dflt", "small", "throw", "al64", "tiny", "wide", "unique"]
CLS = ["sn", "st", "lg", "oa"]
HERE = os.path.join(vlib.VERIF, "harness", "evt")


def run_lines(exe, lines, prefix, timeout=900, max_crashes=6):
    """evt.run_lines with a small cap on sanitizer aborts: every abort costs seconds (report + restart), and a handful of
    concrete aborting inputs is all a verdict needs.  Lines after the cap stay unvalidated (output None)."""
    out = [None] * len(lines)
    crashes = []
    start = 0
    env = dict(os.environ, ASAN_OPTIONS="detect_leaks=0:abort_on_error=0:symbolize=1", UBSAN_OPTIONS="print_stacktrace=1")
    t0 = time.time()
    while start < len(lines) and len(crashes) < max_crashes:
        inp = "".join(prefix + l + "\n" for l in lines[start:])
        r = subprocess.run([exe], input=inp, capture_output=True, text=True, timeout=max(60, timeout - (time.time() - t0)), env=env)
        complete = r.stdout.split("\n")[:-1]
        n = min(len(complete), len(lines) - start)
        for k in range(n):
            out[start + k] = complete[k]
        if (r.returncode == 0 and n == len(lines) - start) or start + n >= len(lines):
            break
        # stable site string: no addresses
        crashes.append((start + n, re.sub(r"0x[0-9a-f]+", "ADDR", evt.crash_site(r.stderr)), r.stderr[-3000:]))
        start = start + n + 1
    return out, crashes


# ------------------------------------------------------------------ any_object / any_unique sequences
class AnyGen:
    """type-directed generator: keeps a rough picture of which slots are engaged / moved-from so that
    most ops are valid; ~5% of the ops ignore that picture"""

    def __init__(self, rng):
        self.r = rng

    def mode(self):
        k = self.r.random()
        if k < 0.35:
            return "i"
        if k < 0.7:
            return "c"
        if k < 0.85:
            return f"ai{self.r.randint(2, 4)}"
        return f"ac{self.r.randint(2, 4)}"

    def ctor(self, j):
        return f"C:{j}:{self.r.choice(CLS)}:{self.r.randint(1, 99)}:{self.mode()}"

    def case(self, cid, cfg=None):
        r = self.r
        cfg = cfg or r.choice(CFGS)
        n = r.randint(1, 30)
        eng = [False] * 3
        moved = [False] * 3
        ops = []
        for _ in range(n):
            E = [i for i in range(3) if eng[i]]
            V = [i for i in range(3) if not eng[i]]
            if r.random() < 0.05:       # ignore the picture
                k = r.choice("CMAVSITDR")
                i, j = r.randint(0, 2), r.randint(0, 2)
            else:
                cand = []
                if V:
                    cand += ["C"] * (6 if not E else 3)
                if V and E:
                    cand += ["M"] * 3
                if E:
                    cand += ["A"] * 3 + ["I"] * 3 + ["T", "D", "D"]
                    if cfg != "unique":
                        cand += ["V"] * 2
                    else:
                        cand += ["S"] * 2
                cand += ["R"]
                k = r.choice(cand)
                if k == "C":
                    i = j = r.choice(V)
                elif k == "M":
                    j, i = r.choice(V), r.choice(E)
                elif k in "AS":
                    i = r.choice(E)
                    j = i if r.random() < 0.12 else r.choice(E)
                elif k in "IT":
                    pref = [x for x in E if not moved[x]] or E
                    i = j = r.choice(pref if r.random() < 0.8 else E)
                else:
                    i = j = r.choice(E) if E else 0
            if k == "C":
                ops.append(self.ctor(j));
                if not eng[j]: eng[j] = True; moved[j] = False
            elif k == "M":
                ops.append(f"M:{j}:{i}")
                if not eng[j] and eng[i] and i != j: eng[j] = True; moved[j] = moved[i]; moved[i] = True
            elif k == "A":
                ops.append(f"A:{i}:{j}")
                if eng[i] and eng[j] and i != j: moved[i] = moved[j]; moved[j] = True
            elif k == "V":
                ops.append(f"V:{i}:{r.choice(CLS)}:{r.randint(1, 99)}")
                if eng[i]: moved[i] = False
            elif k == "S":
                ops.append(f"S:{i}:{j}")
                if eng[i] and eng[j]: moved[i], moved[j] = moved[j], moved[i]
            elif k == "I":
                ops.append(f"I:{i}")
            elif k == "T":
                ops.append(f"T:{i}")
            elif k == "D":
                ops.append(f"D:{i}")
                if eng[i]: eng[i] = False
            else:
                ops.append("R")
        return f"{cid} | {cfg} | {' '.join(ops)}"

    def malformed(self, cid):
        """a valid-looking sequence with ~35% of the tokens damaged"""
        r = self.r
        line = self.case(cid)
        cid, cfg, ops = [x.strip() for x in line.split("|")]
        toks = ops.split()
        out = []
        for t in toks:
            if r.random() < 0.35:
                k = r.randint(0, 9)
                f = t.split(":")
                if k == 0:
                    t = t + ":1"
                elif k == 1 and len(f) > 1:
                    t = ":".join(f[:-1])
                elif k == 2 and len(f) > 1:
                    f[1] = str(r.choice([3, 4, 7, 10, 99, 1234567, 4294967296])); t = ":".join(f)
                elif k == 3:
                    t = r.choice(["X", "Z:0", "c:0:sn:1:i", "", ":", "I:", "I::0", "C:0:xx:1:i", "C:0:sn:1:z", "C:0:sn:1:ai", "C:0:sn:-1:i",
                                  "C:0:sn:1:ac1234567", "D:-0", "D:+1", "M:0", "A:1", "S:0:0:0", "R:0", "I:0x1", "I:01", "T:00", "V:0:sn", "V:0:sn:1x"]) or "Q"
                elif k == 4 and len(f) > 2:
                    f[2] = f[1]; t = ":".join(f)         # both operands the same slot
                elif k == 5:
                    t = t.lower()
                elif k == 6 and len(f) > 1:
                    f[1] = ""; t = ":".join(f)
                elif k == 7:
                    t = t.replace(":", ";")
                elif k == 8 and len(f) > 1:
                    f[1] = "0" + f[1]; t = ":".join(f)   # leading zero is still a number
                else:
                    t = "D:" + str(r.randint(0, 5))
            out.append(t)
        return f"{cid} | {cfg} | {' '.join(out)}"


def op_kind(tok):
    k = tok.split(":")[0]
    return k if k in list("CMAVSITDR") else "malformed"


class AnyObjPart:
    name = "anyobj"

    def __init__(self, n_quick=5000, n_thorough=150000, n_mal_quick=800, n_mal_thorough=20000):
        self.n_quick, self.n_thorough, self.n_mal_quick, self.n_mal_thorough = n_quick, n_thorough, n_mal_quick, n_mal_thorough

    def run(self, tier, seed, verdict, cov, driver):
        t0 = time.time()
        try:
            exe = vlib.build_plain(os.path.join(HERE, "anyobj.cpp"), [], (), None, sanitize="address,undefined", name="anyobj")
        except vlib.BuildError as e:
            verdict.add("anyobj:build", "any_object harness does not build against the current tree: " + str(e)[-1500:], dict(stream="anyobj"), found_input=False)
            return
        rng = random.Random(seed * 7919 + 18)
        g = AnyGen(rng)
        n = self.n_quick if tier == "quick" else self.n_thorough
        nm = self.n_mal_quick if tier == "quick" else self.n_mal_thorough
        corpus = []
        cdir = os.path.join(vlib.VERIF, "corpus", "anyobj")
        if os.path.isdir(cdir):
            for fn in sorted(os.listdir(cdir)):
                corpus += [l.strip() for l in open(os.path.join(cdir, fn)) if l.strip() and not l.startswith("#")]
        valid = [g.case(i) for i in range(n)]
        mal = [g.malformed(f"m{i}") for i in range(nm)]
        lines = corpus + valid + mal
        try:
            impl, crashes = run_lines(exe, lines, "case ")
        except subprocess.TimeoutExpired:
            verdict.add("anyobj: harness timeout", "any_object harness timed out", dict(stream="anyobj"), found_input=False)
            return
        cov["sanitizer_aborts"] = cov.get("sanitizer_aborts", 0) + len(crashes)
        for k, site, err in crashes:
            verdict.add(f"anyobj: {site}", f"the real wrapper aborted under ASan/UBSan on a generated op sequence: {lines[k]}",
                        dict(stream="anyobj", case=lines[k], sanitizer_report=err), found_input=True)
        hist, cfgh, lens = {}, {}, {}
        distinct = set()
        mism = 0
        res_hist = {}
        for idx, (l, a) in enumerate(zip(lines, impl)):
            if a is None:
                continue
            b = driver.ask("ask anyobj run | " + l)
            cov["evaluations"] += 1
            cov["traces_validated_against_impl"] += 1
            parts = l.split("|")
            toks = parts[2].split()
            is_mal = idx >= len(corpus) + len(valid)
            cfgh[parts[1].strip()] = cfgh.get(parts[1].strip(), 0) + 1
            if not is_mal:
                lens[len(toks)] = lens.get(len(toks), 0) + 1
            for t in toks:
                kk = op_kind(t)
                hist[kk] = hist.get(kk, 0) + 1
            for ent in a.split(" | ")[1:]:
                rr = ent.split("=")[-1].rstrip("0123456789") if "=" in ent else "?"
                res_hist[rr] = res_hist.get(rr, 0) + 1
            if "!!" in a:
                mon = a.split("!!")[1].split()[0].split(":")[0].split("=")[0]
                verdict.add(f"anyobj: monitor {mon}", f"implementation monitor fired: {a}", dict(stream="anyobj", case=l, impl=a, model=b), found_input=True)
            if a != b:
                mism += 1
                verdict.add("anyobj: trace differs from the model", f"impl: {a}  model: {b}",
                            dict(stream="anyobj", case=l, impl=a, model=b, broken="correspondence anyobj.cpp vs Proto.AnyObject.step"), found_input=True)
            elif " m" in a or "=threw" in a:
                distinct.add(parts[1].strip() + "#" + a.split(" | ", 1)[-1])
        cov["distinct_nontrivial"] += len(distinct)
        cov["rejected_histories"] += mism
        cov["anyobj_op_histogram"] = dict(sorted(hist.items()))
        cov["anyobj_result_histogram"] = dict(sorted(res_hist.items()))
        cov["anyobj_config_histogram"] = cfgh
        cov["anyobj_sequence_lengths"] = dict(min=min(lens) if lens else 0, max=max(lens) if lens else 0, cases=len(valid), malformed_cases=len(mal))
        k0 = len(corpus)
        if impl and impl[k0] is not None:
            cov["samples"].append(dict(stream="anyobj", case=lines[k0], observation=impl[k0]))
        cov["parts_wall_s"]["anyobj"] = round(time.time() - t0, 1)


# ------------------------------------------------------------------ wrapper insertion
def insert_era(rng, line):
    """wrap a random node of the expression in (era …)"""
    cid, e, sp, evs = line.split("|")
    e = e.strip()
    opens = [i for i, c in enumerate(e) if c == "("]
    i = rng.choice(opens)
    depth = 0
    for j in range(i, len(e)):
        if e[j] == "(":
            depth += 1
        elif e[j] == ")":
            depth -= 1
            if depth == 0:
                break
    e2 = e[:i] + "(era " + e[i:j + 1] + ")" + e[j + 1:]
    return f"{cid.strip()} | {e2} |{sp}|{evs}", e[i + 1:].split()[0].rstrip(")")


def tame(line):
    """let_value_with_stop_source around a leaf that completes inside its stop callback aborts under
    ASan WITHOUT any extra wrapper (known finding, reported under C02; every abort costs seconds):
    such cases keep their shape but the leaves ignore the stop notification instead."""
    p = line.split("|")
    # src = let_value_with_stop_source; rtk / lvt (added to the generator later) own an inplace_stop_source the same way
    if any(k in p[1] for k in ("(src", "(rtk", "(lvt")) and "p:done" in p[2]:
        p[2] = p[2].replace("p:done", "p:ign")
        return "|".join(p)
    return line


def evt_exe(name="evt", src="evt.cpp"):
    return vlib.build_plain(os.path.join(HERE, src), ["inplace_stop_token.cpp"], (), None, sanitize="address,undefined", name=name)


class WrapInsertPart:
    name = "wrapinsert"

    def __init__(self, n_quick=2000, n_thorough=40000):
        self.n_quick, self.n_thorough = n_quick, n_thorough

    def run(self, tier, seed, verdict, cov, driver):
        t0 = time.time()
        try:
            exe = evt_exe()
        except vlib.BuildError as e:
            verdict.add("wrapinsert:build", "event harness does not build against the current tree: " + str(e)[-1500:], dict(stream="wrapinsert"), found_input=False)
            return
        n = self.n_quick if tier == "quick" else self.n_thorough
        rng = random.Random(seed * 7919 + 181)
        g = evt.Gen(rng, 12 if tier == "quick" else 25)
        orig = [tame(g.case(i)) for i in range(n)]
        wrapped, where = [], {}
        for l in orig:
            w, node = insert_era(rng, l)
            wrapped.append(w)
            where[node] = where.get(node, 0) + 1
        try:
            a, ca = run_lines(exe, orig, "case ")
            # an expression that aborts WITHOUT the extra wrapper (sanitizer findings are C02's business)
            # says nothing about the wrapper: drop those pairs
            crashed_orig = {k for k, _, _ in ca}
            skipped = len(crashed_orig)
            keep = [k for k in range(len(orig)) if k not in crashed_orig and a[k] is not None]   # None: not run (abort cap reached)
            orig = [orig[k] for k in keep]; wrapped = [wrapped[k] for k in keep]; a = [a[k] for k in keep]
            b, cb = run_lines(exe, wrapped, "case ")
        except subprocess.TimeoutExpired:
            verdict.add("wrapinsert: harness timeout", "event harness timed out", dict(stream="wrapinsert"), found_input=False)
            return
        for k, site, err in cb:
            verdict.add(f"wrapinsert: {site}", f"only the wrapped expression aborted under ASan/UBSan: {wrapped[k]}",
                        dict(stream="wrapinsert", case=wrapped[k], original=orig[k], sanitizer_report=err), found_input=True)
        cov["sanitizer_aborts"] = cov.get("sanitizer_aborts", 0) + len(cb)
        cov["skipped_sanitizer_aborts_reported_under_C02"] = cov.get("skipped_sanitizer_aborts_reported_under_C02", 0) + skipped
        distinct = set()
        for lo, lw, x, y in zip(orig, wrapped, a, b):
            if x is None or y is None:
                continue
            cov["evaluations"] += 1
            cov["traces_validated_against_impl"] += 1
            if "!!root" in y or "!!completion" in y or "!!leak" in y:
                verdict.add(f"wrapinsert: monitor {y.split('!!')[1].split(',')[0].split(' ')[0]}", f"implementation monitor fired on the wrapped expression: {y}",
                            dict(stream="wrapinsert", case=lw, original=lo, impl=y), found_input=True)
            if x != y:
                ra = [t for t in x.replace("|", ",").split(",") if t.strip().startswith("R=")]
                rb = [t for t in y.replace("|", ",").split(",") if t.strip().startswith("R=")]
                kind = "root outcome changes when a wrapper is inserted" if ra != rb else "trace changes when a wrapper is inserted"
                verdict.add(f"wrapinsert: {kind}", f"original: {x}  wrapped: {y}",
                            dict(stream="wrapinsert", case=lw, original=lo, impl_original=x, impl_wrapped=y), found_input=True)
            elif "lp" in x or " | " in x.split(" | ", 1)[-1]:
                distinct.add(x.split(" | ", 1)[-1] + "#" + lw.split("|")[1])
        # the model side of the same statement (erase_transparent is a theorem; this checks that the
        # driver really evaluates the wrapped case): a sample of the pairs through `ask calc run`
        # the harness erases EVERY node with any_sender_of, so original vs wrapped compares n and n+1 layers; comparing the
        # real run with the calculus (where erase is transparent by definition) closes the gap "all layers wrong alike"
        for lo, lw, x in zip(orig, wrapped, a):
            mo = driver.ask("ask calc run | " + lo)
            if mo != driver.ask("ask calc run | " + lw):
                verdict.add("wrapinsert: model not transparent", "Calc.deliver differs for an expression with an inserted erase node (contradicts Props.C18.erase_transparent)",
                            dict(stream="wrapinsert", case=lw, original=lo), found_input=True)
            if x is not None and x != mo:
                cov["rejected_histories"] += 1
                verdict.add("wrapinsert: erased expression differs from the model", f"impl: {x}  model: {mo}",
                            dict(stream="wrapinsert", case=lo, impl=x, model=mo), found_input=True)
        cov["distinct_nontrivial"] += len(distinct)
        cov["wrapinsert_wrapped_node_histogram"] = dict(sorted(where.items()))
        if wrapped and b[0] is not None:
            cov["samples"].append(dict(stream="wrapinsert", case=wrapped[0], observation=b[0]))
        cov["parts_wall_s"]["wrapinsert"] = round(time.time() - t0, 1)


# ------------------------------------------------------------------ stop-token adapter
class TokenAdapterPart:
    name = "tokadapter"

    def __init__(self, n_quick=2000, n_thorough=40000):
        self.n_quick, self.n_thorough = n_quick, n_thorough

    def run(self, tier, seed, verdict, cov, driver):
        t0 = time.time()
        try:
            exe = evt_exe("evt_tok", "evt_tok.cpp")
            plain = evt_exe()
        except vlib.BuildError as e:
            verdict.add("tokadapter:build", "evt_tok harness does not build against the current tree: " + str(e)[-1500:], dict(stream="tokadapter"), found_input=False)
            return
        n = self.n_quick if tier == "quick" else self.n_thorough
        rng = random.Random(seed * 7919 + 182)
        g = evt.Gen(rng, 12 if tier == "quick" else 25)
        lines = [tame(g.case(i)) for i in range(n)]
        # make sure stop requests are well represented: every third case gets a stop right after start
        for i in range(0, len(lines), 3):
            p = lines[i].split("|")
            if "stop" not in p[3]:
                p[3] = p[3].replace("start", "start stop", 1)
                lines[i] = "|".join(p)
        try:
            impl, crashes = run_lines(exe, lines, "case ")
        except subprocess.TimeoutExpired:
            verdict.add("tokadapter: harness timeout", "evt_tok harness timed out", dict(stream="tokadapter"), found_input=False)
            return
        cov["sanitizer_aborts"] = cov.get("sanitizer_aborts", 0) + len(crashes)
        if crashes:
            # does the same expression abort with the plain inplace_stop_token root as well?
            sub = [lines[k] for k, _, _ in crashes]
            _, pc = run_lines(plain, sub, "case ")
            also = {sub[k] for k, _, _ in pc}
            for k, site, err in crashes:
                if lines[k] in also:
                    cov["skipped_sanitizer_aborts_reported_under_C02"] = cov.get("skipped_sanitizer_aborts_reported_under_C02", 0) + 1
                    continue
                verdict.add(f"tokadapter: {site}", f"the real library aborted under ASan/UBSan only with the adapted stop token: {lines[k]}",
                            dict(stream="tokadapter", case=lines[k], sanitizer_report=err), found_input=True)
        distinct = set()
        stops_reaching = 0
        for l, a in zip(lines, impl):
            if a is None:
                continue
            b = driver.ask("ask calc run | " + l)
            cov["evaluations"] += 1
            cov["traces_validated_against_impl"] += 1
            for mon in ("!!adapter-live", "!!token-live", "!!adapter-subscriptions", "!!root", "!!completion", "!!leak"):
                if mon in a:
                    verdict.add(f"tokadapter: monitor {mon[2:]}", f"implementation monitor fired: {a}", dict(stream="tokadapter", case=l, impl=a, model=b), found_input=True)
            if a != b:
                cov["rejected_histories"] += 1
                lost = ("lp" in b) and (a.count("lp") < b.count("lp"))
                kind = "stop request on the adapted token does not reach the wrapped operation" if lost else "trace differs from the model"
                verdict.add(f"tokadapter: {kind}", f"impl: {a}  model: {b}", dict(stream="tokadapter", case=l, impl=a, model=b), found_input=True)
            elif "lp" in a:
                stops_reaching += 1
                distinct.add(a.split(" | ", 1)[-1] + "#" + l.split("|")[1])
        cov["distinct_nontrivial"] += len(distinct)
        cov["tokadapter_cases_with_stop_reaching_a_leaf"] = stops_reaching
        if lines and impl[0] is not None:
            cov["samples"].append(dict(stream="tokadapter", case=lines[0], observation=impl[0]))
        cov["parts_wall_s"]["tokadapter"] = round(time.time() - t0, 1)


# ------------------------------------------------------------------ type_erased_stream, elements with a lifetime
ES_CFGS = ["direct", "erased", "erased2", "reerased"]


class EStreamGen:
    def __init__(self, rng):
        self.r = rng

    def item(self):
        k = self.r.random()
        if k < 0.7:
            return f"v{self.r.randint(1, 99)}"
        if k < 0.85:
            return "d"
        return f"e{self.r.randint(1, 9)}"

    def ops(self, throws=True):
        r = self.r
        n = r.randint(1, 14)
        out, pend, closed = [], False, False
        for _ in range(n):
            k = r.random()
            if r.random() < 0.06:            # ignore the protocol picture
                out.append(r.choice(["F", "K", "N:v3", "N:d:p", "K:e2"]))
                continue
            if pend:
                out.append("F"); pend = False
            elif closed:
                out.append(r.choice(["N:v1", "K", "F"]))
            elif k < 0.82:
                t = "N:" + self.item()
                if r.random() < 0.3:
                    t += ":p"; pend = True
                if throws and r.random() < 0.2:
                    t += f":t{r.randint(1, 3)}"
                out.append(t)
            elif k < 0.9:
                out.append("K" if r.random() < 0.7 else f"K:e{r.randint(1, 9)}"); closed = True
            else:
                out.append(r.choice(["F", "X", "N:", "N:v", "N:v1:q", "N:v1:t0", "N:v1:p:p", "K:4", "N:v1:t1:p", "n:v1", "N:v1234567"]))
        return " ".join(out)


def es_obs(line):
    """what the consumer can tell from one harness output line: per op the result and the values read"""
    out = []
    for ent in line.split(" | ")[1:]:
        toks = ent.split()
        out.append((toks[-1] if toks else "", [t.split("=")[1] for t in toks if t.startswith("r") and "=" in t and not t.startswith("=")]))
    return out


class EStreamPart:
    name = "estream"

    def __init__(self, n_quick=1500, n_thorough=40000):
        self.n_quick, self.n_thorough = n_quick, n_thorough

    def run(self, tier, seed, verdict, cov, driver):
        t0 = time.time()
        try:
            exe = vlib.build_plain(os.path.join(HERE, "estream.cpp"), ["inplace_stop_token.cpp"], (), None, sanitize="address,undefined", name="estream")
        except vlib.BuildError as e:
            verdict.add("estream:build", "type_erased_stream element harness does not build against the current tree: " + str(e)[-1500:], dict(stream="estream"), found_input=False)
            return
        n = self.n_quick if tier == "quick" else self.n_thorough
        rng = random.Random(seed * 7919 + 183)
        g = EStreamGen(rng)
        seqs = []
        cdir = os.path.join(vlib.VERIF, "corpus", "estream")
        if os.path.isdir(cdir):
            for fn in sorted(os.listdir(cdir)):
                seqs += [(l.strip(), True) for l in open(os.path.join(cdir, fn)) if l.strip() and not l.startswith("#")]
        for i in range(n):
            throws = (i % 3 == 0)
            seqs.append((g.ops(throws), throws))
        lines = [f"{i}.{k} | {c} | {ops}" for i, (ops, _) in enumerate(seqs) for k, c in enumerate(ES_CFGS)]
        try:
            impl, crashes = run_lines(exe, lines, "case ")
        except subprocess.TimeoutExpired:
            verdict.add("estream: harness timeout", "estream harness timed out", dict(stream="estream"), found_input=False)
            return
        cov["sanitizer_aborts"] = cov.get("sanitizer_aborts", 0) + len(crashes)
        for k, site, err in crashes:
            verdict.add(f"estream: {site}", f"type_erased_stream aborted under ASan/UBSan: {lines[k]}", dict(stream="estream", case=lines[k], sanitizer_report=err), found_input=True)
        distinct, hist = set(), {}
        for l, a in zip(lines, impl):
            if a is None:
                continue
            b = driver.ask("ask estream run | " + l)
            cov["evaluations"] += 1
            cov["traces_validated_against_impl"] += 1
            for t in l.split("|")[2].split():
                kk = t.split(":")[0] if t.split(":")[0] in ("N", "F", "K") else "malformed"
                if kk == "N":
                    kk += ("p" if ":p" in t else "") + ("t" if ":t" in t else "")
                hist[kk] = hist.get(kk, 0) + 1
            if "!!" in a:
                mon = a.split("!!")[1].split()[0].split(":")[0].split("=")[0]
                verdict.add(f"estream: monitor {mon}", f"implementation monitor fired: {a}", dict(stream="estream", case=l, impl=a, model=b), found_input=True)
            if a != b:
                cov["rejected_histories"] += 1
                verdict.add("estream: trace differs from the model", f"impl: {a}  model: {b}",
                            dict(stream="estream", case=l, impl=a, model=b, broken="correspondence estream.cpp vs Proto.ErasedStream.step"), found_input=True)
            elif " m" in a:
                distinct.add(l.split("|")[1].strip() + "#" + a.split(" | ", 1)[-1])
        # model-independent differential: without scripted throws the consumer of the erased stream observes what the
        # consumer of the wrapped stream observes (results and values read, per op)
        per = len(ES_CFGS)
        for i, (ops, throws) in enumerate(seqs):
            if throws and ":t" in ops:
                continue
            outs = impl[i * per:(i + 1) * per]
            if outs[0] is None:
                continue
            base = es_obs(outs[0])
            for c, o in zip(ES_CFGS[1:], outs[1:]):
                if o is not None and es_obs(o) != base:
                    verdict.add("estream: erased stream yields other values than the wrapped stream", f"direct: {outs[0]}  {c}: {o}",
                                dict(stream="estream", case=lines[i * per + ES_CFGS.index(c)], direct=outs[0], impl=o), found_input=True)
        cov["distinct_nontrivial"] += len(distinct)
        cov["estream_op_histogram"] = dict(sorted(hist.items()))
        if impl and impl[2] is not None:
            cov["samples"].append(dict(stream="estream", case=lines[2], observation=impl[2]))
        cov["parts_wall_s"]["estream"] = round(time.time() - t0, 1)


# ------------------------------------------------------------------ direct tests
class DirectPart:
    """harness/evt/anysched.cpp prints one line per checked fact: `ok <name>` or `FAIL <name> <detail>`"""
    name = "direct"

    def run(self, tier, seed, verdict, cov, driver):
        t0 = time.time()
        src = os.path.join(HERE, "anysched.cpp")
        if not os.path.exists(src):
            return
        try:
            exe = vlib.build_plain(src, ["inplace_stop_token.cpp", "manual_event_loop.cpp", "async_stack.cpp"], (), None, sanitize="address,undefined", name="anysched")
        except vlib.BuildError as e:
            verdict.add("direct:build", "anysched harness does not build against the current tree: " + str(e)[-1500:], dict(stream="direct"), found_input=False)
            return
        env = dict(os.environ, ASAN_OPTIONS="detect_leaks=1:abort_on_error=0", UBSAN_OPTIONS="print_stacktrace=1")
        r = subprocess.run([exe, str(seed), "400" if tier == "quick" else "20000"], capture_output=True, text=True, timeout=600, env=env)
        oks = 0
        for line in r.stdout.split("\n"):
            if line.startswith("ok "):
                oks += 1
            elif line.startswith("FAIL "):
                verdict.add("direct: " + line.split()[1], line, dict(stream="direct", line=line, argv=[str(seed)]), found_input=True)
            elif line.startswith("N "):
                cov["evaluations"] += int(line.split()[1])
                cov["traces_validated_against_impl"] += int(line.split()[1])
        if r.returncode != 0:
            verdict.add("direct: " + evt.crash_site(r.stderr), "anysched harness aborted: " + r.stderr[-1500:], dict(stream="direct", sanitizer_report=r.stderr[-3000:]), found_input=True)
        cov["direct_facts_ok"] = oks
        cov["parts_wall_s"]["direct"] = round(time.time() - t0, 1)
