#!/usr/bin/env python3
"""cxx2lean_bulk — translator (DESIGN §3.1) for property C17.

Regenerates, from the C++ source TEXT of the tree under check,

  lean/UnifexModel/Generated/FindIfChunks.lean   from include/unifex/find_if.hpp
        (parallel overload: num_chunks / chunk_size / per-chunk begin and end / the chunk scan loop
         header; sequential overload: the scan loop header)
  lean/UnifexModel/Generated/BulkLoop.lean       from include/unifex/bulk_schedule.hpp
        (bulk_cancellation_chunk_size; `_schedule_receiver::set_value`: outer chunk loop, chunk_end,
         the four inner index loops, the two unchunked loops)

  lean/UnifexModel/Generated/BulkPolicy.lean     from include/unifex/bulk_transform.hpp (the get_execution_policy customisation
        of tfx_receiver: allowUnsequenced / allowParallel / the if-constexpr chain), bulk_join.hpp (the constant policy of the
        join receiver), get_execution_policy.hpp (the default) and bulk_schedule.hpp (which policies select the vectorised loop)

How: the function body is compared, after removing comments / preprocessor lines / whitespace, with a
SKELETON (below) whose holes «name» stand for the arithmetic.  Everything outside the holes must be
literally the skeleton (statement structure, which loop nests in which, where the stop check and the
terminal calls are, the order in which per-chunk results are scanned); every hole is parsed by a small
hand-written expression parser for the subset
    integer literals, + - * / %, unary - !, comparisons, && ||, ?:, std::min / std::max,
    static_cast<T>(e), T(e) for the integral typedefs in scope, the variables in scope
and printed as Lean with the C++ semantics explicit:
    find_if:  diff_t = decltype(std::distance(..)) is SIGNED  ->  Int,  `/` -> Int.tdiv, `%` -> Int.tmod
              iterators are offsets from begin_it: begin_it -> 0, end_it -> distance, dist -> distance
    bulk:     Integral (size_t in every instantiation made by the library's tests; diff_t >= 0 in find_if)
              -> Nat, no wrap-around assumed (count + chunk size representable); `-` is outside the subset
Anything else is a TranslateError = broken tie (reported by the check, never skipped).
"""
import json, os, re, sys

# ------------------------------------------------------------------------------------------------
class TranslateError(Exception):
    pass


def strip_source(text):
    text = re.sub(r"/\*.*?\*/", "", text, flags=re.S)
    text = re.sub(r"//[^\n]*", "", text)
    text = "\n".join(l for l in text.split("\n") if not l.lstrip().startswith("#"))
    text = re.sub(r"\bUNIFEX_DIAGNOSTIC_(PUSH|POP)\b", "", text)
    return re.sub(r"\s+", "", text)


HOLE = re.compile(r"«([A-Za-z0-9_]+)»")


def match_skeleton(src_stripped, skeleton, what):
    parts = HOLE.split(skeleton)
    rx, names = "", []
    for k, part in enumerate(parts):
        if k % 2 == 0:
            rx += re.escape(re.sub(r"\s+", "", part))
        else:
            names.append(part)
            rx += r"(?P<%s>[^;{}]+?)" % part
    ms = list(re.finditer(rx, src_stripped))
    if len(ms) != 1:
        # locate the first literal fragment that cannot be found, to make the error useful
        pos, where = 0, None
        for k, part in enumerate(parts):
            if k % 2 == 0:
                lit = re.sub(r"\s+", "", part)
                if not lit:
                    continue
                j = src_stripped.find(lit, pos)
                if j < 0:
                    # narrow down to the longest matching prefix
                    n = 0
                    while n < len(lit) and src_stripped.find(lit[: n + 1], pos) >= 0:
                        n += 1
                    where = lit[max(0, n - 60): n + 40]
                    break
                pos = j + len(lit)
        raise TranslateError(f"{what}: source does not match the skeleton ({len(ms)} matches)" + (f"; first divergence near `{where}`" if where else ""))
    return {n: ms[0].group(n) for n in names}


# ------------------------------------------------------------------------------------------------ expressions
TOK = re.compile(r"\s*(?:(\d+)([uUlL]*)|([A-Za-z_][A-Za-z0-9_]*(?:::[A-Za-z_][A-Za-z0-9_]*)*)|(<=|>=|==|!=|&&|\|\||\+\+|--|\+=|-=|[-+*/%<>!?:(),=]))")


def tokenize(s, what):
    out, i = [], 0
    while i < len(s):
        m = TOK.match(s, i)
        if not m or m.end() == i:
            raise TranslateError(f"{what}: cannot tokenize `{s[i:i+20]}` in `{s}`")
        if m.group(1) is not None:
            out.append(("int", int(m.group(1))))
        elif m.group(3) is not None:
            out.append(("id", m.group(3)))
        else:
            out.append(("op", m.group(4)))
        i = m.end()
    return out


BINPREC = {"||": 1, "&&": 2, "==": 3, "!=": 3, "<": 4, "<=": 4, ">": 4, ">=": 4, "+": 5, "-": 5, "*": 6, "/": 6, "%": 6}


class Parser:
    def __init__(self, text, casts, what):
        self.toks, self.i, self.casts, self.what, self.text = tokenize(text, what), 0, casts, what, text

    def err(self, msg):
        raise TranslateError(f"{self.what}: {msg} in `{self.text}` (outside the translated subset)")

    def peek(self):
        return self.toks[self.i] if self.i < len(self.toks) else ("eof", None)

    def eat(self, kind=None, val=None):
        t = self.peek()
        if (kind and t[0] != kind) or (val is not None and t[1] != val):
            self.err(f"expected {val or kind}, found {t[1]!r}")
        self.i += 1
        return t

    def at_op(self, v):
        return self.peek() == ("op", v)

    def parse_all(self):
        e = self.ternary()
        if self.peek()[0] != "eof":
            self.err(f"unexpected `{self.peek()[1]}`")
        return e

    def ternary(self):
        c = self.binary(1)
        if self.at_op("?"):
            self.eat()
            a = self.ternary()
            self.eat("op", ":")
            b = self.ternary()
            return ("ite", c, a, b)
        return c

    def binary(self, minp):
        lhs = self.unary()
        while True:
            t = self.peek()
            if t[0] == "op" and t[1] in BINPREC and BINPREC[t[1]] >= minp:
                p = BINPREC[t[1]]
                self.eat()
                rhs = self.binary(p + 1)
                lhs = ("bin", t[1], lhs, rhs)
            else:
                return lhs

    def unary(self):
        if self.at_op("!"):
            self.eat(); return ("not", self.unary())
        if self.at_op("-"):
            self.eat(); return ("neg", self.unary())
        if self.at_op("+"):
            self.eat(); return self.unary()
        return self.primary()

    def primary(self):
        t = self.peek()
        if t[0] == "int":
            self.eat(); return ("int", t[1])
        if self.at_op("("):
            self.eat(); e = self.ternary(); self.eat("op", ")"); return e
        if t[0] == "id":
            self.eat()
            name = t[1]
            if name == "static_cast":
                self.eat("op", "<"); ty = self.eat("id")[1]; self.eat("op", ">")
                if ty not in self.casts:
                    self.err(f"static_cast to `{ty}`")
                self.eat("op", "("); e = self.ternary(); self.eat("op", ")")
                return e
            if self.at_op("("):
                self.eat()
                args = []
                if not self.at_op(")"):
                    args.append(self.ternary())
                    while self.at_op(","):
                        self.eat(); args.append(self.ternary())
                self.eat("op", ")")
                if name in ("std::min", "std::max") and len(args) == 2:
                    return ("call", name[5:], args)
                if name in self.casts and len(args) == 1:
                    return args[0]
                self.err(f"call of `{name}`")
            return ("var", name)
        self.err(f"unexpected `{t[1]}`")


def parse_expr(text, casts, what):
    return Parser(text, casts, what).parse_all()


def parse_step(text, var, casts, what):
    """loop step statement -> expression for the new value of `var`"""
    m = re.fullmatch(r"\+\+%s|%s\+\+" % (var, var), text)
    if m:
        return ("bin", "+", ("var", var), ("int", 1))
    m = re.fullmatch(r"--%s|%s--" % (var, var), text)
    if m:
        return ("bin", "-", ("var", var), ("int", 1))
    m = re.fullmatch(r"%s(\+=|-=|=)(.+)" % var, text)
    if m:
        e = parse_expr(m.group(2), casts, what)
        return e if m.group(1) == "=" else ("bin", m.group(1)[0], ("var", var), e)
    raise TranslateError(f"{what}: loop step `{text}` is not ++{var} / {var} += e / {var} = e")


ARITH, BOOL = "arith", "bool"


def kind_of(e):
    k = e[0]
    if k in ("int", "var", "neg", "call"):
        return ARITH
    if k == "not":
        return BOOL
    if k == "bin":
        return ARITH if e[1] in "+-*/%" else BOOL
    if k == "ite":
        return kind_of(e[2])
    raise TranslateError(f"internal: {e}")


class Printer:
    """scope: name -> ('param',) | ('def', [params]) | ('expr', ast)"""

    def __init__(self, mode, scope, what):
        self.mode, self.scope, self.what = mode, scope, what

    def need(self, e, kind):
        if kind_of(e) != kind:
            raise TranslateError(f"{self.what}: {'boolean' if kind == BOOL else 'arithmetic'} expression expected (implicit bool/int conversion is outside the subset)")

    def p(self, e):
        k = e[0]
        if k == "int":
            return str(e[1])
        if k == "var":
            s = self.scope.get(e[1])
            if s is None:
                raise TranslateError(f"{self.what}: unknown identifier `{e[1]}` (outside the translated subset)")
            if s[0] == "param":
                return e[1]
            if s[0] == "def":
                return "(" + " ".join([e[1]] + s[1]) + ")" if s[1] else e[1]
            return self.p(s[1])
        if k == "neg":
            self.need(e[1], ARITH)
            if self.mode == "Nat":
                raise TranslateError(f"{self.what}: unary minus on an unsigned value (outside the subset)")
            return f"(-{self.p(e[1])})"
        if k == "not":
            self.need(e[1], BOOL)
            return f"(¬ {self.p(e[1])})"
        if k == "call":
            for a in e[2]:
                self.need(a, ARITH)
            return f"({e[1]} {self.p(e[2][0])} {self.p(e[2][1])})"
        if k == "ite":
            self.need(e[1], BOOL)
            if kind_of(e[2]) != kind_of(e[3]):
                raise TranslateError(f"{self.what}: ?: branches of different kinds")
            return f"(if {self.p(e[1])} then {self.p(e[2])} else {self.p(e[3])})"
        if k == "bin":
            op, a, b = e[1], e[2], e[3]
            if op in "+-*/%":
                self.need(a, ARITH); self.need(b, ARITH)
                x, y = self.p(a), self.p(b)
                if op == "/":
                    return f"(Int.tdiv {x} {y})" if self.mode == "Int" else f"({x} / {y})"
                if op == "%":
                    return f"(Int.tmod {x} {y})" if self.mode == "Int" else f"({x} % {y})"
                if op == "-" and self.mode == "Nat":
                    raise TranslateError(f"{self.what}: subtraction on an unsigned value (wrap-around; outside the subset)")
                return f"({x} {op} {y})"
            if op in ("&&", "||"):
                self.need(a, BOOL); self.need(b, BOOL)
                return f"({self.p(a)} {'∧' if op == '&&' else '∨'} {self.p(b)})"
            self.need(a, ARITH); self.need(b, ARITH)
            lop = {"==": "=", "!=": "≠", "<": "<", "<=": "≤", ">": ">", ">=": "≥"}[op]
            return f"({self.p(a)} {lop} {self.p(b)})"
        raise TranslateError(f"internal: {e}")


class Gen:
    def __init__(self, mode, what):
        self.mode, self.what, self.lines, self.scope = mode, what, [], {}

    def define(self, name, params, expr, kind=ARITH, comment="", extra_scope=None, lean_name=None):
        scope = dict(self.scope)
        for p in params:
            scope[p] = ("param",)
        if extra_scope:
            scope.update(extra_scope)
        pr = Printer(self.mode, scope, f"{self.what}: {name}")
        if kind_of(expr) != kind:
            raise TranslateError(f"{self.what}: {name}: expected a{'n arithmetic' if kind == ARITH else ' boolean'} expression")
        body = pr.p(expr)
        ty = self.mode if kind == ARITH else "Bool"
        if kind == BOOL:
            body = f"decide {body}"
        ps = f" ({' '.join(params)} : {self.mode})" if params else ""
        ln = lean_name or name
        if comment:
            self.lines.append(f"/-- `{comment}` -/")
        self.lines.append(f"def {ln}{ps} : {ty} := {body}")
        self.scope[ln] = ("def", list(params))


# ------------------------------------------------------------------------------------------------ find_if.hpp
FINDIF_PAR = """
auto distance = std::distance(begin_it, end_it);
using diff_t = decltype(distance);
constexpr diff_t max_num_chunks = «max_num_chunks»;
constexpr diff_t min_chunk_size = «min_chunk_size»;
diff_t num_chunks = «num_chunks»;
diff_t chunk_size = «chunk_size»;
struct State { std::atomic<bool> found_flag; std::vector<Iterator> perChunkState; };
return unifex::let_value(
  unifex::just(std::forward<Values>(values)...),
  [func = std::move(func_), sched = std::forward<Scheduler>(sched), begin_it, chunk_size, end_it, num_chunks](Values&... values) mutable {
    return unifex::let_value_with(
      [&]() { return State{ false, std::vector<Iterator>(«per_chunk_len», «per_chunk_init»)}; },
      [&](State& state) {
        return unifex::let_value_with_stop_source(
          [&](unifex::inplace_stop_source& stopSource) mutable {
            auto bulk_phase = unifex::bulk_join(unifex::bulk_transform(
              unifex::bulk_schedule(std::move(sched), «bulk_count»),
              [&](diff_t index) {
                const diff_t dist = std::distance(begin_it, end_it);
                auto chunk_begin_it = «chunk_begin_it»;
                auto chunk_end_it = «chunk_end_it»;
                for (auto it = «scan_init»; «scan_continue»; «scan_step») {
                  if (std::invoke(func, *it, values...)) {
                    state.perChunkState[index] = it;
                    state.found_flag = true;
                    stopSource.request_stop();
                    return;
                  }
                }
              },
              unifex::par));
            return unifex::then(
              unifex::let_done(std::move(bulk_phase), [&state]() { if (state.found_flag == true) { return just(); } else { return just(); } }),
              [&state, end_it, &values...]() mutable -> std::tuple<Iterator, Values...> {
                for (auto it : state.perChunkState) {
                  if (it != end_it) { return std::tuple<Iterator, Values...>(it, std::move(values)...); }
                }
                return std::tuple<Iterator, Values...>(end_it, std::move(values)...);
              });
          });
      });
  });
"""

FINDIF_SEQ = """
return unifex::then(
  unifex::just(std::forward<Values>(values)...),
  [func = std::move(func_), begin_it, end_it](auto... values) mutable {
    for (auto it = «seq_init»; «seq_continue»; «seq_step») {
      if (std::invoke(func, *it, values...)) {
        return std::tuple<Iterator, Values...>(it, std::move(values)...);
      }
    }
    return std::tuple<Iterator, Values...>(end_it, std::move(values)...);
  });
"""

HEADER = """/-
  GENERATED by tools/cxx2lean_bulk.py from {src} — DO NOT EDIT.
  Regenerated by `./check C17` before the proof gate; the theorems of Props/C17.lean are about THIS text.
{notes}
-/
set_option linter.unusedVariables false

namespace Unifex.Generated.{ns}

"""


def gen_findif(repo):
    path = os.path.join(repo, "include", "unifex", "find_if.hpp")
    src = strip_source(open(path).read())
    h = match_skeleton(src, FINDIF_PAR, "find_if.hpp parallel overload")
    hs = match_skeleton(src, FINDIF_SEQ, "find_if.hpp sequential overload")
    casts = {"diff_t", "std::ptrdiff_t", "ptrdiff_t"}
    g = Gen("Int", "find_if.hpp")
    ex = lambda name, hh=h: parse_expr(hh[name], casts, f"find_if.hpp «{name}»")
    # `const diff_t dist = std::distance(begin_it, end_it);` inside the chunk lambda (pinned by the skeleton) is the same distance
    it_scope = {"begin_it": ("expr", ("int", 0)), "end_it": ("expr", ("var", "distance")), "dist": ("expr", ("var", "distance"))}
    D, DI, DII = ["distance"], ["distance", "index"], ["distance", "index", "it"]
    g.define("max_num_chunks", [], ex("max_num_chunks"), comment="constexpr diff_t max_num_chunks = …;")
    g.define("min_chunk_size", [], ex("min_chunk_size"), comment="constexpr diff_t min_chunk_size = …;")
    g.define("num_chunks", D, ex("num_chunks"), comment="diff_t num_chunks = …;   (distance = std::distance(begin_it, end_it))")
    g.define("chunk_size", D, ex("chunk_size"), comment="diff_t chunk_size = …;")
    g.define("per_chunk_len", D, ex("per_chunk_len"), comment="std::vector<Iterator>(«per_chunk_len», …)  — length of perChunkState")
    g.define("per_chunk_init", D, ex("per_chunk_init"), extra_scope=it_scope, comment="std::vector<Iterator>(…, «per_chunk_init»)  — initial value of every perChunkState entry (as an offset)")
    g.define("bulk_count", D, ex("bulk_count"), comment="unifex::bulk_schedule(std::move(sched), «bulk_count»)")
    g.define("chunk_begin_it", DI, ex("chunk_begin_it"), extra_scope=it_scope, comment="auto chunk_begin_it = …;   (inside the bulk_transform lambda, `index` = the bulk index)")
    g.define("chunk_end_it", DI, ex("chunk_end_it"), extra_scope=it_scope, comment="auto chunk_end_it = …;")
    g.define("scan_init", DI, ex("scan_init"), extra_scope=it_scope, comment="for (auto it = «scan_init»; …; …)")
    g.define("scan_continue", DII, ex("scan_continue"), kind=BOOL, extra_scope=it_scope, comment="for (…; «scan_continue»; …)")
    g.define("scan_step", DII, parse_step(h["scan_step"], "it", casts, "find_if.hpp «scan_step»"), extra_scope=it_scope, comment="for (…; …; «scan_step»)  — new value of it")
    exs = lambda name: parse_expr(hs[name], casts, f"find_if.hpp «{name}»")
    DIt = ["distance", "it"]
    g.define("seq_init", D, exs("seq_init"), extra_scope=it_scope, comment="sequential overload: for (auto it = «seq_init»; …; …)")
    g.define("seq_continue", DIt, exs("seq_continue"), kind=BOOL, extra_scope=it_scope, comment="sequential overload: for (…; «seq_continue»; …)")
    g.define("seq_step", DIt, parse_step(hs["seq_step"], "it", casts, "find_if.hpp «seq_step»"), extra_scope=it_scope, comment="sequential overload: for (…; …; «seq_step»)")
    notes = ("  signedness: diff_t = decltype(std::distance(begin_it, end_it)) is the iterator difference type, SIGNED:\n"
             "    modelled as Int, C++ `/` ↦ Int.tdiv, `%` ↦ Int.tmod (truncation toward zero).\n"
             "  iterators are offsets from begin_it: begin_it ↦ 0, end_it ↦ distance, dist (= std::distance(begin_it, end_it) in the chunk lambda) ↦ distance, ++it ↦ it + 1.\n"
             "  Everything outside the «holes» of the skeleton in the translator is literally the skeleton (checked on every run).")
    text = HEADER.format(src="include/unifex/find_if.hpp (find_if_helper::operator(), parallel_policy and sequenced_policy overloads)", notes=notes, ns="FindIfChunks")
    text += "\n".join(g.lines) + "\n\nend Unifex.Generated.FindIfChunks\n"
    return text, {**h, **hs}


# ------------------------------------------------------------------------------------------------ bulk_schedule.hpp
def _loop(tag):
    return ("for (Integral i(«%s_init»); «%s_cond»; «%s_step») { unifex::set_next(receiver_, Integral(«%s_arg»)); }" % (tag, tag, tag, tag))


BULK_CONST = "constexpr size_t bulk_cancellation_chunk_size = «chunk_const»;"

BULK_BODY = """
void set_value() noexcept(is_nothrow_receiver_of_v<Receiver>&& is_nothrow_next_receiver_v<Receiver, Integral>) {
  using policy_t = decltype(get_execution_policy(receiver_));
  auto stop_token = get_stop_token(receiver_);
  const bool stop_possible = !is_stop_never_possible_v<decltype(stop_token)> && stop_token.stop_possible();
  if (stop_possible) {
    for (Integral chunk_start(«outer_init»); «outer_cond»; «outer_step») {
      if (stop_token.stop_requested()) { unifex::set_done(std::move(receiver_)); return; }
      Integral chunk_end = «chunk_end»;
      if constexpr («vec_stop») {
        %s
      } else {
        %s
      }
    }
  } else {
    if constexpr («vec_plain») {
      %s
    } else {
      %s
    }
  }
  unifex::set_value(std::move(receiver_));
}
""" % (_loop("inner_u"), _loop("inner_s"), _loop("plain_u"), _loop("plain_s"))


def gen_bulk(repo):
    path = os.path.join(repo, "include", "unifex", "bulk_schedule.hpp")
    src = strip_source(open(path).read())
    hc = match_skeleton(src, BULK_CONST, "bulk_schedule.hpp bulk_cancellation_chunk_size")
    h = match_skeleton(src, BULK_BODY, "bulk_schedule.hpp _schedule_receiver::set_value")
    casts = {"Integral", "size_t", "std::size_t"}
    g = Gen("Nat", "bulk_schedule.hpp")
    ex = lambda name: parse_expr(h[name], casts, f"bulk_schedule.hpp «{name}»")
    g.define("bulk_cancellation_chunk_size", [], parse_expr(hc["chunk_const"], casts, "bulk_schedule.hpp «chunk_const»"),
             comment="constexpr size_t bulk_cancellation_chunk_size = …;")
    O, I, P = ["count_", "chunk_start"], ["count_", "chunk_start", "i"], ["count_", "i"]
    g.define("outer_init", ["count_"], ex("outer_init"), comment="for (Integral chunk_start(«outer_init»); …; …)")
    g.define("outer_cond", O, ex("outer_cond"), kind=BOOL, comment="for (…; «outer_cond»; …)")
    g.define("outer_step", O, parse_step(h["outer_step"], "chunk_start", casts, "bulk_schedule.hpp «outer_step»"), comment="for (…; …; «outer_step»)  — new value of chunk_start")
    g.define("chunk_end", O, ex("chunk_end"), comment="Integral chunk_end = …;")
    for tag, params, what in (("inner_u", I, "chunked loop, unsequenced policies"), ("inner_s", I, "chunked loop, sequenced/parallel policies"),
                              ("plain_u", P, "unchunked loop (stop impossible), unsequenced policies"), ("plain_s", P, "unchunked loop (stop impossible), sequenced/parallel policies")):
        initp = params[:-1]
        g.define(f"{tag}_init", initp, ex(f"{tag}_init"), comment=f"{what}: for (Integral i(«init»); …; …)")
        g.define(f"{tag}_cond", params, ex(f"{tag}_cond"), kind=BOOL, comment=f"{what}: for (…; «cond»; …)")
        g.define(f"{tag}_step", params, parse_step(h[f"{tag}_step"], "i", casts, f"bulk_schedule.hpp «{tag}_step»"), comment=f"{what}: for (…; …; «step»)  — new value of i")
        g.define(f"{tag}_arg", params, ex(f"{tag}_arg"), comment=f"{what}: unifex::set_next(receiver_, Integral(«arg»))")
    notes = ("  signedness: `Integral` is the count type of bulk_schedule (size_t in the library's own uses and tests; the\n"
             "    signed diff_t, with a non-negative count, in find_if): modelled as Nat, assuming no wrap-around\n"
             "    (count_ + bulk_cancellation_chunk_size representable).  Unsigned `-` is outside the subset.\n"
             "  Statement structure (which loop is nested where, the stop check at the head of every outer iteration followed\n"
             "  by set_done + return, set_value after the loops) is the literal skeleton in the translator, checked on every run;\n"
             "  Proto/Bulk.lean assembles the pieces below in exactly that structure.")
    text = HEADER.format(src="include/unifex/bulk_schedule.hpp (bulk_cancellation_chunk_size, _schedule_receiver::set_value)", notes=notes, ns="BulkLoop")
    text += "\n".join(g.lines) + "\n\nend Unifex.Generated.BulkLoop\n"
    return text, {**hc, **h}



# ------------------------------------------------------------------------------------------------ execution policies
POLICY_TYPES = {"sequenced_policy": "seq", "unsequenced_policy": "unseq", "parallel_policy": "par", "parallel_unsequenced_policy": "par_unseq"}
POLICY_OBJECTS = {"seq", "unseq", "par", "par_unseq"}

TFX_POLICY = """
friend auto tag_invoke(tag_t<get_execution_policy>, const type& r) noexcept {
  using receiver_policy = decltype(get_execution_policy(r.receiver_));
  constexpr bool allowUnsequenced = «allowUnsequenced»;
  constexpr bool allowParallel = «allowParallel»;
  if constexpr («c1») { return unifex::«r1»; }
  else if constexpr («c2») { return unifex::«r2»; }
  else if constexpr («c3») { return unifex::«r3»; }
  else { return unifex::«r4»; }
}
"""
JOIN_POLICY = """
friend constexpr unifex::«join_policy» tag_invoke(tag_t<get_execution_policy>, [[maybe_unused]] const type& r) noexcept { return {}; }
"""
DEFAULT_POLICY = """
template(typename PolicyProvider) (requires(!tag_invocable<_fn, const PolicyProvider&>))
constexpr «default_policy» operator()([[maybe_unused]] const PolicyProvider&) const noexcept { return {}; }
"""
POLTOK = re.compile(r"(is_one_of_v<[^<>]*>|&&|\|\||!|\(|\)|[A-Za-z_][A-Za-z0-9_:]*)")


def policy_type(name, what):
    n = name[8:] if name.startswith("unifex::") else name
    if n not in POLICY_TYPES:
        raise TranslateError(f"{what}: `{name}` is not one of the four execution policy types")
    return "Policy." + POLICY_TYPES[n]


def policy_object(name, what):
    if name not in POLICY_OBJECTS:
        raise TranslateError(f"{what}: `unifex::{name}` is not one of the four execution policy objects")
    return "Policy." + name


class PolicyExpr:
    """boolean expressions over is_one_of_v<subject, policy types…>, && || ! ( ) and the boolean locals in scope"""

    def __init__(self, text, subjects, bools, what):
        self.toks = POLTOK.findall(text)
        if "".join(self.toks) != text:
            raise TranslateError(f"{what}: cannot tokenize `{text}` (outside the translated subset)")
        self.i, self.subjects, self.bools, self.what, self.text = 0, subjects, bools, what, text

    def peek(self):
        return self.toks[self.i] if self.i < len(self.toks) else None

    def parse(self):
        e = self.or_()
        if self.peek() is not None:
            raise TranslateError(f"{self.what}: unexpected `{self.peek()}` in `{self.text}`")
        return e

    def or_(self):
        e = self.and_()
        while self.peek() == "||":
            self.i += 1
            e = f"({e} || {self.and_()})"
        return e

    def and_(self):
        e = self.un()
        while self.peek() == "&&":
            self.i += 1
            e = f"({e} && {self.un()})"
        return e

    def un(self):
        t = self.peek()
        if t is None:
            raise TranslateError(f"{self.what}: truncated expression `{self.text}`")
        self.i += 1
        if t == "!":
            return f"(!{self.un()})"
        if t == "(":
            e = self.or_()
            if self.peek() != ")":
                raise TranslateError(f"{self.what}: `)` expected in `{self.text}`")
            self.i += 1
            return e
        if t.startswith("is_one_of_v<"):
            args = t[len("is_one_of_v<"):-1].split(",")
            if len(args) < 2 or args[0] not in self.subjects:
                raise TranslateError(f"{self.what}: is_one_of_v over `{args[0]}` (outside the translated subset)")
            return f"(isOneOf {self.subjects[args[0]]} [{', '.join(policy_type(a, self.what) for a in args[1:])}])"
        if t in self.bools:
            return self.bools[t]
        raise TranslateError(f"{self.what}: unknown identifier `{t}` in `{self.text}` (outside the translated subset)")


def gen_policy(repo):
    inc = os.path.join(repo, "include", "unifex")
    h = match_skeleton(strip_source(open(os.path.join(inc, "bulk_transform.hpp")).read()), TFX_POLICY, "bulk_transform.hpp get_execution_policy customisation")
    hj = match_skeleton(strip_source(open(os.path.join(inc, "bulk_join.hpp")).read()), JOIN_POLICY, "bulk_join.hpp get_execution_policy customisation")
    hd = match_skeleton(strip_source(open(os.path.join(inc, "get_execution_policy.hpp")).read()), DEFAULT_POLICY, "get_execution_policy.hpp default")
    hb = match_skeleton(strip_source(open(os.path.join(inc, "bulk_schedule.hpp")).read()), BULK_BODY, "bulk_schedule.hpp _schedule_receiver::set_value")
    subj = {"receiver_policy": "receiver_policy", "Policy": "func_policy"}
    P2 = "(receiver_policy func_policy : Policy)"
    app = lambda n: f"({n} receiver_policy func_policy)"
    L = []
    L.append("/-- `get_execution_policy(x)` for an `x` without customisation (get_execution_policy.hpp) -/")
    L.append(f"def default_policy : Policy := {policy_type(hd['default_policy'], 'get_execution_policy.hpp default')}")
    L.append("/-- the policy the bulk_join receiver advertises (bulk_join.hpp) -/")
    L.append(f"def join_policy : Policy := {policy_type(hj['join_policy'], 'bulk_join.hpp')}")
    for name in ("allowUnsequenced", "allowParallel"):
        e = PolicyExpr(h[name], subj, {}, f"bulk_transform.hpp «{name}»").parse()
        L.append(f"/-- `constexpr bool {name} = …;`  (receiver_policy = the downstream receiver's policy, func_policy = template parameter `Policy`) -/")
        L.append(f"def {name} {P2} : Bool := {e}")
    bools = {"allowUnsequenced": app("allowUnsequenced"), "allowParallel": app("allowParallel")}
    cs = [PolicyExpr(h[c], subj, bools, f"bulk_transform.hpp «{c}»").parse() for c in ("c1", "c2", "c3")]
    rs = [policy_object(h[r], f"bulk_transform.hpp «{r}»") for r in ("r1", "r2", "r3", "r4")]
    L.append("/-- the `if constexpr … return unifex::…;` chain: the policy bulk_transform's receiver advertises to its source -/")
    L.append(f"def tfx_policy {P2} : Policy :=\n  if {cs[0]} then {rs[0]} else if {cs[1]} then {rs[1]} else if {cs[2]} then {rs[2]} else {rs[3]}")
    for name, hole, cm in (("schedule_vectorised_stop", "vec_stop", "chunked loop"), ("schedule_vectorised_plain", "vec_plain", "unchunked loop")):
        e = PolicyExpr(hb[hole], {"policy_t": "policy_t"}, {}, f"bulk_schedule.hpp «{hole}»").parse()
        L.append(f"/-- bulk_schedule.hpp, {cm}: `if constexpr (…)` selecting the vectorisable (`#pragma ivdep`) variant; policy_t = the receiver's policy -/")
        L.append(f"def {name} (policy_t : Policy) : Bool := {e}")
    notes = ("  Policies are the constructors of Proto/PolicyLattice.Policy; `is_one_of_v<P, A, B>` ↦ `isOneOf P [A, B]`;\n"
             "  `receiver_policy` = decltype(get_execution_policy(r.receiver_)), `func_policy` = the `Policy` template argument of\n"
             "  bulk_transform (the policy given for the function).  Everything outside the «holes» is the literal skeleton.")
    text = HEADER.format(src="include/unifex/bulk_transform.hpp, bulk_join.hpp, get_execution_policy.hpp, bulk_schedule.hpp (execution-policy computations)", notes=notes, ns="BulkPolicy")
    text = text.replace("set_option linter.unusedVariables false\n", "import UnifexModel.Proto.PolicyLattice\nset_option linter.unusedVariables false\n")
    text = text.replace("namespace Unifex.Generated.BulkPolicy\n", "namespace Unifex.Generated.BulkPolicy\nopen Unifex.Proto.PolicyLattice\n")
    text += "\n".join(L) + "\n\nend Unifex.Generated.BulkPolicy\n"
    return text, {**h, **hj, **hd, "vec_stop": hb["vec_stop"], "vec_plain": hb["vec_plain"]}


# ------------------------------------------------------------------------------------------------ driver
def translate(repo, lean_dir, write=True):
    """returns dict(changed=[files whose text changed], holes={...}); raises TranslateError"""
    outdir = os.path.join(lean_dir, "UnifexModel", "Generated")
    os.makedirs(outdir, exist_ok=True)
    res = dict(changed=[], holes={})
    errors = []
    for fn, gen in (("FindIfChunks.lean", gen_findif), ("BulkLoop.lean", gen_bulk), ("BulkPolicy.lean", gen_policy)):
        try:
            text, holes = gen(repo)
        except TranslateError as e:      # the other file is still regenerated; this one keeps its previous text
            errors.append(str(e))
            continue
        res["holes"][fn] = holes
        p = os.path.join(outdir, fn)
        old = open(p).read() if os.path.exists(p) else None
        if old != text:
            res["changed"].append(fn)
            if write:
                open(p, "w").write(text)
    if errors:
        raise TranslateError(" ;; ".join(errors))
    return res


def main():
    import argparse
    here = os.path.dirname(os.path.dirname(os.path.abspath(__file__)))
    ap = argparse.ArgumentParser()
    ap.add_argument("--repo", default=os.environ.get("VERIF_REPO", "/repo"))
    ap.add_argument("--lean", default=os.path.join(here, "lean"))
    ap.add_argument("--dry", action="store_true")
    a = ap.parse_args()
    try:
        r = translate(a.repo, a.lean, write=not a.dry)
    except TranslateError as e:
        print("TRANSLATE-ERROR " + str(e))
        sys.exit(2)
    print(json.dumps(r, indent=1, ensure_ascii=False))


if __name__ == "__main__":
    main()
