// scn_c16_pass.cpp — C16 scenarios on the REAL unifex::async_pass (C++20 build; source/async_pass.cpp
// is empty below C++20).  Mirrors lean/UnifexModel/Proto/AsyncPass.lean: T0 = controller 0,
// T1 = the caller (async_call), T2 = the acceptor (async_accept), T3.. = further controllers.
// Both parties drive their own deferred scheduler until their operation completes.
#include "c16_common.hpp"

#include <unifex/async_pass.hpp>
#include <unifex/inplace_stop_token.hpp>

namespace {
using c16::Ctx; using c16::Sched;

struct PWorld;
Sched psched_of(PWorld* w, int who) noexcept;
unifex::inplace_stop_token ptoken_of(PWorld* w, int who) noexcept;

// who: 0 = caller, 1 = acceptor
template <bool Stoppable>
struct CallRecv {
  PWorld* w;
  void set_value() && noexcept;
  void set_done() && noexcept;
  template <typename E> void set_error(E&&) && noexcept { rt::fail("async_call completed with set_error"); }
  friend Sched tag_invoke(unifex::tag_t<unifex::get_scheduler>, const CallRecv& r) noexcept { return psched_of(r.w, 0); }
  template <bool S = Stoppable, std::enable_if_t<S, int> = 0>
  friend unifex::inplace_stop_token tag_invoke(unifex::tag_t<unifex::get_stop_token>, const CallRecv& r) noexcept { return ptoken_of(r.w, 0); }
};
template <bool Stoppable>
struct AcceptRecv {
  PWorld* w;
  void set_value(int v) && noexcept;
  void set_done() && noexcept;
  template <typename E> void set_error(E&&) && noexcept { rt::fail("async_accept completed with set_error"); }
  friend Sched tag_invoke(unifex::tag_t<unifex::get_scheduler>, const AcceptRecv& r) noexcept { return psched_of(r.w, 1); }
  template <bool S = Stoppable, std::enable_if_t<S, int> = 0>
  friend unifex::inplace_stop_token tag_invoke(unifex::tag_t<unifex::get_stop_token>, const AcceptRecv& r) noexcept { return ptoken_of(r.w, 1); }
};

struct PWorld {
  unifex::async_pass<int> pass;
  Ctx ctx[2];
  unifex::inplace_stop_source src[2];
  int owner[2] = {-1, -1};
  int completions[2] = {0, 0};
  int outcome[2] = {0, 0};        // 1 value, 2 done
  bool stop_begun[2] = {false, false};
  int call_payload = 1;            // the caller's argument (an lvalue that outlives the call)
  bool call_fn_ran = false;        // the caller's payload was handed to an acceptor function
  std::atomic<int> fn_epoch{0};    // 1 once the caller's function has run (gated threads wait on it)
  std::atomic<int> acc_started{0}; // 1 once the acceptor's start() has returned
  int accepted = 0;                // payload the async_accept received (0 = none)
  int immediate = 0;               // payload a try_accept received
  bool report_forwarder = false;   // regression monitors for the (fixed) completion_forwarder defect, on in the cancel scenarios

  PWorld() { for (int i = 0; i < 2; ++i) { ctx[i].id = i; ctx[i].deferred = true; } }

  template <bool Stoppable> void call() {
    owner[0] = rt::self();
    rt::obs("call.begin");
    auto fn = [this](auto& acceptorFn) noexcept(false) {
      call_fn_ran = true; fn_epoch.store(1, std::memory_order_release);
      acceptorFn(std::move(call_payload));
    };
    auto op = unifex::connect(pass.async_call(std::move(fn)), CallRecv<Stoppable>{this});
    unifex::start(op);
    rt::obs("call.started");
    ctx[0].drive_until([&] { return completions[0] > 0; });
  }
  template <bool Stoppable> void accept() {
    owner[1] = rt::self();
    rt::obs("accept.begin");
    auto op = unifex::connect(pass.async_accept(), AcceptRecv<Stoppable>{this});
    unifex::start(op);
    acc_started.store(1, std::memory_order_release);
    rt::obs("accept.started");
    ctx[1].drive_until([&] { return completions[1] > 0; });
  }
  void completed(int who, bool value, int payload) {
    const char* nm = who == 0 ? "call" : "accept";
    if (++completions[who] > 1) rt::fail("async_%s completed twice", nm);
    if (rt::self() != owner[who] || ctx[who].running == 0) rt::fail("async_%s completed outside its own scheduler", nm);
    if (!value && !stop_begun[who]) rt::fail("async_%s completed with done although stop was never requested", nm);
    outcome[who] = value ? 1 : 2;
    if (who == 1 && value) { if (accepted != 0) rt::fail("acceptor received two payloads"); accepted = payload; }
    if (who == 0 && value && !call_fn_ran) rt::fail("async_call completed with value although nobody accepted its payload");
    if (who == 0 && !value && call_fn_ran && report_forwarder)
      rt::fail("async_call completed with done although its payload was accepted (completion_forwarder vs stop token)");
    if (who == 1 && !value && report_forwarder && ((call_fn_ran && immediate == 0) || handed_by_try))
      rt::fail("async_accept completed with done although a payload was handed to it (completion_forwarder vs stop token)");
    if (who == 1 && value && !((payload == 1 && call_fn_ran) || (payload == 2 && handed_by_try)))
      rt::fail("async_accept received payload %d that nobody handed over", payload);
    if (value) rt::obs(who == 0 ? "call.value" : "accept.value %d", payload); else rt::obs("%s.done", nm);
    rt::point("in-completion");
  }
  bool handed_by_try = false;      // a try_call handed payload 2 to the waiting acceptor
  void stop(int who) {
    rt::obs("stop%d.begin", who); stop_begun[who] = true;
    src[who].request_stop();
    rt::obs("stop%d.end", who);
  }
  bool try_call() {
    rt::obs("trycall.begin");
    bool ok = pass.try_call([this](auto& acceptorFn) noexcept(false) { handed_by_try = true; acceptorFn(2); });
    if (ok != handed_by_try) rt::fail("try_call returned %d but its function %s", ok ? 1 : 0, handed_by_try ? "ran" : "did not run");
    rt::obs("trycall.end %d", ok ? 1 : 0);
    return ok;
  }
  bool served() const { return call_fn_ran || handed_by_try; }
  void await_fn_ran() { while (fn_epoch.load(std::memory_order_acquire) == 0) {} }
  void await_acceptor_started() { while (acc_started.load(std::memory_order_acquire) == 0) {} }
  void await_expecting_call() { while (!pass.is_expecting_call()) {} }
  void await_expecting_accept() { while (!pass.is_expecting_accept()) {} }
  void finish(bool caller, bool acceptor) {
    if (caller && completions[0] != 1) rt::fail("async_call completed %d times at quiescence", completions[0]);
    if (acceptor && completions[1] != 1) rt::fail("async_accept completed %d times at quiescence", completions[1]);
    if (!pass.is_idle()) rt::fail("the pass is not idle at quiescence");
  }
  bool try_accept() {
    rt::obs("tryaccept.begin");
    bool ok = pass.try_accept([&](int&& v) noexcept(false) { immediate = v; });
    if (ok != (immediate != 0)) rt::fail("try_accept returned %d but received payload %d", ok ? 1 : 0, immediate);
    rt::obs("tryaccept.end %d", ok ? 1 : 0);
    return ok;
  }
};
template <bool S> void CallRecv<S>::set_value() && noexcept { w->completed(0, true, 0); }
template <bool S> void CallRecv<S>::set_done() && noexcept { w->completed(0, false, 0); }
template <bool S> void AcceptRecv<S>::set_value(int v) && noexcept { w->completed(1, true, v); }
template <bool S> void AcceptRecv<S>::set_done() && noexcept { w->completed(1, false, 0); }
Sched psched_of(PWorld* w, int who) noexcept { return Sched{&w->ctx[who]}; }
unifex::inplace_stop_token ptoken_of(PWorld* w, int who) noexcept { return w->src[who].get_token(); }

}  // namespace

SCENARIO(pass_rendezvous) {
  PWorld w;
  int t1 = rt::spawn([&] { w.call<false>(); });
  int t2 = rt::spawn([&] { w.accept<false>(); });
  rt::join(t1); rt::join(t2);
  if (w.outcome[0] != 1 || w.accepted != 1) rt::fail("rendezvous: call outcome %d, accepted payload %d", w.outcome[0], w.accepted);
  w.finish(true, true);
}

// The call can be cancelled.  Regression monitor for DESIGN §8 #3 (fixed in /repo b17d5ba): a stop request
// after the hand-over must not turn the rescheduled completion into done.
SCENARIO(pass_cancel_call) {
  PWorld w; w.report_forwarder = true;
  int t1 = rt::spawn([&] { w.call<true>(); });
  int t2 = rt::spawn([&] { w.accept<false>(); });
  int t3 = rt::spawn([&] { w.stop(0); });
  rt::join(t3); rt::join(t1);
  if (!w.served()) {   // the call was cancelled: the acceptor must have been left waiting
    w.await_expecting_call();
    if (!w.try_call()) rt::fail("a cancelled call did not leave the acceptor waiting");
  }
  rt::join(t2);
  if (w.outcome[0] == 2 && !w.call_fn_ran && w.call_payload != 1) rt::fail("a cancelled call's arguments were touched");
  w.finish(true, true);
}

// Same with a scheduler that ignores stop tokens (same model configuration): `cancelled_` alone decides.
SCENARIO(pass_cancel_call_plain) {
  PWorld w; w.report_forwarder = true; w.ctx[0].honour_stop = false; w.ctx[1].honour_stop = false;
  int t1 = rt::spawn([&] { w.call<true>(); });
  int t2 = rt::spawn([&] { w.accept<false>(); });
  int t3 = rt::spawn([&] { w.stop(0); });
  rt::join(t3); rt::join(t1);
  if (!w.served()) {
    w.await_expecting_call();
    if (!w.try_call()) rt::fail("a cancelled call did not leave the acceptor waiting");
  }
  rt::join(t2);
  w.finish(true, true);
}

// The accept can be cancelled.  Regression monitor for the mirror image (payload dropped).
SCENARIO(pass_cancel_accept) {
  PWorld w; w.report_forwarder = true;
  int t1 = rt::spawn([&] { w.call<false>(); });
  int t2 = rt::spawn([&] { w.accept<true>(); });
  int t3 = rt::spawn([&] { w.stop(1); });
  rt::join(t3); rt::join(t2);
  if (!w.served()) {   // the accept was cancelled before a call was handed over: the caller waits
    w.await_expecting_accept();
    if (!w.try_accept()) rt::fail("a cancelled accept did not leave the caller waiting");
  }
  rt::join(t1);
  w.finish(true, true);
}

SCENARIO(pass_try_call) {
  PWorld w;
  int t1 = rt::spawn([] {});   // no caller: keeps the thread numbering of the model
  int t2 = rt::spawn([&] { w.accept<false>(); });
  int t3 = rt::spawn([&] { w.try_call(); });
  rt::join(t3);
  if (!w.served()) { w.await_expecting_call(); if (!w.try_call()) rt::fail("try_call failed although an accept was waiting"); }
  rt::join(t1); rt::join(t2);
  if (w.accepted != 2) rt::fail("the acceptor received payload %d instead of 2", w.accepted);
  w.finish(false, true);
}

SCENARIO(pass_try_accept) {
  PWorld w;
  int t1 = rt::spawn([&] { w.call<false>(); });
  int t2 = rt::spawn([] {});   // no acceptor
  int t3 = rt::spawn([&] { w.try_accept(); });
  rt::join(t3);
  if (!w.served()) { w.await_expecting_accept(); if (!w.try_accept()) rt::fail("try_accept failed although a call was waiting"); }
  rt::join(t1); rt::join(t2);
  if (w.immediate != 1 || w.outcome[0] != 1) rt::fail("try_accept received %d, call outcome %d", w.immediate, w.outcome[0]);
  w.finish(true, false);
}

// A stop request for a call that has ALREADY been claimed, while another waiter parks in the slot
// (model: cfgLateStop).  T3 claims the parked cancellable call with try_accept; as soon as the
// caller's function has run, the acceptor (T2) parks in the idle slot and T4 requests stop for the
// call, racing with the rest of the rendezvous.  The late stop() must leave the slot alone.
SCENARIO(pass_late_stop) {
  PWorld w;
  int t1 = rt::spawn([&] { w.call<true>(); });
  int t2 = rt::spawn([&] { w.await_fn_ran(); w.accept<false>(); });
  int t3 = rt::spawn([&] { w.await_expecting_accept(); if (!w.try_accept()) rt::fail("try_accept failed although a call was waiting"); });
  int t4 = rt::spawn([&] { w.await_fn_ran(); w.stop(0); });
  rt::join(t3); rt::join(t4); rt::join(t1);
  // the call is finished, nobody else can have claimed the acceptor: once its start() has returned it
  // IS parked, so the pass must expect a call and a try_call must reach it
  w.await_acceptor_started();
  if (w.completions[1] == 0 && !w.pass.is_expecting_call())
    rt::fail("an async_accept is parked but the pass does not expect a call: the waiter was wiped out of the slot");
  else if (!w.try_call()) rt::fail("try_call failed although an accept was waiting");
  rt::join(t2);
  if (w.outcome[0] != 1 || w.immediate != 1) rt::fail("late stop: call outcome %d, try_accept received %d", w.outcome[0], w.immediate);
  if (w.accepted != 2) rt::fail("late stop: the acceptor received payload %d instead of 2", w.accepted);
  w.finish(true, true);
}

RT_MAIN()
