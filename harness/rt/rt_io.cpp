// rt_io.cpp — syscall interposition for the I/O-context checks (C14).  See rt_io.hpp.
// Compiled WITHOUT -fsanitize=thread, linked next to rt.cpp (vlib.build_rt(..., extra_srcs=["rt_io.cpp"])).
#include "rt_io.hpp"
#include "rt.hpp"

#include <dlfcn.h>
#include <errno.h>
#include <sched.h>
#include <stdio.h>
#include <stdlib.h>
#include <string.h>
#include <sys/epoll.h>
#include <sys/eventfd.h>
#include <sys/timerfd.h>
#include <sys/uio.h>
#include <unistd.h>

#include <map>
#include <utility>
#include <vector>

// rt.cpp's own tsan runtime: an atomic RMW = one scheduling point + "somebody made progress"
extern "C" unsigned int __tsan_atomic32_fetch_add(volatile unsigned int* a, unsigned int v, int mo);

namespace {

template <class F>
F real(const char* name) {
  void* p = dlsym(RTLD_NEXT, name);
  if (!p) { fprintf(stderr, "rt_io: dlsym(%s) failed\n", name); _exit(97); }
  return reinterpret_cast<F>(p);
}
#define REAL(name) ([] { static auto f = real<decltype(&::name)>(#name); return f; }())

struct Fault { rtio::Call c; int fd; int kth; rtio::Act a; int arg; };

struct State {
  std::vector<Fault> faults;
  std::map<std::pair<int, int>, int> ncalls;          // (call, fd) -> count
  std::map<int, bool> traced;
  std::vector<std::pair<const char*, size_t>> dead;
  std::map<std::pair<int, int>, void*> regs;          // (epfd, fd) -> data.ptr
  // virtual timerfds (C07): descriptor (really an eventfd) -> armed?, absolute deadline on rt's virtual clock
  struct VTimer { bool armed = false; long long deadline = 0; };
  std::map<int, VTimer> vtimers;
} g;

unsigned int g_epoch = 0;
long g_fired[rtio::C_NCALLS][rtio::A_NACTS];
long g_calls[rtio::C_NCALLS];
long g_epoll_waits = 0, g_epoll_blocks = 0, g_epoll_ctls = 0;
long g_timerfd_settimes = 0, g_timerfd_fired = 0;
bool g_atexit = false;
bool (*g_filter)(void*) = nullptr;

const char* kCall[] = {"readv", "writev", "read", "write"};
const char* kAct[] = {"eagain", "eintr", "err", "short"};

void print_stats() {
  // parsed by tools/vlib.run_rt as additional stats of the run
  printf("S - rtio_epoll_waits=%ld rtio_epoll_blocks=%ld rtio_epoll_ctls=%ld", g_epoll_waits, g_epoll_blocks, g_epoll_ctls);
  if (g_timerfd_settimes) printf(" rtio_timerfd_settimes=%ld rtio_timerfd_fired=%ld", g_timerfd_settimes, g_timerfd_fired);
  for (int c = 0; c < rtio::C_NCALLS; ++c) {
    printf(" rtio_calls_%s=%ld", kCall[c], g_calls[c]);
    for (int a = 0; a < rtio::A_NACTS; ++a)
      if (g_fired[c][a]) printf(" rtio_fault_%s_%s=%ld", kCall[c], kAct[a], g_fired[c][a]);
  }
  printf("\n");
  fflush(stdout);
}

inline bool managed() { return rt::self() >= 0; }

// one scheduling point; other threads blocked in epoll_wait become runnable again afterwards
inline void kernel_effect_point() { __tsan_atomic32_fetch_add(&g_epoch, 1u, 5); }

bool in_dead(const void* p) {
  const char* q = static_cast<const char*>(p);
  for (auto& d : g.dead) if (q >= d.first && q < d.first + d.second) return true;
  return false;
}

// virtual timerfds whose deadline has been reached on the virtual clock become readable now (one-shot)
void fire_due_timers() {
  const long long now = rt::vnow_ns();
  for (auto& kv : g.vtimers) {
    if (kv.second.armed && kv.second.deadline <= now) {
      kv.second.armed = false;
      g_timerfd_fired++;
      const unsigned long long one = 1;
      ssize_t r = REAL(write)(kv.first, &one, sizeof one); (void)r;
    }
  }
}
// earliest deadline of an armed virtual timerfd registered with epoll instance `epfd` (0 = none)
long long earliest_timer_deadline(int epfd) {
  long long best = 0;
  for (auto& kv : g.vtimers)
    if (kv.second.armed && g.regs.count({epfd, kv.first}) && (best == 0 || kv.second.deadline < best)) best = kv.second.deadline;
  return best;
}

const Fault* find_fault(rtio::Call c, int fd) {
  int k = ++g.ncalls[{(int)c, fd}];
  g_calls[c]++;
  for (auto& f : g.faults) if (f.c == c && f.fd == fd && f.kth == k) return &f;
  return nullptr;
}

void obs_result(rtio::Call c, int fd, ssize_t r, int err) {
  if (c != rtio::C_READV && c != rtio::C_WRITEV) return;
  auto it = g.traced.find(fd);
  if (it == g.traced.end()) return;
  if (r >= 0) rt::obs("%s %zd", kCall[c], r);
  else if (err == EAGAIN) rt::obs("%s eagain", kCall[c]);
  else if (err == EINTR) rt::obs("%s eintr", kCall[c]);
  else rt::obs("%s err %d", kCall[c], err);
}

// returns true when the call was replaced; *out is then the result (errno set)
bool apply_simple_fault(const Fault* f, rtio::Call c, ssize_t* out) {
  if (!f || f->a == rtio::A_SHORT) return false;
  g_fired[c][f->a]++;
  errno = f->a == rtio::A_EAGAIN ? EAGAIN : f->a == rtio::A_EINTR ? EINTR : f->arg;
  *out = -1;
  return true;
}

}  // namespace

namespace rtio {

void reset() {
  g.faults.clear(); g.ncalls.clear(); g.traced.clear(); g.dead.clear(); g.regs.clear(); g.vtimers.clear(); g_filter = nullptr;
  if (!g_atexit) { g_atexit = true; atexit(print_stats); }
}
void fault(Call c, int fd, int kth, Act a, int arg) { g.faults.push_back(Fault{c, fd, kth, a, arg}); }
void trace_fd(int fd) { g.traced[fd] = true; }
void set_event_filter(bool (*f)(void*)) { g_filter = f; }
void mark_dead(const void* p, size_t n) { g.dead.emplace_back(static_cast<const char*>(p), n); }
int registrations_into(const void* p, size_t n) {
  const char* b = static_cast<const char*>(p); int k = 0;
  for (auto& r : g.regs) { const char* q = static_cast<const char*>(r.second); if (q >= b && q < b + n) ++k; }
  return k;
}
int registrations_of_fd(int fd) { int k = 0; for (auto& r : g.regs) if (r.first.second == fd) ++k; return k; }
int calls(Call c, int fd) { auto it = g.ncalls.find({(int)c, fd}); return it == g.ncalls.end() ? 0 : it->second; }

}  // namespace rtio

extern "C" {

int epoll_wait(int epfd, struct epoll_event* ev, int maxev, int timeout) {
  if (!managed()) return REAL(epoll_wait)(epfd, ev, maxev, timeout);
  g_epoll_waits++;
  rt::point("epoll_wait");
  bool blocked = false;
  for (;;) {
    if (!g.vtimers.empty()) fire_due_timers();
    int n = REAL(epoll_wait)(epfd, ev, maxev, 0);
    if (n > 0) {
      // monitor: the kernel must not hold a reference to an operation that has completed
      int k = 0;
      for (int i = 0; i < n; ++i) {
        void* p = ev[i].data.ptr;
        bool drop = false;
        if (p != nullptr && in_dead(p)) {
          rt::fail("epoll_wait delivered an event for an operation that has already completed (stale epoll registration)");
          drop = true;
        } else if (p != nullptr && g_filter && g_filter(p)) drop = true;
        if (drop) {
          for (auto it = g.regs.begin(); it != g.regs.end();) {
            if (it->first.first == epfd && it->second == p) {
              struct epoll_event e = {}; REAL(epoll_ctl)(epfd, EPOLL_CTL_DEL, it->first.second, &e); it = g.regs.erase(it);
            } else ++it;
          }
          continue;
        }
        ev[k++] = ev[i];
      }
      n = k;
    }
    if (n != 0 || timeout == 0) return n;
    if (!blocked) { blocked = true; g_epoll_blocks++; }
    long long d = g.vtimers.empty() ? 0 : earliest_timer_deadline(epfd);
    if (d > 0) rt::yield_until(d);   // ... or until the virtual clock has reached the armed timerfd's deadline
    else sched_yield();              // rt: disabled until some other thread made progress
  }
}

// ---- timerfd on the VIRTUAL clock (C07).  A managed thread's timerfd is an eventfd in disguise: it becomes
// readable (8-byte counter, like a timerfd) when rt's virtual clock has reached the armed absolute deadline;
// epoll_wait above fires due timers before every poll and lets the clock advance to the earliest deadline
// while the caller is blocked.  Re-arming or disarming clears a pending expiration, as the kernel does.
int timerfd_create(int clockid, int flags) {
  if (!managed()) return REAL(timerfd_create)(clockid, flags);
  int fd = REAL(eventfd)(0, EFD_NONBLOCK | ((flags & TFD_CLOEXEC) ? EFD_CLOEXEC : 0));
  if (fd >= 0) g.vtimers[fd] = State::VTimer{};
  return fd;
}

int timerfd_settime(int fd, int flags, const struct itimerspec* nv, struct itimerspec* ov) {
  if (!managed()) return REAL(timerfd_settime)(fd, flags, nv, ov);
  auto it = g.vtimers.find(fd);
  if (it == g.vtimers.end()) return REAL(timerfd_settime)(fd, flags, nv, ov);
  g_timerfd_settimes++;
  kernel_effect_point();
  unsigned long long junk;
  ssize_t r = REAL(read)(fd, &junk, sizeof junk); (void)r;   // drop a pending expiration
  if (ov) memset(ov, 0, sizeof *ov);
  long long v = (long long)nv->it_value.tv_sec * 1000000000LL + nv->it_value.tv_nsec;
  it = g.vtimers.find(fd);
  if (it == g.vtimers.end()) { errno = EBADF; return -1; }
  if (v == 0) it->second.armed = false;
  else { it->second.armed = true; it->second.deadline = (flags & TFD_TIMER_ABSTIME) ? v : rt::vnow_ns() + v; }
  errno = 0;
  return 0;
}

int epoll_ctl(int epfd, int op, int fd, struct epoll_event* ev) {
  if (!managed()) return REAL(epoll_ctl)(epfd, op, fd, ev);
  g_epoll_ctls++;
  kernel_effect_point();
  void* ptr = ev ? ev->data.ptr : nullptr;
  int r = REAL(epoll_ctl)(epfd, op, fd, ev);
  int e = errno;
  if (r == 0) {
    if (op == EPOLL_CTL_ADD || op == EPOLL_CTL_MOD) g.regs[{epfd, fd}] = ptr;
    else if (op == EPOLL_CTL_DEL) g.regs.erase({epfd, fd});
  }
  errno = e;
  return r;
}

ssize_t readv(int fd, const struct iovec* iov, int cnt) {
  if (!managed()) return REAL(readv)(fd, iov, cnt);
  kernel_effect_point();
  const Fault* f = find_fault(rtio::C_READV, fd);
  ssize_t r;
  if (!apply_simple_fault(f, rtio::C_READV, &r)) {
    if (f && cnt == 1 && iov[0].iov_len > (size_t)f->arg) {
      g_fired[rtio::C_READV][rtio::A_SHORT]++;
      struct iovec v = iov[0]; v.iov_len = (size_t)f->arg;
      r = REAL(readv)(fd, &v, 1);
    } else r = REAL(readv)(fd, iov, cnt);
  }
  int e = errno; obs_result(rtio::C_READV, fd, r, e); errno = e;
  return r;
}

ssize_t writev(int fd, const struct iovec* iov, int cnt) {
  if (!managed()) return REAL(writev)(fd, iov, cnt);
  kernel_effect_point();
  const Fault* f = find_fault(rtio::C_WRITEV, fd);
  ssize_t r;
  if (!apply_simple_fault(f, rtio::C_WRITEV, &r)) {
    if (f && cnt == 1 && iov[0].iov_len > (size_t)f->arg) {
      g_fired[rtio::C_WRITEV][rtio::A_SHORT]++;
      struct iovec v = iov[0]; v.iov_len = (size_t)f->arg;
      r = REAL(writev)(fd, &v, 1);
    } else r = REAL(writev)(fd, iov, cnt);
  }
  int e = errno; obs_result(rtio::C_WRITEV, fd, r, e); errno = e;
  return r;
}

ssize_t read(int fd, void* buf, size_t n) {
  if (!managed()) return REAL(read)(fd, buf, n);
  kernel_effect_point();
  const Fault* f = find_fault(rtio::C_READ, fd);
  ssize_t r;
  if (!apply_simple_fault(f, rtio::C_READ, &r)) {
    if (f && n > (size_t)f->arg) { g_fired[rtio::C_READ][rtio::A_SHORT]++; n = (size_t)f->arg; }
    r = REAL(read)(fd, buf, n);
  }
  int e = errno; obs_result(rtio::C_READ, fd, r, e); errno = e;
  return r;
}

ssize_t write(int fd, const void* buf, size_t n) {
  if (!managed()) return REAL(write)(fd, buf, n);
  kernel_effect_point();
  const Fault* f = find_fault(rtio::C_WRITE, fd);
  ssize_t r;
  if (!apply_simple_fault(f, rtio::C_WRITE, &r)) {
    if (f && n > (size_t)f->arg) { g_fired[rtio::C_WRITE][rtio::A_SHORT]++; n = (size_t)f->arg; }
    r = REAL(write)(fd, buf, n);
  }
  int e = errno; obs_result(rtio::C_WRITE, fd, r, e); errno = e;
  return r;
}

int close(int fd) {
  if (!managed()) return REAL(close)(fd);
  kernel_effect_point();
  int r = REAL(close)(fd);
  int e = errno;
  if (r < 0 && e == EBADF) rt::fail("close() of a descriptor that is not open (released twice)");
  for (auto it = g.regs.begin(); it != g.regs.end();) { if (it->first.second == fd || it->first.first == fd) it = g.regs.erase(it); else ++it; }
  g.vtimers.erase(fd);
  errno = e;
  return r;
}

}  // extern "C"
