// rt_io.hpp — syscall interposition for the I/O-context checks (C14), on top of rt.hpp.
//
// rt_io.cpp (linked ONLY into harnesses that list it in `extra_srcs`) gives strong definitions of
//   epoll_wait   a managed thread never blocks in the kernel: the real epoll_wait is called with
//                timeout 0; when nothing is ready and the caller asked to block, the thread
//                becomes a yield-blocked thread of the rt scheduler until somebody made progress
//                (every interposed syscall with a kernel-visible effect bumps the scheduler's
//                progress counter), so the scheduler stays in control and "blocked forever in
//                epoll_wait" is reported as a livelock/deadlock of the execution.
//   epoll_ctl    pass-through + shadow table of live registrations (fd -> data.ptr)
//   readv/writev/read/write   scheduling point + FAULT SCHEDULE (k-th call on an fd returns
//                EAGAIN / EINTR / an error / a short count) + optional rt::obs of the result
//   close        pass-through; drops the shadow registrations of the fd; a close() that fails
//                with EBADF on a managed thread is reported (double release)
//   timerfd_create / timerfd_settime   (C07) a managed thread's timerfd runs on rt's VIRTUAL clock: the
//                descriptor is an eventfd that epoll_wait makes readable when the virtual clock has reached
//                the armed deadline; a thread blocked in epoll_wait lets the clock advance to that deadline
// Pipes, eventfd and the epoll instance itself are REAL kernel objects.
// Unmanaged threads (the exploration driver, stdio) pass straight through.
#pragma once
#include <cstddef>

namespace rtio {

enum Call { C_READV = 0, C_WRITEV = 1, C_READ = 2, C_WRITE = 3, C_NCALLS = 4 };
enum Act { A_EAGAIN = 0, A_EINTR = 1, A_ERR = 2, A_SHORT = 3, A_NACTS = 4 };

// Call at the start of every scenario execution (clears faults, traces, dead ranges, shadow table).
void reset();

// The kth (1-based) call of `c` on descriptor `fd` does not reach the kernel unchanged:
//   A_EAGAIN / A_EINTR: returns -1 with that errno;  A_ERR: returns -1, errno = arg;
//   A_SHORT: the real call is made with the total length clipped to `arg` bytes.
void fault(Call c, int fd, int kth, Act a, int arg = 0);

// rt::obs("<call> <result>") for every readv/writev on fd: result = byte count | "eagain" | "eintr" | "err <errno>".
void trace_fd(int fd);

// [p, p+n) is the storage of an operation that has completed (was destroyed): an epoll event whose
// data.ptr points into it is a stale kernel-side reference -> rt::fail, the event is dropped.
void mark_dead(const void* p, size_t n);

// Scenario hook, called by epoll_wait for every event whose data.ptr is non-null and not in a dead
// range: return true to DROP the event (the hook reports its own rt::fail); the registration is
// then removed as well.  Used to turn "the library would now call a null function pointer" into a
// monitor message instead of a crash of the harness.  nullptr = no hook.
void set_event_filter(bool (*f)(void* data_ptr));

// live epoll registrations (shadow table) whose data.ptr points into [p, p+n) / that are for fd
int registrations_into(const void* p, size_t n);
int registrations_of_fd(int fd);

// number of calls of `c` on `fd` so far in this execution
int calls(Call c, int fd);

}  // namespace rtio
