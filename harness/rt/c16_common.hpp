// c16_common.hpp — receivers' scheduler and real-time-order monitors shared by the C16 scenarios.
#pragma once
#include "rt_main.hpp"

#include <unifex/blocking.hpp>
#include <unifex/get_stop_token.hpp>
#include <unifex/receiver_concepts.hpp>
#include <unifex/scheduler_concepts.hpp>
#include <unifex/sender_concepts.hpp>
#include <unifex/stop_token_concepts.hpp>

#include <atomic>
#include <exception>
#include <new>
#include <vector>

namespace c16 {

// A scheduler context owned by one waiter.  Inline mode: schedule() completes inside start().
// Deferred mode: start() enqueues the operation; the owner thread (or whoever calls run_all) runs
// it later.  Like manual_event_loop / inline_scheduler, the scheduled operation looks at the
// receiver's stop token when it RUNS: stop requested => set_done, else set_value.
struct Ctx {
  struct OpBase { void (*run)(OpBase*) noexcept; OpBase* next = nullptr; };
  int id = -1;
  bool deferred = false;
  bool honour_stop = true;                          // false: schedule() ignores the receiver's stop token
  OpBase* head = nullptr; OpBase* tail = nullptr;   // plain memory: rt runs one thread at a time
  std::atomic<int> signal{0};                       // bumped on every enqueue (owner may wait on it)
  int running = 0;                                  // >0 while an operation of this context executes
  int enqueued = 0, executed = 0;
  int ops_constructed = 0, ops_destroyed = 0;       // schedule operations of this context (lifetime accounting)

  void enqueue(OpBase* op) {
    op->next = nullptr;
    if (tail) tail->next = op; else head = op;
    tail = op; ++enqueued;
    signal.fetch_add(1, std::memory_order_acq_rel);   // scheduling point + wake-up of a waiting owner
  }
  bool run_one() {
    OpBase* op = head; if (!op) return false;
    head = op->next; if (!head) tail = nullptr;
    ++running; ++executed; op->run(op); --running;
    return true;
  }
  // owner thread: run operations until `pred()` holds; blocks (schedulably) while there is nothing
  // to do.  Whoever makes `pred` true from another thread must bump `signal`.
  template <typename Pred> void drive_until(Pred pred) {
    for (;;) {
      int s = signal.load(std::memory_order_acquire);
      if (run_one()) continue;
      if (pred()) return;
      while (signal.load(std::memory_order_acquire) == s) {}   // parked by rt until somebody bumps it
    }
  }
  // owner thread: block (schedulably) until an operation is there, run it
  void wait_and_run_one() {
    for (;;) {
      int s = signal.load(std::memory_order_acquire);
      if (run_one()) return;
      while (signal.load(std::memory_order_acquire) == s) {}   // parked by rt until somebody enqueues
    }
  }
};

template <typename Receiver>
struct SchedOp : Ctx::OpBase {
  Ctx* ctx; Receiver r;
  SchedOp(Ctx* c, Receiver&& rr) : ctx(c), r(std::move(rr)) { this->run = &SchedOp::run_impl; ++c->ops_constructed; }
  ~SchedOp() { ++ctx->ops_destroyed; }
  SchedOp(SchedOp&&) = delete;
  static void run_impl(Ctx::OpBase* b) noexcept {
    auto* self = static_cast<SchedOp*>(b);
    if constexpr (unifex::is_stop_never_possible_v<unifex::stop_token_type_t<Receiver&>>) {
      unifex::set_value(std::move(self->r));
    } else {
      if (self->ctx->honour_stop && unifex::get_stop_token(self->r).stop_requested()) unifex::set_done(std::move(self->r));
      else unifex::set_value(std::move(self->r));
    }
  }
  void start() noexcept {
    if (ctx->deferred) ctx->enqueue(this);
    else { Ctx* c = ctx; ++c->running; ++c->executed; ++c->enqueued; run_impl(this); /* *this may be gone */ --c->running; }
  }
};

struct Sched {
  Ctx* ctx;
  struct Sender {
    Ctx* ctx;
    template <template <typename...> class Variant, template <typename...> class Tuple>
    using value_types = Variant<Tuple<>>;
    template <template <typename...> class Variant>
    using error_types = Variant<std::exception_ptr>;
    static constexpr bool sends_done = true;
    static constexpr unifex::blocking_kind blocking = unifex::blocking_kind::maybe;
    template <typename Receiver>
    SchedOp<unifex::remove_cvref_t<Receiver>> connect(Receiver&& r) const {
      return SchedOp<unifex::remove_cvref_t<Receiver>>{ctx, (Receiver&&)r};
    }
  };
  Sender schedule() const noexcept { return Sender{ctx}; }
  friend bool operator==(Sched a, Sched b) noexcept { return a.ctx == b.ctx; }
  friend bool operator!=(Sched a, Sched b) noexcept { return a.ctx != b.ctx; }
};

// storage for a non-movable operation state, constructed in place from a factory (copy elision)
template <typename T>
struct Slot {
  alignas(T) unsigned char buf[sizeof(T)];
  bool live = false;
  template <typename F> T& make(F&& f) { T* p = ::new (static_cast<void*>(buf)) T(f()); live = true; return *p; }
  T& get() { return *reinterpret_cast<T*>(buf); }
  void destroy() { if (live) { live = false; get().~T(); } }
  ~Slot() { destroy(); }
};

// ---- real-time order bookkeeping (independent of the Lean model) -------------------------
struct Span { long b = -1, e = -1; };   // logical time stamps of a call's begin / return
struct Clock {
  long now = 0;
  long tick() { return ++now; }
};

// what set()/reset() calls happened when (manual-reset events): used to decide from the real-time
// order alone whether the event was certainly / possibly set during an interval
struct SetLog {
  bool start_set = false;
  Clock clk;
  std::vector<Span> sets, resets;
  size_t begin_set() { sets.push_back({clk.tick(), -1}); return sets.size() - 1; }
  void end_set(size_t k) { sets[k].e = clk.tick(); }
  size_t begin_reset() { resets.push_back({clk.tick(), -1}); return resets.size() - 1; }
  void end_reset(size_t k) { resets[k].e = clk.tick(); }
  // certainly set during the whole interval [b, e]: a set() returned before b (or the event started
  // set) and no reset() overlaps or follows it up to e
  bool surely_set(long b, long e) const {
    auto no_reset_after = [&](long from) {
      for (auto& r : resets) if (r.e < 0 || (r.e > from && r.b < e)) return false;
      return true;
    };
    if (start_set && no_reset_after(0)) return true;
    for (auto& s : sets) if (s.e >= 0 && s.e < b && no_reset_after(s.b)) return true;
    return false;
  }
  // possibly set at some point up to time e
  bool maybe_set(long e) const {
    if (start_set) return true;
    for (auto& s : sets) if (s.b < e) return true;
    return false;
  }
  // a set() call began after time t
  bool set_began_after(long t) const { for (auto& s : sets) if (s.b > t) return true; return false; }
};

}  // namespace c16
