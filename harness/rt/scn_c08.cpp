// scn_c08.cpp — C08 scenarios on the REAL v2 / v1 / v0 async_scope under the controlled scheduler.
//
// Each scenario mirrors one configuration (same name, same thread numbering: T0 = scenario body,
// T1, T2 … = spawned in that order) of
//   lean/UnifexModel/Proto/ScopeV2.lean   (scenarios v2_*, driver model "scopev2")
//   lean/UnifexModel/Proto/ScopeV1.lean   (scenarios v1_*, driver model "scopev1")
//   lean/UnifexModel/Proto/ScopeV0.lean   (scenarios v0_*, driver model "scopev0")
//
// Nested work is a manually completed leaf sender written here: its operation registers itself in
// the World when started and is completed later by whichever thread calls `w.fire(i)`.
// Observable events (rt::obs):
//   op<i>.nest      a thread begins nest()/spawn() of operation i
//   op<i>.start     the leaf operation i was started (so it was admitted by the scope)
//   op<i>.rejected  nest()/spawn() + start returned without the leaf having been started
//   op<i>.stop      the leaf's stop callback ran (v1/v0: stop request delivered to the work)
//   op<i>.complete  a thread begins to complete leaf i (calls set_value/set_done on its receiver)
//   op<i>.finished  the receiver connected to the nest()/attach() sender got its completion
//   join<j>.begin / join<j>.done          join()/complete()/cleanup() sender started / completed
//   stop.begin / stop.end                 request_stop() call / return
// Monitors (independent of the Lean model) are the rt::fail calls below.
#include "rt_main.hpp"

#include <unifex/inline_scheduler.hpp>
#include <unifex/manual_lifetime.hpp>
#include <unifex/nest.hpp>
#include <unifex/spawn_detached.hpp>
#include <unifex/v0/async_scope.hpp>
#include <unifex/v1/async_scope.hpp>
#include <unifex/v2/async_scope.hpp>

#include <cstring>
#include <exception>
#include <new>

namespace {

constexpr int MAXOPS = 3, MAXJ = 2;

struct LeafBase {
  virtual void fire() noexcept = 0;
};

// ---- bookkeeping shared by all flavours (plain memory: no scheduling points) -----------------
struct Book {
  int N = 0, J = 0;
  bool nest_begun[MAXOPS] = {}, nest_after_close[MAXOPS] = {}, started[MAXOPS] = {}, fired[MAXOPS] = {},
       finished[MAXOPS] = {}, rejected_done[MAXOPS] = {}, spawn_returned[MAXOPS] = {}, stop_seen[MAXOPS] = {},
       has_outer[MAXOPS] = {};
  LeafBase* leaf[MAXOPS] = {};
  int join_begun[MAXJ] = {}, join_dones[MAXJ] = {};
  bool close_known = false;    // some join start() / request_stop() has returned, or some join completed
  bool stop_returned = false;  // a request_stop() (or the request_stop inside a started cleanup()) has returned
  int api_expected = 0, api_returned = 0;  // nest/spawn, join-start and request_stop calls of the scenario
  bool destroyed = false;

  int joins_done() const { int n = 0; for (int j = 0; j < J; ++j) n += join_dones[j]; return n; }
};

// ---- the leaf sender ---------------------------------------------------------------------------
template <typename W, typename R>
struct LeafOp final : LeafBase {
  struct OnStop {
    LeafOp* op;
    void operator()() noexcept { op->w->op_stop_seen(op->i); }
  };
  using stoken_t = unifex::stop_token_type_t<R>;
  using cb_t = typename stoken_t::template callback_type<OnStop>;

  W* w; int i; R r;
  unifex::manual_lifetime<cb_t> cb;

  template <typename R2>
  LeafOp(W* w_, int i_, R2&& r2) : w(w_), i(i_), r(static_cast<R2&&>(r2)) {}
  LeafOp(LeafOp&&) = delete;

  void start() noexcept {
    w->leaf_started(i, this);
    cb.construct(unifex::get_stop_token(r), OnStop{this});   // runs OnStop inline if stop was already requested
    rt::point("leaf-started");
  }
  void fire() noexcept override {
    W* ww = w; int ii = i;
    cb.destruct();                      // blocks while OnStop runs on another thread
    bool stopped = ww->b.stop_seen[ii];
    rt::point("leaf-completing");
    // from here *this may be destroyed by the receiver
    if (stopped) unifex::set_done(std::move(r)); else unifex::set_value(std::move(r));
  }
};

template <typename W>
struct LeafSender {
  template <template <typename...> class Variant, template <typename...> class Tuple>
  using value_types = Variant<Tuple<>>;
  template <template <typename...> class Variant>
  using error_types = Variant<std::exception_ptr>;
  static constexpr bool sends_done = true;
  static constexpr unifex::blocking_kind blocking = unifex::blocking_kind::maybe;
  static constexpr bool is_always_scheduler_affine = false;

  W* w; int i;

  template <typename R>
  LeafOp<W, unifex::remove_cvref_t<R>> connect(R&& r) const {
    return LeafOp<W, unifex::remove_cvref_t<R>>{w, i, static_cast<R&&>(r)};
  }
};

// ---- receivers ---------------------------------------------------------------------------------
template <typename W>
struct OpReceiver {   // connected to the nest()/attach() sender
  W* w; int i;
  void set_value() noexcept { w->op_finished(i, false); }
  void set_done() noexcept { w->op_finished(i, true); }
  void set_error(std::exception_ptr) noexcept { rt::fail("op%d: nest sender completed with error", i); }
};

template <typename W>
struct JoinReceiver {
  W* w; int j;
  void set_value() noexcept { w->join_done(j); }
  void set_done() noexcept { rt::fail("join%d completed with done", j); }
  void set_error(std::exception_ptr) noexcept { rt::fail("join%d completed with error", j); }
  friend unifex::inline_scheduler tag_invoke(unifex::tag_t<unifex::get_scheduler>, const JoinReceiver&) noexcept { return {}; }
};

// ---- flavours ----------------------------------------------------------------------------------
struct V2 {
  using Scope = unifex::v2::async_scope;
  static constexpr bool has_nest = true, has_stop = false;
  static auto join(Scope& s) { return s.join(); }
  static auto cleanup(Scope& s) { return s.join(); }
  static void request_stop(Scope&) {}
};
struct V1 {
  using Scope = unifex::v1::async_scope;
  static constexpr bool has_nest = true, has_stop = true;
  static auto join(Scope& s) { return s.complete(); }
  static auto cleanup(Scope& s) { return s.cleanup(); }
  static void request_stop(Scope& s) { s.request_stop(); }
};
struct V0 {
  using Scope = unifex::v0::async_scope;
  static constexpr bool has_nest = false, has_stop = true;
  static auto join(Scope& s) { return s.complete(); }
  static auto cleanup(Scope& s) { return s.cleanup(); }
  static void request_stop(Scope& s) { s.request_stop(); }
};

template <typename F>
struct World {
  using Scope = typename F::Scope;
  using Self = World<F>;
  Book b;

  alignas(Scope) unsigned char scope_buf[sizeof(Scope)];
  Scope* scope;

  // storage of the operation states (alive until the scenario ends)
  template <bool HasNest, typename Dummy = void>
  struct NestStore {
    using sender_t = decltype(unifex::nest(std::declval<LeafSender<Self>>(), std::declval<Scope&>()));
    using op_t = unifex::connect_result_t<sender_t, OpReceiver<Self>>;
    unifex::manual_lifetime<op_t> op[MAXOPS];
    bool live[MAXOPS] = {};
  };
  template <typename Dummy>
  struct NestStore<false, Dummy> {};
  NestStore<F::has_nest> nest_store;

  using join_op_t = unifex::connect_result_t<decltype(F::join(std::declval<Scope&>())), JoinReceiver<Self>>;
  using cleanup_op_t = unifex::connect_result_t<decltype(F::cleanup(std::declval<Scope&>())), JoinReceiver<Self>>;
  unifex::manual_lifetime<join_op_t> join_op[MAXJ];
  unifex::manual_lifetime<cleanup_op_t> cleanup_op[MAXJ];
  int join_kind[MAXJ] = {};   // 0 none, 1 join, 2 cleanup

  World(int N, int J, int api_expected) {
    b.N = N; b.J = J; b.api_expected = api_expected;
    scope = ::new (static_cast<void*>(scope_buf)) Scope();
  }
  ~World() {
    if constexpr (F::has_nest) {
      for (int i = 0; i < MAXOPS; ++i) if (nest_store.live[i]) nest_store.op[i].destruct();
    }
    for (int j = 0; j < MAXJ; ++j) {
      if (join_kind[j] == 1) join_op[j].destruct();
      if (join_kind[j] == 2) cleanup_op[j].destruct();
    }
    if (!b.destroyed) scope->~Scope();
  }

  // The owner may destroy the scope as soon as every join it started has completed and every
  // call it made on the scope has returned.  We do exactly that, and zero the memory, so that any
  // later access of the library to the scope is visible (checked in finish()).
  void api_returned() { ++b.api_returned; maybe_destroy(); }
  void maybe_destroy() {
    if (b.destroyed || b.J == 0) return;
    if (b.joins_done() < b.J || b.api_returned < b.api_expected) return;
    for (int i = 0; i < b.N; ++i)
      if (b.started[i] && !b.fired[i]) return;   // already reported by join_done
    scope->~Scope();
    std::memset(scope_buf, 0, sizeof(scope_buf));
    b.destroyed = true;
  }

  // ---- calls made by scenario threads ------------------------------------------------------
  void spawn_nest(int i) {   // nest() + connect + start with a receiver of ours
    if constexpr (F::has_nest) {
      begin_nest(i);
      b.has_outer[i] = true;
      nest_store.op[i].construct_with([&] {
        return unifex::connect(unifex::nest(LeafSender<Self>{this, i}, *scope), OpReceiver<Self>{this, i});
      });
      nest_store.live[i] = true;
      unifex::start(nest_store.op[i].get());
      end_nest(i);
    }
  }
  void spawn_detached(int i) {   // v2/v1: spawn_detached(); v0: scope.spawn()
    begin_nest(i);
    if constexpr (F::has_nest) unifex::spawn_detached(LeafSender<Self>{this, i}, *scope);
    else scope->spawn(LeafSender<Self>{this, i});
    end_nest(i);
  }
  void begin_nest(int i) {
    if (b.destroyed) rt::fail("scenario error: nest on a destroyed scope");
    b.nest_begun[i] = true;
    b.nest_after_close[i] = b.close_known;
    rt::obs("op%d.nest", i);
  }
  void end_nest(int i) {
    b.spawn_returned[i] = true;
    if (!b.started[i]) {
      if (b.has_outer[i] && !b.rejected_done[i]) rt::fail("op%d: nest sender of a closed scope was started but did not complete with done", i);
      rt::obs("op%d.rejected", i);
    }
    api_returned();
  }
  void fire(int i) {
    if (!b.started[i] || b.fired[i]) return;   // rejected: nothing to complete
    b.fired[i] = true;
    if (F::has_stop && b.stop_returned && !b.stop_seen[i])
      rt::fail("op%d: request_stop() returned but the outstanding operation never saw a stop request", i);
    rt::obs("op%d.complete", i);
    b.leaf[i]->fire();
  }
  void join(int j) {
    begin_join(j);
    join_kind[j] = 1;
    join_op[j].construct_with([&] { return unifex::connect(F::join(*scope), JoinReceiver<Self>{this, j}); });
    unifex::start(join_op[j].get());
    b.close_known = true;
    api_returned();
  }
  void cleanup(int j) {
    begin_join(j);
    join_kind[j] = 2;
    cleanup_op[j].construct_with([&] { return unifex::connect(F::cleanup(*scope), JoinReceiver<Self>{this, j}); });
    unifex::start(cleanup_op[j].get());
    b.close_known = true;
    b.stop_returned = true;
    api_returned();
  }
  void request_stop() {
    if (b.destroyed) rt::fail("scenario error: request_stop on a destroyed scope");
    rt::obs("stop.begin");
    F::request_stop(*scope);
    b.close_known = true;
    b.stop_returned = true;
    rt::obs("stop.end");
    api_returned();
  }
  void begin_join(int j) {
    if (b.destroyed) rt::fail("scenario error: join on a destroyed scope");
    ++b.join_begun[j];
    rt::obs("join%d.begin", j);
  }

  // ---- callbacks from the library ------------------------------------------------------------
  void leaf_started(int i, LeafBase* l) {
    if (b.started[i]) rt::fail("op%d started twice", i);
    if (b.nest_after_close[i]) rt::fail("op%d was nested after the scope was closed but was started", i);
    if (b.joins_done() > 0) rt::fail("op%d started after a join completed", i);
    b.started[i] = true; b.leaf[i] = l;
    rt::obs("op%d.start", i);
  }
  void op_stop_seen(int i) {
    b.stop_seen[i] = true;
    rt::obs("op%d.stop", i);
    rt::point("in-stop-callback");
  }
  void op_finished(int i, bool done) {
    if (!b.started[i]) {
      if (!done) rt::fail("op%d: never started but completed with value", i);
      if (b.rejected_done[i]) rt::fail("op%d: rejected nest sender completed twice", i);
      b.rejected_done[i] = true;
      return;
    }
    if (b.finished[i]) rt::fail("op%d: nest sender completed twice", i);
    if (!b.fired[i]) rt::fail("op%d: nest sender completed before its leaf completed", i);
    b.finished[i] = true;
    rt::obs("op%d.finished", i);
    rt::point("op-finished");
  }
  void join_done(int j) {
    if (++b.join_dones[j] > 1) rt::fail("join%d completed twice", j);
    if (b.join_begun[j] == 0) rt::fail("join%d completed but was never started", j);
    for (int i = 0; i < b.N; ++i) {
      if (b.started[i] && !b.fired[i]) rt::fail("join%d completed while op%d (admitted and started) has not completed", j, i);
      if (b.started[i] && b.has_outer[i] && !b.finished[i]) rt::fail("join%d completed before the nest sender of op%d delivered its completion", j, i);
    }
    b.close_known = true;
    rt::obs("join%d.done", j);
    rt::point("join-done");
    maybe_destroy();
  }

  // ---- end of scenario (all threads joined) ----------------------------------------------------
  void finish() {
    for (int j = 0; j < b.J; ++j)
      if (b.join_begun[j] && b.join_dones[j] != 1) rt::fail("join%d was started but completed %d times", j, b.join_dones[j]);
    for (int i = 0; i < b.N; ++i) {
      if (b.nest_begun[i] && !b.spawn_returned[i]) rt::fail("op%d: spawn never returned", i);
      if (b.started[i] && !b.fired[i]) rt::fail("scenario error: op%d never completed", i);
      if (b.started[i] && b.has_outer[i] && !b.finished[i]) rt::fail("op%d: leaf completed but the nest sender never delivered a completion", i);
    }
    if (b.destroyed) {
      for (unsigned k = 0; k < sizeof(scope_buf); ++k)
        if (scope_buf[k] != 0) { rt::fail("scope memory written after all joins completed and all calls on the scope returned (scope destroyed)"); break; }
    }
  }
};

}  // namespace

// ================================================================================================
// v2::async_scope
// ================================================================================================

// one worker nests + starts + completes op0, racing with one join on T2
SCENARIO(v2_race1) {
  World<V2> w(1, 1, 2);
  int t1 = rt::spawn([&] { w.spawn_nest(0); w.fire(0); });
  int t2 = rt::spawn([&] { w.join(0); });
  rt::join(t1); rt::join(t2);
  w.finish();
}

// two workers and one joiner, each on its own thread
SCENARIO(v2_wide) {
  World<V2> w(2, 1, 3);
  int t1 = rt::spawn([&] { w.spawn_nest(0); w.fire(0); });
  int t2 = rt::spawn([&] { w.spawn_nest(1); w.fire(1); });
  int t3 = rt::spawn([&] { w.join(0); });
  rt::join(t1); rt::join(t2); rt::join(t3);
  w.finish();
}

// T0 nests op0 and joins; T1 nests + starts + completes op1, then completes op0
SCENARIO(v2_race2) {
  World<V2> w(2, 1, 3);
  w.spawn_nest(0);
  int t1 = rt::spawn([&] { w.spawn_nest(1); w.fire(1); w.fire(0); });
  w.join(0);
  rt::join(t1);
  w.finish();
}

// nest after close: T0 starts the join itself, then nests op1 (must be rejected with done); op0
// was admitted before and is completed by T1
SCENARIO(v2_late_nest) {
  World<V2> w(2, 1, 3);
  w.spawn_nest(0);
  int t1 = rt::spawn([&] { w.fire(0); });
  w.join(0);
  w.spawn_nest(1);
  rt::join(t1);
  w.finish();
}

// v2_race2 with spawn_detached instead of nest + own receiver
SCENARIO(v2_detached) {
  World<V2> w(2, 1, 3);
  w.spawn_detached(0);
  int t1 = rt::spawn([&] { w.spawn_detached(1); w.fire(1); w.fire(0); });
  w.join(0);
  rt::join(t1);
  w.finish();
}

// two racing joins (T0, T2) and one operation completed by T1
SCENARIO(v2_two_joins) {
  World<V2> w(1, 2, 3);
  w.spawn_nest(0);
  int t1 = rt::spawn([&] { w.fire(0); });
  int t2 = rt::spawn([&] { w.join(1); });
  w.join(0);
  rt::join(t1); rt::join(t2);
  w.finish();
}

// ================================================================================================
// v1::async_scope (stop source + v2 scope + attach operation)
// ================================================================================================

SCENARIO(v1_complete) {
  World<V1> w(1, 1, 2);
  int t1 = rt::spawn([&] { w.spawn_nest(0); w.fire(0); });
  int t2 = rt::spawn([&] { w.join(0); });
  rt::join(t1); rt::join(t2);
  w.finish();
}

// cleanup() racing with the completion of the only outstanding operation
SCENARIO(v1_cleanup) {
  World<V1> w(1, 1, 2);
  w.spawn_nest(0);
  int t1 = rt::spawn([&] { w.fire(0); });
  w.cleanup(0);
  rt::join(t1);
  w.finish();
}

// T0 nests op0 and runs complete(); T1 completes op0; T2 calls request_stop()
SCENARIO(v1_stop_join) {
  World<V1> w(1, 1, 3);
  w.spawn_nest(0);
  int t1 = rt::spawn([&] { w.fire(0); });
  int t2 = rt::spawn([&] { w.request_stop(); });
  w.join(0);
  rt::join(t1); rt::join(t2);
  w.finish();
}

// request_stop() racing with the admission and start of op0; T0 then runs complete()
SCENARIO(v1_stop_spawn) {
  World<V1> w(1, 1, 3);
  int t1 = rt::spawn([&] { w.spawn_nest(0); w.fire(0); });
  w.request_stop();
  w.join(0);
  rt::join(t1);
  w.finish();
}

// ================================================================================================
// v0::async_scope
// ================================================================================================

SCENARIO(v0_complete) {
  World<V0> w(2, 1, 3);
  w.spawn_detached(0);
  int t1 = rt::spawn([&] { w.spawn_detached(1); w.fire(1); w.fire(0); });
  w.join(0);
  rt::join(t1);
  w.finish();
}

SCENARIO(v0_cleanup) {
  World<V0> w(1, 1, 2);
  w.spawn_detached(0);
  int t1 = rt::spawn([&] { w.fire(0); });
  w.cleanup(0);
  rt::join(t1);
  w.finish();
}

// two closers: request_stop() on T2, complete() on T0
SCENARIO(v0_stop_join) {
  World<V0> w(1, 1, 3);
  w.spawn_detached(0);
  int t1 = rt::spawn([&] { w.fire(0); });
  int t2 = rt::spawn([&] { w.request_stop(); });
  w.join(0);
  rt::join(t1); rt::join(t2);
  w.finish();
}

// admission racing the close at count 0: complete() on the empty scope (T0) while T1 spawns
SCENARIO(v0_spawn_race) {
  World<V0> w(1, 1, 2);
  int t1 = rt::spawn([&] { w.spawn_detached(0); w.fire(0); });
  w.join(0);
  rt::join(t1);
  w.finish();
}

RT_MAIN()
