// scn_c19.cpp — C19 scenarios on the REAL cancel wrappers:
//   cancellable<>/try_complete (include/unifex/cancellable.hpp)      scenarios c_*   model "cancellable"
//   detach_on_cancel          (include/unifex/detach_on_cancel.hpp)  scenarios d_*   model "detachoncancel"
//   canary / watcher / guard  (include/unifex/canary.hpp)            scenarios k_*   model "canary"
//   stop_on_request           (include/unifex/stop_on_request.hpp)   scenarios s_*   model "stoponrequest"
// Each scenario mirrors one configuration of the Lean model of the same name (same thread
// numbering: T0 = scenario body, T1/T2 = spawned in that order).  The operation state lives in
// placement storage that the receiver destroys and fills with 0xA5 when it is completed; monitors
// (rt::fail) are independent of the Lean models.
#include "rt_main.hpp"

#include <unifex/cancellable.hpp>
#include <unifex/canary.hpp>
#include <unifex/detach_on_cancel.hpp>
#include <unifex/inplace_stop_token.hpp>
#include <unifex/receiver_concepts.hpp>
#include <unifex/sender_concepts.hpp>
#include <unifex/stop_on_request.hpp>

#include <atomic>
#include <cstdint>
#include <cstdlib>
#include <cstring>
#include <exception>
#include <new>
#include <optional>
#include <type_traits>
#include <utility>

namespace {

constexpr unsigned char POISON = 0xA5;
constexpr uint32_t MAGIC = 0x600DF00Du;

// true iff every byte of [p, p+n) still holds the poison pattern
bool all_poison(const unsigned char* p, size_t n) {
  for (size_t i = 0; i < n; ++i) if (p[i] != POISON) return false;
  return true;
}

// =====================================================================================
//  cancellable<>
// =====================================================================================
namespace can {

struct World;
World* g_w = nullptr;

struct Rcv {
  World* w;
  void set_value() && noexcept;
  void set_done() && noexcept;
  void set_error(std::exception_ptr) && noexcept;
  friend unifex::inplace_stop_token tag_invoke(unifex::tag_t<unifex::get_stop_token>, const Rcv& r) noexcept;
};

template <typename R>
struct LeafOp;

struct World {
  // configuration
  bool sync = false;      // the nested op completes synchronously inside start()
  bool arb = true;        // the nested op arbitrates completion vs stop() itself (like a queue removal)
  bool destroy = true;    // the receiver destroys the operation state when it is completed
  bool early = false;     // StopsEarly template argument (for the monitors only)
  bool after_start = false;   // threads A and B become active only after start() has returned

  unifex::inplace_stop_source src;
  alignas(64) unsigned char storage[512];
  size_t op_size = 0;
  void (*destroy_fn)(void*) = nullptr;

  // shared between the nested op and its "I/O thread" A (outside the op state, like the queue of
  // async_mutex or the shared_ptr of cancellable_test's test_sender_opstate)
  std::atomic<int> a_go{0};         // 0 = not launched, 1 = launched, 2 = op finished without launch
  std::atomic<bool> start_done{false};
  std::atomic<bool> pending{false};
  LeafOp<Rcv>* leaf = nullptr;

  // monitors' bookkeeping (plain memory: exactly one managed thread runs at a time)
  bool op_destroyed = false;
  int completions = 0;
  int hook_runs = 0;
  int nested_starts = 0;
  int tc_true = 0;
  bool start_returned = false;
  bool stop_returned = false;       // request_stop() has returned
  bool stop_before_start = false;   // … before start() was called

  void complete(const char* kind) {
    if (op_destroyed) rt::fail("receiver completed after the operation state was destroyed");
    if (++completions > 1) { rt::fail("receiver completed twice"); return; }
    rt::obs("rcv.%s", kind);
    rt::point("in-completion");   // the receiver takes time
    if (destroy) destroy_now();
    int z = 0; a_go.compare_exchange_strong(z, 2);
  }
  void destroy_now() {
    destroy_fn(storage);
    std::memset(storage, POISON, op_size);
    op_destroyed = true;
  }
  void finish() {
    if (completions != 1) rt::fail("receiver completed %d times at quiescence", completions);
    if (!destroy && !op_destroyed) destroy_now();
    if (!all_poison(storage, op_size)) rt::fail("operation state memory was written after its destruction");
  }
};

void Rcv::set_value() && noexcept { World* ww = w; ww->complete("value"); }
void Rcv::set_done() && noexcept { World* ww = w; ww->complete("done"); }
void Rcv::set_error(std::exception_ptr) && noexcept { World* ww = w; ww->complete("error"); }
unifex::inplace_stop_token tag_invoke(unifex::tag_t<unifex::get_stop_token>, const Rcv& r) noexcept {
  return r.w->src.get_token();
}

bool tc(LeafOp<Rcv>* op);   // try_complete + bookkeeping

// The `completed` bit of cancellable's state_ as it is at the first statement of the stop() hook.  No
// other thread can have run since the fetch_or that decided the call (the scheduler switches only
// before atomic operations and at rt::point), so this is the value that fetch_or observed: the hook
// must only be called for an operation whose completion nobody has claimed yet.  Plain read (memcpy),
// hence no scheduling point.
template <typename NestedOp>
bool claimed_at_call(NestedOp* self) {
  using ops = unifex::_cancellable::_op<NestedOp>;
  auto* ns = reinterpret_cast<typename ops::non_stop_type*>(self);
  unsigned char b;
  std::memcpy(&b, reinterpret_cast<const unsigned char*>(&ns->state_), 1);
  return (b & ops::completed) != 0;
}

template <typename R>
struct LeafOp {
  R rcv;
  bool started_ = false;    // like v2::async_mutex's lock op
  uint32_t magic = MAGIC;

  void start() noexcept {
    World* w = g_w;
    rt::obs("nested.start");
    if (w->op_destroyed) { rt::fail("nested start() on a destroyed operation state"); return; }
    if (w->hook_runs) rt::fail("nested start() after the stop() hook");
    if (++w->nested_starts > 1) rt::fail("nested start() twice");
    if (w->early && w->stop_before_start) rt::fail("StopsEarly: nested start() although stop was requested before start()");
    started_ = true;
    if (w->sync) {
      if (tc(this)) unifex::set_value(std::move(rcv));
      return;
    }
    w->leaf = this;
    w->pending.store(true);
    w->a_go.store(1);
  }

  void stop() noexcept {
    World* w = g_w;
    const bool claimed = !w->op_destroyed && claimed_at_call(this);
    rt::point("hook-entry");   // the call itself is not atomic with the fetch_or that decided it
    rt::obs(claimed ? "hook.stop claimed" : "hook.stop");
    if (claimed) rt::fail("stop() hook called although try_complete() had already claimed the completion");
    if (w->op_destroyed) { rt::fail("stop() hook ran on a completed operation"); return; }
    if (magic != MAGIC) rt::fail("stop() hook sees a corrupted nested operation");
    if (w->completions > 0) rt::fail("stop() hook ran on a completed operation");
    if (++w->hook_runs > 1) rt::fail("stop() hook ran twice");
    if (!w->early && w->nested_starts == 0) rt::fail("stop() hook before start() without StopsEarly");
    rt::point("in-hook");   // user code in the hook takes time
    if (w->op_destroyed) { rt::fail("stop() hook ran on a completed operation"); return; }
    if (!started_) {
      // StopsEarly: never launched
      if (tc(this)) unifex::set_done(std::move(rcv));
      return;
    }
    if (w->arb) {
      if (w->pending.exchange(false)) {
        if (tc(this)) unifex::set_done(std::move(rcv));
        else rt::fail("try_complete() refused the unique claimant (stop hook)");
      }
    } else {
      if (tc(this)) unifex::set_done(std::move(rcv));
    }
  }
};

bool tc(LeafOp<Rcv>* op) {
  World* w = g_w;
  bool r = unifex::try_complete(op);
  if (r && ++w->tc_true > 1) rt::fail("try_complete() returned true twice");
  return r;
}

struct LeafSender {
  template <template <typename...> class Variant, template <typename...> class Tuple>
  using value_types = Variant<Tuple<>>;
  template <template <typename...> class Variant>
  using error_types = Variant<std::exception_ptr>;
  static constexpr bool sends_done = true;

  template <typename R>
  friend LeafOp<std::remove_cv_t<std::remove_reference_t<R>>>
  tag_invoke(unifex::tag_t<unifex::connect>, LeafSender&&, R&& r) noexcept {
    return LeafOp<std::remove_cv_t<std::remove_reference_t<R>>>{(R&&)r};
  }
};

template <bool Early>
struct Ops {
  using Sender = unifex::cancellable<LeafSender, Early>;
  using OpT = decltype(unifex::connect(std::declval<Sender>(), std::declval<Rcv>()));
  static void destroy(void* p) { static_cast<OpT*>(p)->~OpT(); }
  // connect + start, as the thread that starts the operation
  static void start(World& w) {
    static_assert(sizeof(OpT) <= sizeof(w.storage), "storage too small");
    w.early = Early;
    w.op_size = sizeof(OpT);
    w.destroy_fn = &destroy;
    OpT* op = ::new (static_cast<void*>(w.storage)) OpT(unifex::connect(Sender{LeafSender{}}, Rcv{&w}));
    w.stop_before_start = w.stop_returned;
    rt::obs("start.begin");
    unifex::start(*op);
    w.start_returned = true;
    rt::obs("start.end");
    w.start_done.store(true);
  }
};

// the nested operation's own completion source (an I/O thread, a queue pop, …)
void thread_a(World& w) {
  if (w.after_start) { while (!w.start_done.load()) {} }
  while (w.a_go.load() == 0) {}
  bool took;
  if (w.arb) took = w.pending.exchange(false);
  else took = (w.a_go.load() == 1);
  rt::obs("A.take %d", took ? 1 : 0);
  if (!took) return;
  if (w.op_destroyed) { rt::fail("the unique claimant found the operation state destroyed"); return; }
  if (tc(w.leaf)) unifex::set_value(std::move(w.leaf->rcv));
  else if (w.arb) rt::fail("try_complete() refused the unique claimant (completion)");
}

void thread_b(World& w) {
  if (w.after_start) { while (!w.start_done.load()) {} }
  rt::obs("stop.begin");
  w.src.request_stop();
  w.stop_returned = true;
  rt::obs("stop.end");
}

template <bool Early>
void run(bool sync, bool arb, bool destroy, bool with_a, bool with_b = true, bool after_start = false) {
  World w; g_w = &w;
  w.sync = sync; w.arb = arb; w.destroy = destroy; w.after_start = after_start;
  int ta = -1, tb = -1;
  if (with_a) ta = rt::spawn([&] { thread_a(w); });
  if (with_b) tb = rt::spawn([&] { thread_b(w); });
  Ops<Early>::start(w);
  if (ta >= 0) rt::join(ta);
  if (tb >= 0) rt::join(tb);
  w.finish();
  g_w = nullptr;
}

}  // namespace can

// =====================================================================================
//  detach_on_cancel
// =====================================================================================
// tracked heap: the one allocation of detach_on_cancel's detached_state (made by make_unique inside
// connect) is recognised by size while `armed`; its deallocation is counted, the block is poisoned
// and kept in quarantine until the end of the execution so that late writes are visible.
namespace heap {
size_t track_size = 0;
bool armed = false;
void* tracked = nullptr;
int allocs = 0, frees = 0;
void reset(size_t sz) { track_size = sz; armed = true; tracked = nullptr; allocs = 0; frees = 0; }
void off() { if (tracked) std::free(tracked); tracked = nullptr; track_size = 0; armed = false; }
}  // namespace heap

namespace doc {

struct World;
World* g_w = nullptr;

struct Rcv {
  World* w;
  void set_value() && noexcept;
  void set_done() && noexcept;
  void set_error(std::exception_ptr) && noexcept;
  friend unifex::inplace_stop_token tag_invoke(unifex::tag_t<unifex::get_stop_token>, const Rcv& r) noexcept;
};

struct ChildBase {
  virtual void complete_value() noexcept = 0;
  uint32_t magic = MAGIC;
protected:
  ~ChildBase() = default;
};

struct World {
  bool sync = false;       // the child completes inside its start()
  bool wait_rcv = false;   // thread A completes the child only after the receiver has been completed

  unifex::inplace_stop_source src;
  alignas(64) unsigned char storage[256];
  size_t op_size = 0;
  void (*destroy_fn)(void*) = nullptr;

  std::atomic<int> a_go{0};       // 1 = child launched
  std::atomic<int> rcv_flag{0};   // 1 = receiver completed and parent op destroyed
  ChildBase* child = nullptr;

  bool parent_destroyed = false;
  int completions = 0;
  int child_starts = 0;

  void complete(const char* kind) {
    if (parent_destroyed) rt::fail("receiver completed after the operation state was destroyed");
    if (++completions > 1) { rt::fail("receiver completed twice"); return; }
    rt::obs("rcv.%s", kind);
    rt::point("in-completion");
    destroy_fn(storage);                       // ~unique_ptr frees the detached state if still owned
    std::memset(storage, POISON, op_size);
    parent_destroyed = true;
    rcv_flag.store(1);
  }
  void finish() {
    if (completions != 1) rt::fail("receiver completed %d times at quiescence", completions);
    if (heap::allocs != 1) rt::fail("harness: detached state allocation not recognised (%d)", heap::allocs);
    if (heap::frees != 1) rt::fail("detached child state freed %d times at quiescence", heap::frees);
    if (!all_poison(storage, op_size)) rt::fail("operation state memory was written after its destruction");
    if (heap::tracked && heap::frees >= 1 && !all_poison(static_cast<unsigned char*>(heap::tracked), heap::track_size))
      rt::fail("detached child state memory was written after it was freed");
  }
};

void Rcv::set_value() && noexcept { World* ww = w; ww->complete("value"); }
void Rcv::set_done() && noexcept { World* ww = w; ww->complete("done"); }
void Rcv::set_error(std::exception_ptr) && noexcept { World* ww = w; ww->complete("error"); }
unifex::inplace_stop_token tag_invoke(unifex::tag_t<unifex::get_stop_token>, const Rcv& r) noexcept {
  return r.w->src.get_token();
}

// the child: a leaf that is completed by hand (from thread A, or inside start() in sync mode)
template <typename R>
struct ChildOp final : ChildBase {
  R rcv;
  explicit ChildOp(R&& r) noexcept : rcv((R&&)r) {}
  ChildOp(ChildOp&&) = delete;
  void start() noexcept {
    World* w = g_w;
    rt::obs("child.start");
    if (magic != MAGIC) { rt::fail("child started on freed memory"); return; }
    if (++w->child_starts > 1) rt::fail("child started twice");
    if (w->sync) { complete_value(); return; }
    w->child = this;
    w->a_go.store(1);
  }
  void complete_value() noexcept override { unifex::set_value(std::move(rcv)); }
};

struct ChildSender {
  template <template <typename...> class Variant, template <typename...> class Tuple>
  using value_types = Variant<Tuple<>>;
  template <template <typename...> class Variant>
  using error_types = Variant<>;
  static constexpr bool sends_done = true;
  template <typename R>
  friend ChildOp<std::remove_cv_t<std::remove_reference_t<R>>>
  tag_invoke(unifex::tag_t<unifex::connect>, ChildSender&&, R&& r) noexcept {
    return ChildOp<std::remove_cv_t<std::remove_reference_t<R>>>{(R&&)r};
  }
};

using Sender = decltype(unifex::detach_on_cancel(ChildSender{}));
using OpT = decltype(unifex::connect(std::declval<Sender>(), std::declval<Rcv>()));
using StateT = typename unifex::_detach_on_cancel::operation_state<ChildSender, Rcv>::detached_state;

void destroy_op(void* p) { static_cast<OpT*>(p)->~OpT(); }

void start(World& w) {
  static_assert(sizeof(OpT) <= sizeof(w.storage), "storage too small");
  w.op_size = sizeof(OpT);
  w.destroy_fn = &destroy_op;
  heap::reset(sizeof(StateT));
  OpT* op = ::new (static_cast<void*>(w.storage)) OpT(unifex::connect(unifex::detach_on_cancel(ChildSender{}), Rcv{&w}));
  heap::armed = false;
  rt::obs("start.begin");
  unifex::start(*op);
  rt::obs("start.end");
}

void thread_a(World& w) {
  while (w.a_go.load() == 0) {}
  if (w.wait_rcv) { while (w.rcv_flag.load() == 0) {} }
  rt::obs("A.complete");
  if (w.child->magic != MAGIC) { rt::fail("child state freed before the child finished"); return; }
  w.child->complete_value();
}

void thread_b(World& w) {
  rt::obs("stop.begin");
  w.src.request_stop();
  rt::obs("stop.end");
}

void run(bool sync, bool wait_rcv, bool with_a) {
  World w; g_w = &w;
  w.sync = sync; w.wait_rcv = wait_rcv;
  int ta = -1, tb = -1;
  if (with_a) ta = rt::spawn([&] { thread_a(w); });
  tb = rt::spawn([&] { thread_b(w); });
  start(w);
  if (ta >= 0) rt::join(ta);
  rt::join(tb);
  w.finish();
  heap::off();
  g_w = nullptr;
}

}  // namespace doc

// =====================================================================================
//  canary / watcher / guard
// =====================================================================================
namespace kan {

using unifex::canary;

// the object that contains the canary (an operation state); destroyed by the "completion" thread
struct Owner {
  uint32_t magic = MAGIC;
  canary c;
  int payload = 0;
};

struct World {
  alignas(16) unsigned char owner_storage[sizeof(Owner)];
  alignas(16) unsigned char watcher_storage[sizeof(canary::watcher)];
  Owner* owner = nullptr;
  canary::watcher* w = nullptr;
  bool owner_destroyed = false, watcher_destroyed = false, guard_held = false;
  bool cdtor_begun = false;

  World() {
    owner = ::new (static_cast<void*>(owner_storage)) Owner;
    w = ::new (static_cast<void*>(watcher_storage)) canary::watcher(owner->c.watch());
  }

  // T1: the thread that owns the watcher (the tail of a start() function)
  // T1 variant: the guard returned by alive() is MOVED into a longer-lived object (an optional, as a
  // completion context would hold it); the moved-from guard dies first, the real holder works on the
  // owner and releases later.
  void watcher_thread_move() {
    std::optional<canary::guard> held;
    bool truthy;
    {
      auto g = w->alive();
      truthy = static_cast<bool>(g);
      rt::obs("alive %d", truthy ? 1 : 0);
      if (truthy) {
        guard_held = true;
        if (owner_destroyed) rt::fail("alive() truthy although the canary is destroyed");
      } else if (!cdtor_begun) {
        rt::fail("alive() falsy although the canary's destructor has not begun");
      }
      held.emplace(std::move(g));
      if (static_cast<bool>(*held) != truthy) rt::fail("moved-to guard lost the truth value");
      if (static_cast<bool>(g)) rt::fail("moved-from guard is still truthy");
    }   // ~guard of the moved-from object: must not release anything
    if (truthy) {
      rt::obs("guard.moved");
      rt::point("guarded-work");
      if (owner_destroyed || owner->magic != MAGIC) rt::fail("canary's owner destroyed while a guard was held");
      else owner->payload++;
      guard_held = false;
    }
    held.reset();   // ~guard of the real holder
    if (truthy) rt::obs("guard.release");
    w->~watcher();
    std::memset(watcher_storage, POISON, sizeof watcher_storage);
    watcher_destroyed = true;
    rt::obs("wdtor.end");
  }

  void watcher_thread(bool use_alive) {
    if (use_alive) {
      bool truthy;
      {
        auto g = w->alive();
        truthy = static_cast<bool>(g);
        rt::obs("alive %d", truthy ? 1 : 0);
        if (truthy) {
          guard_held = true;
          if (owner_destroyed) rt::fail("alive() truthy although the canary is destroyed");
          rt::point("guarded-work");
          if (owner_destroyed || owner->magic != MAGIC) rt::fail("canary's owner destroyed while a guard was held");
          else owner->payload++;
          guard_held = false;
        } else if (!cdtor_begun) {
          rt::fail("alive() falsy although the canary's destructor has not begun");
        }
      }   // ~guard
      if (truthy) rt::obs("guard.release");
    }
    w->~watcher();
    std::memset(watcher_storage, POISON, sizeof watcher_storage);
    watcher_destroyed = true;
    rt::obs("wdtor.end");
  }

  // T2: completion destroys the owner (and with it the canary)
  void canary_thread() {
    cdtor_begun = true;
    rt::obs("cdtor.begin");
    owner->~Owner();
    if (guard_held) rt::fail("~canary returned while a guard was held");
    std::memset(owner_storage, POISON, sizeof owner_storage);
    owner_destroyed = true;
    rt::obs("cdtor.end");
  }

  void finish() {
    if (!owner_destroyed || !watcher_destroyed) rt::fail("harness: a destructor did not run");
    if (!all_poison(owner_storage, sizeof owner_storage)) rt::fail("canary memory was written after its destruction");
    if (!all_poison(watcher_storage, sizeof watcher_storage)) rt::fail("watcher memory was written after its destruction");
  }
};

void run(bool use_alive, bool move_guard = false) {
  World w;
  int t1 = rt::spawn([&] { if (move_guard) w.watcher_thread_move(); else w.watcher_thread(use_alive); });
  int t2 = rt::spawn([&] { w.canary_thread(); });
  rt::join(t1); rt::join(t2);
  w.finish();
}

}  // namespace kan

// =====================================================================================
//  stop_on_request(external token)
// =====================================================================================
namespace sor {

struct World;

struct Rcv {
  World* w;
  void set_value() && noexcept;
  void set_done() && noexcept;
  void set_error(std::exception_ptr) && noexcept;
  friend unifex::inplace_stop_token tag_invoke(unifex::tag_t<unifex::get_stop_token>, const Rcv& r) noexcept;
};

using Sender = decltype(unifex::stop_on_request(std::declval<unifex::inplace_stop_token>()));
using OpT = decltype(unifex::connect(std::declval<Sender>(), std::declval<Rcv>()));

struct World {
  unifex::inplace_stop_source src[2];   // 0 = the receiver's, 1 = the external one
  alignas(64) unsigned char storage[256];
  bool op_destroyed = false;
  int completions = 0;

  void complete(const char* kind) {
    if (op_destroyed) rt::fail("receiver completed after the operation state was destroyed");
    if (++completions > 1) { rt::fail("receiver completed twice"); return; }
    rt::obs("rcv.%s", kind);
    rt::point("in-completion");
    reinterpret_cast<OpT*>(storage)->~OpT();
    std::memset(storage, POISON, sizeof(OpT));
    op_destroyed = true;
  }
  void start() {
    static_assert(sizeof(OpT) <= sizeof(storage), "storage too small");
    OpT* op = ::new (static_cast<void*>(storage)) OpT(unifex::connect(unifex::stop_on_request(src[1].get_token()), Rcv{this}));
    rt::obs("start.begin");
    unifex::start(*op);
    rt::obs("start.end");
  }
  void stop(int i) {
    rt::obs("stop.begin");
    src[i].request_stop();
    rt::obs("stop.end");
  }
  void finish() {
    if (completions != 1) rt::fail("receiver completed %d times at quiescence", completions);
    if (!all_poison(storage, sizeof(OpT))) rt::fail("operation state memory was written after its destruction");
  }
};

void Rcv::set_value() && noexcept { World* ww = w; ww->complete("value"); }
void Rcv::set_done() && noexcept { World* ww = w; ww->complete("done"); }
void Rcv::set_error(std::exception_ptr) && noexcept { World* ww = w; ww->complete("error"); }
unifex::inplace_stop_token tag_invoke(unifex::tag_t<unifex::get_stop_token>, const Rcv& r) noexcept {
  return r.w->src[0].get_token();
}

}  // namespace sor

#if __cplusplus >= 202002L
// =====================================================================================
//  cancellable{create_raw_sender<>(event-dispatch lambda)}   (C++20 only)
// =====================================================================================
}  // namespace
#include <unifex/create_raw_sender.hpp>
#include <functional>
namespace {
namespace raw {

// Same World / receiver / monitors as namespace can; the nested operation is the library's
// _lambda_op::_op wrapped around an event-dispatch lambda (auto event, auto* self).
std::function<void()> g_complete;   // set by the lambda's start branch: what thread A runs

template <bool Early>
void run() {
  can::World w; can::g_w = &w;
  w.sync = false; w.arb = true; w.destroy = true; w.early = Early;
  g_complete = nullptr;
  auto make = [] {
    return unifex::cancellable{
        unifex::create_raw_sender<>([](auto&& receiver) {
          // the lambda object IS the nested operation: it may be called after its destruction (that is what
          // the monitors look for), so it reaches the World through the global, never through a capture
          return [receiver = std::forward<decltype(receiver)>(receiver), started = false](auto event, auto* self) mutable {
            can::World& w = *can::g_w;
            if constexpr (event.is_start) {
              rt::obs("nested.start");
              if (w.hook_runs) rt::fail("nested start() after the stop() hook");
              if (++w.nested_starts > 1) rt::fail("nested start() twice");
              if (w.early && w.stop_before_start) rt::fail("StopsEarly: nested start() although stop was requested before start()");
              started = true;
              g_complete = [self, &receiver] {
                can::World& w = *can::g_w;
                bool r = unifex::try_complete(self);
                if (r && ++w.tc_true > 1) rt::fail("try_complete() returned true twice");
                if (r) unifex::set_value(std::move(receiver));
                else rt::fail("try_complete() refused the unique claimant (completion)");
              };
              w.pending.store(true);
              w.a_go.store(1);
            } else if constexpr (event.is_stop) {
              const bool claimed = !w.op_destroyed && can::claimed_at_call(self);
              rt::point("hook-entry");
              rt::obs(claimed ? "hook.stop claimed" : "hook.stop");
              if (claimed) rt::fail("stop() hook called although try_complete() had already claimed the completion");
              if (w.op_destroyed) { rt::fail("stop() hook ran on a completed operation"); return; }
              if (w.completions > 0) rt::fail("stop() hook ran on a completed operation");
              if (++w.hook_runs > 1) rt::fail("stop() hook ran twice");
              if (!w.early && w.nested_starts == 0) rt::fail("stop() hook before start() without StopsEarly");
              rt::point("in-hook");
              if (w.op_destroyed) { rt::fail("stop() hook ran on a completed operation"); return; }
              if (!started || w.pending.exchange(false)) {
                bool r = unifex::try_complete(self);
                if (r && ++w.tc_true > 1) rt::fail("try_complete() returned true twice");
                if (r) unifex::set_done(std::move(receiver));
                else if (started) rt::fail("try_complete() refused the unique claimant (stop hook)");
              }
            }
          };
        }),
        std::bool_constant<Early>{}};
  };
  using Sender = decltype(make());
  using OpT = decltype(unifex::connect(std::declval<Sender>(), std::declval<can::Rcv>()));
  static_assert(sizeof(OpT) <= sizeof(w.storage), "storage too small");
  w.op_size = sizeof(OpT);
  w.destroy_fn = +[](void* p) { static_cast<OpT*>(p)->~OpT(); };
  int ta = rt::spawn([&] {
    while (w.a_go.load() == 0) {}
    bool took = w.pending.exchange(false);
    rt::obs("A.take %d", took ? 1 : 0);
    if (!took) return;
    if (w.op_destroyed) { rt::fail("the unique claimant found the operation state destroyed"); return; }
    g_complete();
  });
  int tb = rt::spawn([&] { can::thread_b(w); });
  OpT* op = ::new (static_cast<void*>(w.storage)) OpT(unifex::connect(make(), can::Rcv{&w}));
  w.stop_before_start = w.stop_returned;
  rt::obs("start.begin");
  unifex::start(*op);
  rt::obs("start.end");
  rt::join(ta); rt::join(tb);
  w.finish();
  g_complete = nullptr;
  can::g_w = nullptr;
}

}  // namespace raw
#endif

}  // namespace

// ---- tracked heap (see namespace heap) -------------------------------------------------------------
void* operator new(std::size_t n) {
  void* p = std::malloc(n ? n : 1);
  if (!p) std::abort();
  if (heap::armed && n == heap::track_size) { heap::armed = false; heap::tracked = p; heap::allocs++; }
  return p;
}
static void tracked_delete(void* p) noexcept {
  if (!p) return;
  if (p == heap::tracked) {
    if (++heap::frees > 1) { rt::fail("detached child state freed twice"); return; }
    std::memset(p, POISON, heap::track_size);   // quarantine, released by heap::off()
    rt::obs("state.freed");
    return;
  }
  std::free(p);
}
void operator delete(void* p) noexcept { tracked_delete(p); }
void operator delete(void* p, std::size_t) noexcept { tracked_delete(p); }

// ---- cancellable: T0 connects+starts, T1 = completion source A, T2 = stop requester B ----------
SCENARIO(c_race)  { can::run<false>(/*sync*/ false, /*arb*/ true, /*destroy*/ true, /*A*/ true); }
SCENARIO(c_early) { can::run<true>(false, true, true, true); }
SCENARIO(c_noarb) { can::run<false>(false, false, /*destroy at the end*/ false, true); }
// synchronous completion inside start(); T1 = stop requester
SCENARIO(c_sync)       { can::run<false>(true, true, true, false); }
SCENARIO(c_sync_early) { can::run<true>(true, true, true, false); }
// no stop request at all: T1 = completion source A races with the rest of start() only
SCENARIO(c_complete_during_start) { can::run<false>(false, true, true, true, /*B*/ false); }
// the common case: A and B become active only after start() has returned (model: CancellableAfter)
SCENARIO(c_after_start)       { can::run<false>(false, true, true, true, true, /*after_start*/ true); }
SCENARIO(c_noarb_after_start) { can::run<false>(false, false, false, true, true, true); }

// ---- detach_on_cancel: T0 connects+starts, T1 = child's completion source A, T2 = stop requester B --
SCENARIO(d_race)   { doc::run(/*sync*/ false, /*wait_rcv*/ false, /*A*/ true); }
// A finishes the abandoned child only after the receiver was completed: "done at once"
SCENARIO(d_detach) { doc::run(false, true, true); }
// the child completes inside its start(); T1 = stop requester
SCENARIO(d_sync)   { doc::run(true, false, false); }

// ---- canary: T0 constructs, T1 = watcher's thread (alive / guard / ~watcher), T2 = ~canary ----------
SCENARIO(k_guard) { kan::run(true); }
SCENARIO(k_dtors) { kan::run(false); }
// the guard is moved into a longer-lived holder; the moved-from guard is destroyed first
SCENARIO(k_move)  { kan::run(true, true); }

// ---- stop_on_request: T0 connects+starts; stoppers on the receiver's (0) / the external (1) source ----
SCENARIO(s_two) {
  sor::World w;
  int t1 = rt::spawn([&] { w.stop(0); });
  int t2 = rt::spawn([&] { w.stop(1); });
  w.start();
  rt::join(t1); rt::join(t2);
  w.finish();
}
SCENARIO(s_ext) {
  sor::World w;
  int t1 = rt::spawn([&] { w.stop(1); });
  w.start();
  rt::join(t1);
  w.finish();
}

#if __cplusplus >= 202002L
// ---- cancellable{create_raw_sender<>(lambda)}: the configurations c_race / c_early again ------------
SCENARIO(r_race)  { raw::run<false>(); }
SCENARIO(r_early) { raw::run<true>(); }
#endif

RT_MAIN()
