// rt.hpp — controlled-schedule runtime for the atomic-level correspondence checks.
//
// The real library sources and the scenario are compiled with -fsanitize=thread and linked
// against rt.cpp INSTEAD of libtsan: every std::atomic operation of the library becomes a call
// into this runtime, which makes it a scheduling point of a cooperative scheduler (exactly one
// managed thread runs at a time).  pthread mutex/condvar/create/join, sched_yield, clock_gettime
// and nanosleep are interposed by strong definitions in rt.cpp, so the cv-based contexts and
// their clock are under the same scheduler and a virtual clock.  No source hooks in /repo.
#pragma once
#include <cstdint>
#include <functional>
#include <string>
#include <vector>

namespace rt {

// ---- called from scenario bodies (managed threads) -------------------------------------
int  spawn(std::function<void()> fn);   // start a managed thread, returns its id (>=1)
void join(int tid);                      // block (schedulably) until it finished
int  self();                             // managed thread id, -1 if unmanaged
int  alive();                            // managed threads of this execution that have not finished (incl. the caller)
void obs(const char* fmt, ...) __attribute__((format(printf, 1, 2)));  // append to the observable history
void fail(const char* fmt, ...) __attribute__((format(printf, 1, 2))); // property monitor fired
void point(const char* what);            // an explicit scheduling point (no memory effect)
int64_t vnow_ns();                       // virtual clock
void yield_until(int64_t deadline_ns);   // sched_yield (disabled until somebody made progress) during which the virtual clock may
                                         // advance to deadline_ns: a kernel-side timed wait (epoll_wait with an armed timerfd)
void set_auto_clock(bool on);            // let time advance when everybody is blocked (default on)
inline void require(bool c, const char* msg) { if (!c) fail("%s", msg); }

// ---- exploration driver (called from main, unmanaged) -----------------------------------
struct Options {
  std::string mode = "dfs";      // dfs | random | pct | replay
  int  preemptions = 2;          // dfs bound
  long max_execs = 20000;        // cap on executions
  long max_steps = 20000;        // per execution
  uint64_t seed = 1;
  std::vector<int> replay;       // thread chosen at every scheduling point with >1 enabled
  bool trace_ops = false;        // include atomic ops in the history (for shape comparison)
  bool clock_choices = true;     // dfs may advance the clock while threads are runnable
};

struct Execution {
  std::vector<std::string> history;   // "T<tid> <text>"
  std::vector<std::string> failures;  // monitor messages, "deadlock ...", "step-limit"
  std::vector<int> choices;           // replayable schedule
  int preemptions = 0;
  long steps = 0;
};

struct Stats {
  long executions = 0;
  long distinct_histories = 0;
  long with_preemption = 0;
  long failures = 0;
  long deadlocks = 0;
  long max_steps_seen = 0;
  bool exhausted = false;             // dfs finished within max_execs
};

using Sink = std::function<void(const Execution&)>;   // called once per execution
Stats explore(const std::function<void()>& body, const Options& opt, const Sink& sink);

}  // namespace rt
