// scn_c07_epoll.cpp — C07 scenarios on the timers of the REAL io_epoll_context
// (schedule_at_sender::operation, update_timers, request_stop_local / request_stop_remote) under the
// controlled scheduler.  rt_io.cpp interposes epoll_wait / epoll_ctl / read / write / close and
// puts the context's timerfd on rt's VIRTUAL clock (timerfd_create / timerfd_settime), so "the
// timer expires" is a scheduling decision like every other step.
//
// Each ep_* scenario below that has a configuration of the same name in
// lean/UnifexModel/Proto/EpollTimer.lean uses the same thread numbering: T0 = scenario body
// (client), T1 = the thread inside run(), T2 = the remote canceller.  Time unit = 1 ms of virtual
// time after `base`.
//
// Monitors (independent of the Lean model): completed twice / never; completion on a thread other
// than the I/O thread; set_value before the due time; set_value later than the due time although
// only the clock was missing; set_done without a stop request; set_value although request_stop()
// had returned; a cancelled timer that waited for the clock; equal due times not first-in
// first-out; the operation is still linked into one of the context's queues when its completion
// is delivered (enqueued_ != 0: it was enqueued twice — elapsed AND remotely cancelled); the
// operation is executed again after its completion.
#include "rt_main.hpp"
#include "rt_io.hpp"

#include <unifex/get_stop_token.hpp>
#include <unifex/inplace_stop_token.hpp>
#include <unifex/linux/io_epoll_context.hpp>
#include <unifex/receiver_concepts.hpp>
#include <unifex/scheduler_concepts.hpp>
#include <unifex/sender_concepts.hpp>

#include <pthread.h>
#include <time.h>

#include <algorithm>
#include <chrono>
#include <cstring>
#include <exception>
#include <new>

namespace {

using unifex::linuxos::io_epoll_context;
using unifex::linuxos::monotonic_clock;
using Sched = decltype(std::declval<io_epoll_context&>().get_scheduler());
constexpr int64_t UNIT = 1'000'000;
constexpr int MAXN = 4;
constexpr int LOOP_TID = 1;

struct World;
struct Rcv {
  World* w; int i;
  void set_value() && noexcept;
  void set_done() && noexcept;
  void set_error(std::exception_ptr) && noexcept;
  friend unifex::inplace_stop_token tag_invoke(unifex::tag_t<unifex::get_stop_token>, const Rcv& r) noexcept;
};
using AtSender = decltype(unifex::schedule_at(std::declval<Sched&>(), std::declval<monotonic_clock::time_point>()));
using AtOp = decltype(unifex::connect(std::declval<AtSender>(), std::declval<Rcv>()));

// an item run on the I/O thread (schedule()): used to request stop FROM the I/O thread
struct KickRcv {
  World* w; int target;
  void set_value() && noexcept;
  void set_done() && noexcept {}
  void set_error(std::exception_ptr) && noexcept {}
};
using KickOp = decltype(unifex::connect(unifex::schedule(std::declval<Sched&>()), std::declval<KickRcv>()));

// a function of the type of operation_base::execute_ that does nothing (the type is private: deduce it)
template <class Fn> struct Noop;
template <class A> struct Noop<void (*)(A*) noexcept> { static void fn(A*) noexcept { rt::obs("executed-again"); } };

struct World {
  io_epoll_context ctx;
  unifex::inplace_stop_source loopStop;
  int loop_tid = -1;
  bool run_returned = false;
  int64_t base;
  int n = 0;
  unifex::inplace_stop_source src[MAXN];
  alignas(AtOp) unsigned char store[MAXN][sizeof(AtOp)];
  alignas(KickOp) unsigned char kick_store[sizeof(KickOp)];
  bool neutralised[MAXN] = {};
  // ---- monitor state (plain memory: one managed thread runs at a time)
  long seq = 0;
  int64_t due[MAXN] = {};
  int completions[MAXN] = {};
  long startBeginSeq[MAXN], startEndSeq[MAXN], stopBeginSeq[MAXN], stopEndSeq[MAXN];
  int64_t startEndAt[MAXN] = {}, stopEndAt[MAXN] = {};
  int ndone = 0;
  pthread_mutex_t hm = PTHREAD_MUTEX_INITIALIZER;
  pthread_cond_t hcv = PTHREAD_COND_INITIALIZER;

  World() {
    base = rt::vnow_ns();
    for (int i = 0; i < MAXN; ++i) startBeginSeq[i] = startEndSeq[i] = stopBeginSeq[i] = stopEndSeq[i] = -1;
    loop_tid = rt::spawn([this] { ctx.run(loopStop.get_token()); run_returned = true; });
    if (loop_tid != LOOP_TID) rt::fail("harness: loop thread is not T1");
  }
  int64_t rel(int64_t t) const { return (t - base) / UNIT; }
  AtOp& op(int i) { return *reinterpret_cast<AtOp*>(store[i]); }

  void start_at(int i, int64_t due_ns) {
    if (i >= n) n = i + 1;
    due[i] = due_ns;
    startBeginSeq[i] = ++seq;
    ::new (static_cast<void*>(store[i])) AtOp(unifex::connect(
        unifex::schedule_at(ctx.get_scheduler(), monotonic_clock::time_point::from_seconds_and_nanoseconds(due_ns / 1'000'000'000, due_ns % 1'000'000'000)),
        Rcv{this, i}));
    unifex::start(op(i));
    startEndSeq[i] = ++seq;
    startEndAt[i] = rt::vnow_ns();
  }
  void stop(int i) {
    stopBeginSeq[i] = ++seq;
    src[i].request_stop();
    stopEndSeq[i] = ++seq;
    stopEndAt[i] = rt::vnow_ns();
    rt::obs("stop%d.end", i);
  }
  // request stop on timer `target` from the I/O thread (request_stop_local)
  void kick_stop(int target) {
    auto* k = ::new (static_cast<void*>(kick_store)) KickOp(unifex::connect(unifex::schedule(ctx.get_scheduler()), KickRcv{this, target}));
    unifex::start(*k);
  }
  void wait_done() {
    pthread_mutex_lock(&hm);
    while (ndone < n) pthread_cond_wait(&hcv, &hm);
    pthread_mutex_unlock(&hm);
  }
  void shutdown() {
    rt::obs("shutdown.begin");
    loopStop.request_stop();
    rt::join(loop_tid);
    if (!run_returned) rt::fail("run(stop_token) did not return after stop was requested");
    rt::obs("shutdown.end");
    for (int i = 0; i < n; ++i)
      if (completions[i] != 1) rt::fail("op%d completed %d times", i, completions[i]);
  }

  void complete(int i, int ch) {
    const int64_t now = rt::vnow_ns();
    ++seq;
    if (rt::self() != LOOP_TID) rt::fail("op%d completed on T%d, not on the thread inside run()", i, rt::self());
    if (++completions[i] > 1) { rt::fail("op%d completed twice", i); return; }
    if (ch == 3) rt::fail("op%d completed with set_error", i);
    if (ch == 1 && now < due[i]) rt::fail("op%d set_value EARLY: clock %lld < due %lld", i, (long long)rel(now), (long long)rel(due[i]));
    if (ch == 2 && stopBeginSeq[i] < 0) rt::fail("op%d set_done without a stop request", i);
    if (ch == 1 && stopEndSeq[i] >= 0) rt::fail("op%d set_value although request_stop() had returned", i);
    // under the virtual clock time only advances to the deadline of the armed timerfd while the I/O
    // thread is blocked: a value completion happens exactly at max(due, time start() returned)
    if (ch == 1 && startEndSeq[i] >= 0 && now > std::max(due[i], startEndAt[i]))
      rt::fail("op%d completed LATE at %lld, due %lld (timer not re-armed / lost wake-up)", i, (long long)rel(now), (long long)rel(due[i]));
    // cancel promptly: after request_stop() and start() have both returned the completion must not
    // wait for the clock (only meaningful while no other timer keeps the timerfd armed: n == 1)
    if (n == 1 && stopEndSeq[i] >= 0 && startEndSeq[i] >= 0) {
      int64_t armed = std::max(stopEndAt[i], startEndAt[i]);
      if (armed < due[i] && now > armed)
        rt::fail("cancelled op%d WAITED for the clock: stop returned at %lld, due %lld, completed at %lld", i,
                 (long long)rel(armed), (long long)rel(due[i]), (long long)rel(now));
    }
    // ties first-in first-out (same submitting thread, neither cancelled)
    for (int y = 0; y < n; ++y)
      if (y != i && completions[y] == 0 && due[y] == due[i] && stopBeginSeq[y] < 0 && stopBeginSeq[i] < 0 &&
          startEndSeq[y] >= 0 && startEndSeq[y] < startBeginSeq[i])
        rt::fail("op%d completed before op%d: equal due times, op%d was submitted first (ties must be FIFO)", i, y, y);
    rt::obs("%s%d@%lld", ch == 1 ? "value" : "done", i, (long long)rel(now));
    // ---- exactly one winner of the elapsed-vs-cancelled election: when the completion is delivered
    // the context must not have the operation linked into a queue any more
    AtOp& o = op(i);
    if (o.enqueued_.load() != 0) {
      rt::fail("op%d is still enqueued when its completion is delivered (enqueued_ = %d): it was put on the ready queue by update_timers "
               "AND on the remote queue by the cancelling thread", i, o.enqueued_.load());
      // keep the harness alive: the second run of the item does nothing, the storage is not poisoned
      o.execute_ = &Noop<decltype(o.execute_)>::fn;
      neutralised[i] = true;
    } else {
      // the receiver owns the operation state: destroy and poison it; a reference retained by the
      // context (timers_ list, local / remote queue, stop callback) now reads 0xDD garbage
      o.~AtOp();
      std::memset(store[i], 0xDD, sizeof(AtOp));
    }
    ++ndone;
    pthread_cond_signal(&hcv);   // a scheduling point inside the receiver
  }
};

void Rcv::set_value() && noexcept { w->complete(i, 1); }
void Rcv::set_done() && noexcept { w->complete(i, 2); }
void Rcv::set_error(std::exception_ptr) && noexcept { w->complete(i, 3); }
unifex::inplace_stop_token tag_invoke(unifex::tag_t<unifex::get_stop_token>, const Rcv& r) noexcept { return r.w->src[r.i].get_token(); }
void KickRcv::set_value() && noexcept {
  if (rt::self() != LOOP_TID) rt::fail("kick item ran on T%d", rt::self());
  w->stop(target);
}

}  // namespace

// ---- configurations of Proto/EpollTimer.lean -----------------------------------------------------

// REMOTE cancel racing the expiry: fetch_add(cancel_pending_flag) on T2 vs fetch_add(timer_elapsed_flag)
// in update_timers on T1
SCENARIO(ep_remote_cancel) {
  rtio::reset();
  World w;
  int t2 = rt::spawn([&] { w.stop(0); });
  w.start_at(0, w.base + 1 * UNIT);
  w.wait_done();
  w.shutdown();
  rt::join(t2);
}

// the same election with the canceller sleeping until the due time: at the instant the timer expires
// both the I/O thread (timerfd readable) and T2 (sleep over) become runnable
SCENARIO(ep_cancel_at_due) {
  rtio::reset();
  World w;
  int t2 = rt::spawn([&] {
    struct timespec ts; ts.tv_sec = 0; ts.tv_nsec = (w.base + 1 * UNIT) - rt::vnow_ns();
    if (ts.tv_nsec > 0) nanosleep(&ts, nullptr);
    w.stop(0);
  });
  w.start_at(0, w.base + 1 * UNIT);
  w.wait_done();
  w.shutdown();
  rt::join(t2);
}

// LOCAL cancel: stop requested from an item running on the I/O thread (request_stop_local)
SCENARIO(ep_local_cancel) {
  rtio::reset();
  World w;
  w.start_at(0, w.base + 1 * UNIT);
  w.kick_stop(0);
  w.wait_done();
  w.shutdown();
}

// two timers started in descending due-time order: the second one becomes the earliest (re-arm)
SCENARIO(ep_two_order) {
  rtio::reset();
  World w;
  w.start_at(0, w.base + 2 * UNIT);
  w.start_at(1, w.base + 1 * UNIT);
  w.wait_done();
  w.shutdown();
}

// stop requested before start(): start_local sees stop_requested() and completes with done
SCENARIO(ep_stop_before_start) {
  rtio::reset();
  World w;
  w.stop(0);
  w.start_at(0, w.base + 1 * UNIT);
  w.wait_done();
  w.shutdown();
}

// ---- monitors only ----------------------------------------------------------------------------------

// three timers (two with equal due times, one already due), the last one cancelled remotely
SCENARIO(ep_three) {
  rtio::reset();
  World w;
  int t2 = rt::spawn([&] { w.stop(2); });
  w.start_at(0, w.base + 1 * UNIT);
  w.start_at(1, w.base + 1 * UNIT);
  w.start_at(2, w.base + 2 * UNIT);
  w.start_at(3, w.base - 1 * UNIT);
  w.wait_done();
  w.shutdown();
  rt::join(t2);
}

RT_MAIN()
