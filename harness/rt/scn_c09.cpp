// scn_c09.cpp — C09 scenarios on the REAL unifex::spawn_future (v2::async_scope and v1::async_scope).
// Each scenario mirrors one configuration of lean/UnifexModel/Proto/SpawnFuture.lean (same name,
// same thread numbering: T0 = scenario body = future owner, T1 = worker completing the spawned
// operation, T2 = thread requesting stop on the awaiting receiver's stop source).
//
// Observation devices (all local to this file, no hooks in /repo):
//  * GuardAlloc: the allocator handed to spawn_future.  Every block is its own mmap; deallocate
//    makes it PROT_NONE, a SIGSEGV handler records any later access ("use after
//    free") and re-opens the page so the execution can continue.  Counts allocate/deallocate.
//  * Tracked: result type whose constructions/destructions are tracked by address.
//  * Leaf: a manually completed sender; its operation registers itself in the World, the worker
//    thread completes it with value / error / done.
#include "rt_main.hpp"

#include <unifex/inline_scheduler.hpp>
#include <unifex/inplace_stop_token.hpp>
#include <unifex/receiver_concepts.hpp>
#include <unifex/scheduler_concepts.hpp>
#include <unifex/sender_concepts.hpp>
#include <unifex/spawn_detached.hpp>
#include <unifex/spawn_future.hpp>
#include <unifex/v1/async_scope.hpp>
#include <unifex/v2/async_scope.hpp>

#include <setjmp.h>
#include <signal.h>
#include <sys/mman.h>
#include <unistd.h>

#include <cstring>
#include <exception>
#include <optional>
#include <set>
#include <vector>

namespace {

enum Kind { K_VALUE = 0, K_ERROR = 1, K_DONE = 2 };
const char* kind_name(int k) { return k == K_VALUE ? "value" : k == K_ERROR ? "error" : "done"; }

struct LeafOpBase;

struct Block { char* base; size_t len; size_t req; bool freed; };

struct World {
  // ---- heap observation
  std::vector<Block> blocks;
  int allocs = 0, frees = 0;
  volatile int uaf = 0;            // set by the SIGSEGV handler
  // ---- tracked results
  std::set<const void*> live;
  int res_ctor_in_block = 0, res_dtor_in_block = 0;
  // ---- the spawned operation
  LeafOpBase* leaf = nullptr;
  int leaf_started = 0, leaf_destroyed = 0;
  int kind = K_VALUE;
  bool op_polled = false, op_saw_stop = false, op_completed = false;
  // ---- the future side
  unifex::inplace_stop_source fsrc;
  bool awaited = false, avail_at_await = false;
  int fut_completions = 0, fut_outcome = -1, fut_payload = 0;
  bool drop_begun = false, drop_returned = false, stop_begun = false, stop_after_completion = false;
  bool terminated = false;
  jmp_buf term_jmp[3]; bool term_jmp_armed[3] = {false, false, false};
  bool expect_terminate = false;

  World();
  ~World();

  void* alloc(size_t n);
  void dealloc(void* p);
  bool in_block(const void* p) const {
    for (auto& b : blocks) if ((const char*)p >= b.base && (const char*)p < b.base + b.len) return true;
    return false;
  }

  void fut_complete(int outcome, int payload) {
    if (++fut_completions > 1) rt::fail("future receiver completed twice");
    fut_outcome = outcome; fut_payload = payload;
    if (outcome == K_VALUE) rt::obs("fut.value %d", payload);
    else if (outcome == K_ERROR) rt::obs("fut.error %d", payload);
    else rt::obs("fut.done");
    // monitors independent of the model
    if (outcome == K_VALUE && (kind != K_VALUE || payload != 42)) rt::fail("future delivered value %d, operation produced %s", payload, kind_name(kind));
    if (outcome == K_ERROR && (kind != K_ERROR || payload != 7)) rt::fail("future delivered error %d, operation produced %s", payload, kind_name(kind));
    if (outcome == K_DONE && kind != K_DONE && !stop_begun) rt::fail("future completed with done although the operation produced %s and nobody cancelled", kind_name(kind));
    if (outcome != K_DONE && !op_polled) rt::fail("future produced a result before the operation completed");
    rt::point("in-future-receiver");
  }

  void stop() {
    rt::obs("stop.begin");
    stop_begun = true; stop_after_completion = op_completed;
    fsrc.request_stop();
    rt::obs("stop.end");
  }

  void finish(bool joined);
};

World* g_w = nullptr;

// ------------------------------------------------------------------ guard allocator
void segv_handler(int, siginfo_t* si, void*) {
  World* w = g_w;
  if (w) {
    for (auto& b : w->blocks) {
      if (b.freed && (char*)si->si_addr >= b.base && (char*)si->si_addr < b.base + b.len) {
        w->uaf = w->uaf + 1;
        mprotect(b.base, b.len, PROT_READ | PROT_WRITE);   // let the access go through; it is recorded
        return;
      }
    }
  }
  signal(SIGSEGV, SIG_DFL);
  raise(SIGSEGV);
}

[[noreturn]] void terminate_handler() {
  if (g_w) g_w->terminated = true;
  if (!(g_w && g_w->expect_terminate)) rt::fail("std::terminate() called");
  rt::obs("terminate");
  // the process would die here.  To keep exploring, abandon the owner's call stack (its frames are
  // never resumed; nothing is unwound) and let the scenario body wind the execution up.
  int me = rt::self();
  if (g_w && me >= 0 && me < 3 && g_w->term_jmp_armed[me]) longjmp(g_w->term_jmp[me], 1);
  rt::join(rt::self());   // any other thread: never returns, reported as deadlock + monitor
  for (;;) pause();
}

void install_handlers() {
  static bool done = false;
  if (done) return;
  done = true;
  struct sigaction sa;
  memset(&sa, 0, sizeof sa);
  sa.sa_sigaction = segv_handler;
  sa.sa_flags = SA_SIGINFO | SA_NODEFER;
  sigaction(SIGSEGV, &sa, nullptr);
  std::set_terminate(terminate_handler);
}

World::World() { install_handlers(); g_w = this; }
World::~World() {
  for (auto& b : blocks) munmap(b.base, b.len);
  if (g_w == this) g_w = nullptr;
}

void* World::alloc(size_t n) {
  size_t page = (size_t)sysconf(_SC_PAGESIZE);
  size_t len = ((n + page - 1) / page) * page;
  void* p = mmap(nullptr, len, PROT_READ | PROT_WRITE, MAP_PRIVATE | MAP_ANONYMOUS, -1, 0);
  if (p == MAP_FAILED) { rt::fail("mmap failed"); abort(); }
  memset(p, 0xA5, len);
  blocks.push_back(Block{(char*)p, len, n, false});
  ++allocs;
  return p;
}

void World::dealloc(void* p) {
  for (auto& b : blocks) {
    if (b.base == (char*)p) {
      if (b.freed) { rt::fail("heap state deleted twice"); rt::obs("block.free"); return; }
      b.freed = true; ++frees;
      rt::obs("block.free");
      // the content is left as it is (like a real allocator would): a use after free is recorded by
      // the SIGSEGV handler and then proceeds on the stale data instead of crashing the harness
      mprotect(b.base, b.len, PROT_NONE);
      return;
    }
  }
  rt::fail("deallocate of a pointer that was never allocated");
}

template <typename T>
struct GuardAlloc {
  using value_type = T;
  GuardAlloc() noexcept = default;
  template <typename U>
  GuardAlloc(const GuardAlloc<U>&) noexcept {}
  T* allocate(size_t n) { return static_cast<T*>(g_w->alloc(n * sizeof(T))); }
  void deallocate(T* p, size_t) noexcept { g_w->dealloc(p); }
  template <typename U> bool operator==(const GuardAlloc<U>&) const noexcept { return true; }
  template <typename U> bool operator!=(const GuardAlloc<U>&) const noexcept { return false; }
};

// ------------------------------------------------------------------ tracked result
struct Tracked {
  int v;
  explicit Tracked(int x) noexcept : v(x) { born(); }
  Tracked(const Tracked& o) noexcept : v(o.v) { born(); }
  Tracked(Tracked&& o) noexcept : v(o.v) { o.v = -1; born(); }
  Tracked& operator=(const Tracked&) = delete;
  ~Tracked() {
    World* w = g_w;
    if (!w) return;
    if (w->in_block(this)) ++w->res_dtor_in_block;
    if (w->live.erase(this) != 1) rt::fail("result object destroyed twice (or never constructed)");
  }
  void born() noexcept {
    World* w = g_w;
    if (!w) return;
    if (w->in_block(this)) ++w->res_ctor_in_block;
    if (!w->live.insert(this).second) rt::fail("result object constructed over a live one");
  }
};

struct TrackedErr { Tracked t; };

// ------------------------------------------------------------------ manually completed leaf
struct LeafOpBase {
  unifex::inplace_stop_token tok;
  virtual void complete(int kind) noexcept = 0;
 protected:
  ~LeafOpBase() = default;
};

template <typename R>
struct LeafOp final : LeafOpBase {
  R r;
  explicit LeafOp(R&& rr) noexcept : r(std::move(rr)) {}
  LeafOp(LeafOp&&) = delete;
  ~LeafOp() { if (g_w) ++g_w->leaf_destroyed; }
  void start() noexcept {
    tok = unifex::get_stop_token(r);
    g_w->leaf = this; ++g_w->leaf_started;
  }
  void complete(int kind) noexcept override {
    switch (kind) {
      case K_VALUE: unifex::set_value(std::move(r), Tracked{42}); break;
      case K_ERROR: unifex::set_error(std::move(r), std::make_exception_ptr(TrackedErr{Tracked{7}})); break;
      default: unifex::set_done(std::move(r)); break;
    }
  }
};

struct Leaf {
  template <template <typename...> class Variant, template <typename...> class Tuple>
  using value_types = Variant<Tuple<Tracked>>;
  template <template <typename...> class Variant>
  using error_types = Variant<std::exception_ptr>;
  static constexpr bool sends_done = true;
  static constexpr unifex::blocking_kind blocking = unifex::blocking_kind::never;
  static constexpr bool is_always_scheduler_affine = false;

  template <typename R>
  LeafOp<unifex::remove_cvref_t<R>> connect(R&& r) const noexcept {
    return LeafOp<unifex::remove_cvref_t<R>>{static_cast<R&&>(r)};
  }
};

// a leaf without a value and without a stop token, for spawn_detached
struct VoidLeafOpBase {
  virtual void complete(int kind) noexcept = 0;
 protected:
  ~VoidLeafOpBase() = default;
};
VoidLeafOpBase* g_void_leaf = nullptr;

template <typename R>
struct VoidLeafOp final : VoidLeafOpBase {
  R r;
  explicit VoidLeafOp(R&& rr) noexcept : r(std::move(rr)) {}
  VoidLeafOp(VoidLeafOp&&) = delete;
  ~VoidLeafOp() { if (g_w) ++g_w->leaf_destroyed; }
  void start() noexcept { g_void_leaf = this; ++g_w->leaf_started; }
  void complete(int kind) noexcept override {
    switch (kind) {
      case K_VALUE: unifex::set_value(std::move(r)); break;
      case K_ERROR: unifex::set_error(std::move(r), std::make_exception_ptr(TrackedErr{Tracked{7}})); break;
      default: unifex::set_done(std::move(r)); break;
    }
  }
};

struct VoidLeaf {
  template <template <typename...> class Variant, template <typename...> class Tuple>
  using value_types = Variant<Tuple<>>;
  template <template <typename...> class Variant>
  using error_types = Variant<std::exception_ptr>;
  static constexpr bool sends_done = true;
  static constexpr unifex::blocking_kind blocking = unifex::blocking_kind::never;
  static constexpr bool is_always_scheduler_affine = false;

  template <typename R>
  VoidLeafOp<unifex::remove_cvref_t<R>> connect(R&& r) const noexcept {
    return VoidLeafOp<unifex::remove_cvref_t<R>>{static_cast<R&&>(r)};
  }
};

// ------------------------------------------------------------------ receivers
struct FutRecv {
  World* w;
  void set_value(Tracked t) noexcept { w->fut_complete(K_VALUE, t.v); }
  void set_error(std::exception_ptr e) noexcept {
    int code = -1;
    try { std::rethrow_exception(e); } catch (const TrackedErr& x) { code = x.t.v; } catch (...) {}
    e = nullptr;
    w->fut_complete(K_ERROR, code);
  }
  void set_done() noexcept { w->fut_complete(K_DONE, 0); }
  friend unifex::inplace_stop_token tag_invoke(unifex::tag_t<unifex::get_stop_token>, const FutRecv& r) noexcept {
    return r.w->fsrc.get_token();
  }
  friend unifex::inline_scheduler tag_invoke(unifex::tag_t<unifex::get_scheduler>, const FutRecv&) noexcept { return {}; }
};

struct JoinRecv {
  bool* done;
  void set_value() noexcept { *done = true; }
  void set_error(std::exception_ptr) noexcept { rt::fail("scope join completed with an error"); }
  void set_done() noexcept { rt::fail("scope join completed with done"); }
  friend unifex::inline_scheduler tag_invoke(unifex::tag_t<unifex::get_scheduler>, const JoinRecv&) noexcept { return {}; }
};

auto join_sender(unifex::v2::async_scope& s) { return s.join(); }
auto join_sender(unifex::v1::async_scope& s) { return s.complete(); }

void World::finish(bool joined) {
  if (uaf) rt::fail("heap state accessed after it was freed");
  if (allocs != 1) rt::fail("expected exactly one heap allocation, saw %d", allocs);
  if (frees != allocs) rt::fail("heap state leaked: %d allocated, %d freed", allocs, frees);
  if (res_ctor_in_block != res_dtor_in_block) rt::fail("stored result constructed %d times, destroyed %d times", res_ctor_in_block, res_dtor_in_block);
  if (!live.empty()) rt::fail("%d result objects still alive at the end", (int)live.size());
  if (leaf_started != 1 || leaf_destroyed != 1) rt::fail("spawned operation started %d times, destroyed %d times", leaf_started, leaf_destroyed);
  if (!joined) rt::fail("scope join did not complete: a scope reference leaked");
  if (awaited) {
    if (fut_completions != 1) rt::fail("awaited future completed %d times", fut_completions);
    if (stop_after_completion && fut_outcome != kind)
      rt::fail("late stop request changed the future's result (operation: %s, delivered: %s)", kind_name(kind), kind_name(fut_outcome));
    if (avail_at_await && fut_outcome != kind) rt::fail("result was available when the future was awaited but the future delivered %s", kind_name(fut_outcome));
  } else if (fut_completions != 0) rt::fail("future receiver completed although the future was never started");
}

enum Owner { O_AWAIT, O_DROP, O_CONNECT_DROP };

// the worker: poll the stop token of the spawned operation, then complete it
void worker(World& w) {
  bool s = w.leaf->tok.stop_requested();
  w.op_polled = true; w.op_saw_stop = s;
  rt::obs("op.complete %s stop=%d", kind_name(w.kind), s ? 1 : 0);
  // monitors: dropping / cancelling the future requests stop on the spawned operation, nothing else does
  if (!s && w.drop_returned) rt::fail("future was dropped before the operation completed but stop was not requested on it");
  if (!s && w.fut_completions > 0) rt::fail("future completed with done by cancellation but stop was not requested on the operation");
  if (s && !w.drop_begun && !w.stop_begun) rt::fail("stop requested on the spawned operation although the future was neither dropped nor cancelled");
  w.leaf->complete(w.kind);
  w.op_completed = true;
  rt::obs("op.completed");
}

template <typename Scope>
void scenario(int kind, Owner owner, bool stopper, bool late = false) {
  World w; w.kind = kind;
  Scope scope;
  volatile int t1v = -1, t2v = -1;
  if (setjmp(w.term_jmp[0]) != 0) {
    // std::terminate() was reached on T0 (already reported): let the other threads finish, then stop
    if (t1v >= 0) rt::join(t1v);
    if (t2v >= 0) rt::join(t2v);
    return;
  }
  w.term_jmp_armed[0] = true;
  {
    auto fut0 = unifex::spawn_future(Leaf{}, scope, GuardAlloc<std::byte>{});
    std::optional<decltype(fut0)> fut{std::move(fut0)};
    if (!w.leaf) { rt::fail("spawned operation was not started by spawn_future"); return; }
    int t1 = rt::spawn([&] { worker(w); });
    int t2 = stopper ? rt::spawn([&w, t1, late] { if (late) rt::join(t1); w.stop(); }) : -1;
    t1v = t1; t2v = t2;
    switch (owner) {
      case O_AWAIT: {
        rt::obs("fut.connect.begin");
        w.awaited = true; w.avail_at_await = w.op_completed;
        auto op = unifex::connect(std::move(*fut), FutRecv{&w});
        fut.reset();
        rt::obs("fut.connect.end");
        rt::point("between-connect-and-start");
        unifex::start(op);
        rt::obs("fut.started");
        rt::join(t1); if (t2 >= 0) rt::join(t2);
        break;
      }
      case O_DROP: {
        rt::obs("fut.drop.begin");
        w.drop_begun = true;
        fut.reset();
        w.drop_returned = true;
        rt::obs("fut.drop.end");
        rt::join(t1); if (t2 >= 0) rt::join(t2);
        break;
      }
      case O_CONNECT_DROP: {
        {
          rt::obs("fut.connect.begin");
          auto op = unifex::connect(std::move(*fut), FutRecv{&w});
          fut.reset();
          rt::obs("fut.connect.end");
          rt::point("between-connect-and-destroy");
          rt::obs("fut.drop.begin");
          w.drop_begun = true;
        }
        w.drop_returned = true;
        rt::obs("fut.drop.end");
        rt::join(t1); if (t2 >= 0) rt::join(t2);
        break;
      }
    }
  }
  w.term_jmp_armed[0] = false;
  bool joined = false;
  auto jop = unifex::connect(join_sender(scope), JoinRecv{&joined});
  unifex::start(jop);
  w.finish(joined);
}

// spawn_detached: the operation state is deleted by the completing thread on value/done; an error
// completion terminates the process (and nothing else does).
template <typename Scope>
void detached(int kind) {
  World w; w.kind = kind; w.expect_terminate = (kind == K_ERROR);
  Scope scope;
  g_void_leaf = nullptr;
  unifex::spawn_detached(VoidLeaf{}, scope, GuardAlloc<std::byte>{});
  if (!g_void_leaf) { rt::fail("spawn_detached did not start the operation"); return; }
  int t1 = rt::spawn([&] {
    if (setjmp(w.term_jmp[1]) != 0) return;   // std::terminate() reached on this thread (recorded)
    w.term_jmp_armed[1] = true;
    rt::obs("op.complete %s stop=0", kind_name(w.kind));
    rt::point("before-completion");
    g_void_leaf->complete(w.kind);
    w.term_jmp_armed[1] = false;
    rt::obs("op.completed");
  });
  rt::join(t1);
  if (kind == K_ERROR) {
    if (!w.terminated) rt::fail("spawn_detached: error completion did not terminate the process");
    return;
  }
  if (w.terminated) rt::fail("spawn_detached terminated the process for a %s completion", kind_name(kind));
  bool joined = false;
  auto jop = unifex::connect(join_sender(scope), JoinRecv{&joined});
  unifex::start(jop);
  if (w.uaf) rt::fail("heap state accessed after it was freed");
  if (w.allocs != 1 || w.frees != 1) rt::fail("spawn_detached: %d allocated, %d freed", w.allocs, w.frees);
  if (w.leaf_started != 1 || w.leaf_destroyed != 1) rt::fail("spawned operation started %d times, destroyed %d times", w.leaf_started, w.leaf_destroyed);
  if (!joined) rt::fail("scope join did not complete: a scope reference leaked");
}

using V2 = unifex::v2::async_scope;
using V1 = unifex::v1::async_scope;

}  // namespace

SCENARIO(await_value) { scenario<V2>(K_VALUE, O_AWAIT, false); }
SCENARIO(await_error) { scenario<V2>(K_ERROR, O_AWAIT, false); }
SCENARIO(await_done) { scenario<V2>(K_DONE, O_AWAIT, false); }
SCENARIO(cancel_value) { scenario<V2>(K_VALUE, O_AWAIT, true); }
SCENARIO(cancel_error) { scenario<V2>(K_ERROR, O_AWAIT, true); }
SCENARIO(cancel_done) { scenario<V2>(K_DONE, O_AWAIT, true); }
SCENARIO(late_cancel_value) { scenario<V2>(K_VALUE, O_AWAIT, true, true); }
SCENARIO(drop_value) { scenario<V2>(K_VALUE, O_DROP, false); }
SCENARIO(drop_error) { scenario<V2>(K_ERROR, O_DROP, false); }
SCENARIO(drop_done) { scenario<V2>(K_DONE, O_DROP, false); }
SCENARIO(connect_drop_value) { scenario<V2>(K_VALUE, O_CONNECT_DROP, false); }
SCENARIO(connect_stop_drop_value) { scenario<V2>(K_VALUE, O_CONNECT_DROP, true); }

// the same usages through v1::async_scope (nest = attach: extra stop-callback layer)
SCENARIO(v1_await_value) { scenario<V1>(K_VALUE, O_AWAIT, false); }
SCENARIO(v1_await_error) { scenario<V1>(K_ERROR, O_AWAIT, false); }
SCENARIO(v1_drop_value) { scenario<V1>(K_VALUE, O_DROP, false); }
SCENARIO(v1_drop_done) { scenario<V1>(K_DONE, O_DROP, false); }
SCENARIO(v1_cancel_value) { scenario<V1>(K_VALUE, O_AWAIT, true); }
SCENARIO(v1_late_cancel_value) { scenario<V1>(K_VALUE, O_AWAIT, true, true); }

SCENARIO(detached_value) { detached<V2>(K_VALUE); }
SCENARIO(detached_done) { detached<V2>(K_DONE); }
SCENARIO(detached_error) { detached<V2>(K_ERROR); }
SCENARIO(v1_detached_value) { detached<V1>(K_VALUE); }

RT_MAIN()
