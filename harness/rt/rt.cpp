// rt.cpp — cooperative scheduler + own __tsan_* runtime + pthread/clock interposition.
// Compiled WITHOUT -fsanitize=thread.  See rt.hpp.
#include "rt.hpp"

#include <dlfcn.h>
#include <errno.h>
#include <linux/futex.h>
#include <pthread.h>
#include <sched.h>
#include <stdarg.h>
#include <stdio.h>
#include <stdlib.h>
#include <string.h>
#include <sys/syscall.h>
#include <time.h>
#include <unistd.h>

#include <algorithm>
#include <deque>
#include <map>
#include <set>

namespace {

// ---------------------------------------------------------------- futex baton
struct Baton {
  int word = 0;
  void wait() {
    while (__atomic_load_n(&word, __ATOMIC_ACQUIRE) == 0)
      syscall(SYS_futex, &word, FUTEX_WAIT_PRIVATE, 0, nullptr, nullptr, 0);
    __atomic_store_n(&word, 0, __ATOMIC_RELAXED);
  }
  void post() {
    __atomic_store_n(&word, 1, __ATOMIC_RELEASE);
    syscall(SYS_futex, &word, FUTEX_WAKE_PRIVATE, 1, nullptr, nullptr, 0);
  }
};

[[noreturn]] void block_forever() {
  int w = 0;
  for (;;) syscall(SYS_futex, &w, FUTEX_WAIT_PRIVATE, 0, nullptr, nullptr, 0);
}

// ---------------------------------------------------------------- real functions
template <class F>
F real(const char* name) {
  void* p = dlsym(RTLD_NEXT, name);
  if (!p) { fprintf(stderr, "rt: dlsym(%s) failed\n", name); _exit(97); }
  return reinterpret_cast<F>(p);
}
#define REAL(name) ([]{ static auto f = real<decltype(&::name)>(#name); return f; }())

// ---------------------------------------------------------------- state
enum Kind { K_START, K_ATOMIC, K_LOCK, K_CONDWAIT, K_JOIN, K_YIELD, K_SLEEP, K_POINT, K_DONE };
constexpr int CLOCK_TID = -2;

struct Thr {
  int id = -1;
  pthread_t pt{};
  bool has_pt = false;
  Baton baton;
  Kind kind = K_START;
  const void* addr = nullptr;
  // spin detection
  const void* last_addr = nullptr;
  uint64_t last_val = 0, last_progress = 0;
  int spin_count = 0;
  // a spin loop may alternate between a few locations (atomic_intrusive_list::try_lock_checking
  // re-reads a monitored pointer and a link word): remember the last few (address, value) pairs
  // loaded since the last write by anybody
  const void* recent_addr[4] = {nullptr, nullptr, nullptr, nullptr};
  uint64_t recent_val[4] = {0, 0, 0, 0};
  int nrecent = 0;
  bool parked = false;
  uint64_t park_progress = 0;
  uint64_t yield_progress = 0;
  int64_t yield_deadline = 0;   // rt::yield_until: the clock may advance to this time while the thread is yield-blocked (0 = none)
  // condvar / sleep
  bool signalled = false, timed = false, timed_out = false;
  int64_t deadline = 0;
  const void* cond_mutex = nullptr;
  int join_target = -1;
  bool finished = false;
  std::function<void()> fn;
  void* (*c_start)(void*) = nullptr;
  void* c_arg = nullptr;
  void* c_ret = nullptr;
  // pct
  long prio = 0;
};

struct MutexSt { int owner = -1; int depth = 0; };

struct Strategy;

struct ExecState {
  std::vector<Thr*> thr;
  std::map<const void*, MutexSt> mutexes;
  std::map<const void*, std::deque<int>> cond_waiters;
  std::map<pthread_t, int> by_pt;
  int64_t vnow = 1'000'000'000;  // start at 1s so "past" time points exist
  uint64_t progress = 0;
  long steps = 0;
  int forced_spins = 0;
  bool dead = false;
  bool auto_clock = true;
  int current = -1;
  rt::Execution rec;
  Baton controller;
};

ExecState* g_ex = nullptr;           // non-null while an execution is active
thread_local Thr* tl_me = nullptr;   // managed thread descriptor
const rt::Options* g_opt = nullptr;

inline bool managed() { return tl_me != nullptr && g_ex != nullptr && !g_ex->dead; }

// ---------------------------------------------------------------- strategies
struct SplitMix { uint64_t s; uint64_t next() { uint64_t z = (s += 0x9e3779b97f4a7c15ULL); z = (z ^ (z >> 30)) * 0xbf58476d1ce4e5b9ULL; z = (z ^ (z >> 27)) * 0x94d049bb133111ebULL; return z ^ (z >> 31); } };

struct Node { std::vector<int> alts; int idx; int cur; int pre_before; };

struct Strategy {
  std::string mode;
  int bound = 2;
  SplitMix rng{1};
  std::vector<Node> stack;     // nodes of the current execution
  std::vector<int> prefix;     // forced choices
  size_t depth = 0;
  int preempt = 0;
  bool nondet = false;
  // pct
  std::vector<long> change_points;
  long est_len = 64;

  void begin() { stack.clear(); depth = 0; preempt = 0;
    if (mode == "pct") { change_points.clear(); for (int i = 0; i < bound; ++i) change_points.push_back(1 + (long)(rng.next() % (uint64_t)std::max<long>(est_len, 2))); } }

  // E: enabled ids (sorted, CLOCK_TID possibly last); cur: running thread if enabled else -1
  int choose(const std::vector<int>& E, int cur, ExecState& ex) {
    if (E.size() == 1) return E[0];
    std::vector<int> alts;
    int dflt;
    if (cur >= 0) dflt = cur; else { dflt = E[0]; if (dflt == CLOCK_TID && E.size() > 1) dflt = E[1]; }
    if (mode == "pct") {
      // highest priority enabled real thread
      int best = -1;
      for (int t : E) if (t >= 0 && (best < 0 || ex.thr[t]->prio > ex.thr[best]->prio)) best = t;
      if (best >= 0) dflt = best;
      for (long cp : change_points) if (cp == ex.steps && best >= 0) { ex.thr[best]->prio = -(long)(ex.steps); }
    }
    alts.push_back(dflt);
    for (int t : E) if (t != dflt) alts.push_back(t);
    int idx = 0;
    if (depth < prefix.size()) {
      int want = prefix[depth];
      auto it = std::find(alts.begin(), alts.end(), want);
      if (it == alts.end()) { nondet = true; idx = 0; } else idx = int(it - alts.begin());
    } else if (mode == "random") {
      uint64_t r = rng.next();
      if (cur < 0 || (r % 100) < 30) {
        // uniform among real threads; clock only rarely
        std::vector<int> reals; for (int t : E) if (t >= 0) reals.push_back(t);
        int pick;
        if (reals.empty() || ((r >> 8) % 100) < 3) pick = E[(r >> 16) % E.size()];
        else pick = reals[(r >> 16) % reals.size()];
        idx = int(std::find(alts.begin(), alts.end(), pick) - alts.begin());
      }
    }
    int cost = (cur >= 0 && alts[idx] != cur) ? 1 : 0;
    stack.push_back(Node{alts, idx, cur, preempt});
    preempt += cost;
    ++depth;
    return alts[idx];
  }

  // dfs: compute the next prefix; false when exhausted
  bool next_dfs() {
    while (!stack.empty()) {
      Node& n = stack.back();
      for (size_t j = n.idx + 1; j < n.alts.size(); ++j) {
        int cost = (n.cur >= 0 && n.alts[j] != n.cur) ? 1 : 0;
        if (n.pre_before + cost <= bound) {
          prefix.clear();
          for (size_t k = 0; k + 1 < stack.size(); ++k) prefix.push_back(stack[k].alts[stack[k].idx]);
          prefix.push_back(n.alts[j]);
          return true;
        }
      }
      stack.pop_back();
    }
    return false;
  }
};

Strategy* g_strat = nullptr;

// ---------------------------------------------------------------- scheduling core
bool enabled_now(ExecState& ex, Thr& t, bool forced) {
  if (t.finished) return false;
  switch (t.kind) {
    case K_START: case K_POINT: case K_DONE: return true;
    case K_ATOMIC: return forced || !(t.parked && t.park_progress == ex.progress);
    case K_YIELD: return forced || t.yield_progress != ex.progress;
    case K_LOCK: {
      auto it = ex.mutexes.find(t.addr);
      if (it == ex.mutexes.end() || it->second.owner < 0) return true;
      return false;
    }
    case K_CONDWAIT: {
      bool woken = t.signalled || (t.timed && t.deadline <= ex.vnow);
      if (!woken) return false;
      auto it = ex.mutexes.find(t.cond_mutex);
      return it == ex.mutexes.end() || it->second.owner < 0;
    }
    case K_SLEEP: return t.deadline <= ex.vnow;
    case K_JOIN: return ex.thr[t.join_target]->finished;
  }
  return false;
}

bool clock_can_advance(ExecState& ex, int64_t* to) {
  bool any = false; int64_t best = 0;
  for (Thr* t : ex.thr) {
    if (t->finished) continue;
    bool timedwait = (t->kind == K_CONDWAIT && t->timed && !t->signalled) || t->kind == K_SLEEP;
    if (timedwait && t->deadline > ex.vnow) { if (!any || t->deadline < best) best = t->deadline; any = true; }
    // a thread blocked in rt::yield_until (kernel-side timed wait, e.g. epoll_wait with an armed timerfd) that
    // nobody has woken yet: an advance of the clock counts as progress, so it re-polls afterwards
    bool ywait = t->kind == K_YIELD && t->yield_deadline > ex.vnow && t->yield_progress == ex.progress;
    if (ywait) { if (!any || t->yield_deadline < best) best = t->yield_deadline; any = true; }
  }
  if (any && to) *to = best;
  return any;
}

void end_execution(ExecState& ex, const char* why) {
  if (why) { ex.dead = true; ex.rec.failures.push_back(why); }
  ex.controller.post();
}

// Called by the running thread `me` with its pending op filled in (or finished=true).
void reschedule(Thr* me) {
  ExecState& ex = *g_ex;
  for (;;) {
    if (++ex.steps > g_opt->max_steps) { end_execution(ex, "step-limit"); block_forever(); }
    std::vector<int> E;
    for (Thr* t : ex.thr) if (enabled_now(ex, *t, false)) E.push_back(t->id);
    bool forced = false;
    if (E.empty()) {
      // nobody runnable: time may pass, or spinning threads get another (bounded) turn
      int64_t to;
      if (ex.auto_clock && clock_can_advance(ex, &to)) { ex.vnow = to; ex.progress++; continue; }
      for (Thr* t : ex.thr) if (enabled_now(ex, *t, true)) E.push_back(t->id);
      if (E.empty()) {
        bool all_done = true;
        for (Thr* t : ex.thr) if (!t->finished) all_done = false;
        if (all_done) { end_execution(ex, nullptr); return; }
        std::string why = "deadlock:";
        for (Thr* t : ex.thr) if (!t->finished) { char b[64]; snprintf(b, sizeof b, " T%d@%s", t->id,
            t->kind == K_LOCK ? "mutex" : t->kind == K_CONDWAIT ? "condvar" : t->kind == K_JOIN ? "join" : "?"); why += b; }
        end_execution(ex, why.c_str()); block_forever();
      }
      forced = true;
      if (++ex.forced_spins > 200) {
        end_execution(ex, "livelock: only spinning threads remain"); block_forever();
      }
    } else {
      int64_t to;
      if (g_opt->clock_choices && g_strat->mode == "dfs" && clock_can_advance(ex, &to)) E.push_back(CLOCK_TID);
    }
    int cur = -1;
    if (!me->finished && std::find(E.begin(), E.end(), me->id) != E.end()) cur = me->id;
    int next = g_strat->choose(E, cur, ex);
    if (E.size() > 1) ex.rec.choices.push_back(next);
    if (next == CLOCK_TID) { int64_t to; if (clock_can_advance(ex, &to)) { ex.vnow = to; ex.progress++; } continue; }
    Thr* n = ex.thr[next];
    if (forced) { n->parked = false; n->spin_count = 0; n->yield_progress = ex.progress - 1; }
    ex.current = next;
    if (n == me) return;
    n->baton.post();
    if (me->finished) return;
    me->baton.wait();
    return;
  }
}

inline void note_write(ExecState& ex) { ex.progress++; ex.forced_spins = 0; }

void trace_op(const char* op, const void*, uint64_t v) {
  if (g_opt->trace_ops) {
    char b[96]; snprintf(b, sizeof b, "T%d .%s=%llu", tl_me->id, op, (unsigned long long)v);
    g_ex->rec.history.push_back(b);
  }
}

void pre_atomic(const void* a) {
  Thr* me = tl_me; me->kind = K_ATOMIC; me->addr = a; reschedule(me);
}
void post_load(const void* a, uint64_t v) {
  Thr* me = tl_me; ExecState& ex = *g_ex;
  if (me->last_progress != ex.progress) me->nrecent = 0;
  bool again = false;
  for (int k = 0; k < me->nrecent; ++k) if (me->recent_addr[k] == a && me->recent_val[k] == v) again = true;
  if (again) me->spin_count++;
  else {
    me->spin_count = 0;
    if (me->nrecent == 4) me->nrecent = 0;
    me->recent_addr[me->nrecent] = a; me->recent_val[me->nrecent] = v; me->nrecent++;
  }
  me->last_addr = a; me->last_val = v; me->last_progress = ex.progress;
  if (me->spin_count >= 3) { me->parked = true; me->park_progress = ex.progress; } else me->parked = false;
  trace_op("ld", a, v);
}
void post_write(const void* a, uint64_t v) {
  Thr* me = tl_me; me->last_addr = nullptr; me->spin_count = 0; me->nrecent = 0; me->parked = false;
  note_write(*g_ex); trace_op("wr", a, v);
}

// ---------------------------------------------------------------- thread start/finish
void* trampoline(void* p) {
  Thr* me = static_cast<Thr*>(p);
  tl_me = me;
  me->baton.wait();
  if (me->fn) me->fn(); else me->c_ret = me->c_start(me->c_arg);
  // finished
  me->finished = true; me->kind = K_DONE;
  note_write(*g_ex);
  void* ret = me->c_ret;
  tl_me = nullptr;
  reschedule(me);
  return ret;
}

Thr* new_thread(ExecState& ex) {
  Thr* t = new Thr; t->id = (int)ex.thr.size(); t->kind = K_START;
  t->prio = 1000 + (long)(g_strat->rng.next() % 1000);
  ex.thr.push_back(t); return t;
}

void start_os_thread(ExecState& ex, Thr* t) {
  pthread_attr_t at; pthread_attr_init(&at); pthread_attr_setstacksize(&at, 1 << 20);
  int rc = REAL(pthread_create)(&t->pt, &at, trampoline, t);
  pthread_attr_destroy(&at);
  if (rc != 0) { fprintf(stderr, "rt: pthread_create failed %d\n", rc); _exit(98); }
  t->has_pt = true; ex.by_pt[t->pt] = t->id;
}

}  // namespace

// ================================================================== public API
namespace rt {

int self() { return tl_me ? tl_me->id : -1; }

int alive() { int n = 0; if (g_ex) for (Thr* t : g_ex->thr) if (!t->finished) ++n; return n; }

int spawn(std::function<void()> fn) {
  if (!managed()) { fprintf(stderr, "rt::spawn outside an execution\n"); _exit(96); }
  ExecState& ex = *g_ex;
  Thr* t = new_thread(ex); t->fn = std::move(fn);
  start_os_thread(ex, t);
  point("spawn");
  return t->id;
}

void join(int tid) {
  ExecState& ex = *g_ex; Thr* me = tl_me;
  me->kind = K_JOIN; me->join_target = tid; reschedule(me);
  Thr* t = ex.thr[tid];
  if (t->has_pt) { REAL(pthread_join)(t->pt, nullptr); t->has_pt = false; }
}

void point(const char*) {
  if (!managed()) return;
  Thr* me = tl_me; me->kind = K_POINT; reschedule(me);
}

void obs(const char* fmt, ...) {
  char b[512]; int n = snprintf(b, sizeof b, "T%d ", self());
  va_list ap; va_start(ap, fmt); vsnprintf(b + n, sizeof b - n, fmt, ap); va_end(ap);
  if (g_ex) g_ex->rec.history.push_back(b); else fprintf(stderr, "rt::obs outside execution: %s\n", b);
}

void fail(const char* fmt, ...) {
  char b[512];
  va_list ap; va_start(ap, fmt); vsnprintf(b, sizeof b, fmt, ap); va_end(ap);
  if (g_ex) g_ex->rec.failures.push_back(std::string("monitor: ") + b); else fprintf(stderr, "rt::fail: %s\n", b);
}

int64_t vnow_ns() { return g_ex ? g_ex->vnow : 0; }
void yield_until(int64_t deadline_ns) {
  if (!managed()) return;
  Thr* me = tl_me; me->kind = K_YIELD; me->yield_deadline = deadline_ns; me->yield_progress = g_ex->progress; reschedule(me);
  me->yield_deadline = 0;
}
void set_auto_clock(bool on) { if (g_ex) g_ex->auto_clock = on; }

Stats explore(const std::function<void()>& body, const Options& opt, const Sink& sink) {
  Stats st; g_opt = &opt;
  Strategy strat; strat.mode = opt.mode; strat.bound = opt.preemptions; strat.rng.s = opt.seed * 0x2545F4914F6CDD1DULL + 12345;
  if (opt.mode == "replay") strat.prefix = opt.replay;
  g_strat = &strat;
  std::set<std::string> seen;
  int abandoned = 0;
  for (;;) {
    ExecState* ex = new ExecState;
    strat.begin();
    g_ex = ex;
    Thr* t0 = new_thread(*ex); t0->fn = body;
    start_os_thread(*ex, t0);
    ex->current = 0;
    t0->baton.post();
    ex->controller.wait();
    g_ex = nullptr;
    ex->rec.preemptions = strat.preempt; ex->rec.steps = ex->steps;
    if (strat.nondet) ex->rec.failures.push_back("rt: nondeterministic replay (schedule prefix not enabled)");
    strat.nondet = false;
    if (!ex->dead) {
      for (Thr* t : ex->thr) if (t->has_pt) { REAL(pthread_join)(t->pt, nullptr); t->has_pt = false; }
    }
    st.executions++;
    if (strat.preempt > 0) st.with_preemption++;
    if (!ex->rec.failures.empty()) st.failures++;
    if (ex->dead) st.deadlocks++;
    st.max_steps_seen = std::max(st.max_steps_seen, ex->steps);
    strat.est_len = std::max<long>(strat.est_len, ex->steps);
    { std::string key; for (auto& h : ex->rec.history) { key += h; key += '\n'; } if (seen.insert(key).second) st.distinct_histories++; }
    sink(ex->rec);
    if (ex->dead) { ++abandoned; /* threads of this execution stay blocked; leak it */ }
    else { for (Thr* t : ex->thr) delete t; delete ex; }
    if (abandoned >= 25) break;
    if (st.executions >= opt.max_execs) break;
    if (opt.mode == "dfs") { if (!strat.next_dfs()) { st.exhausted = true; break; } }
    else if (opt.mode == "replay") break;
  }
  g_strat = nullptr;
  return st;
}

}  // namespace rt

// ================================================================== __tsan_* runtime
extern "C" {

#define TSAN_ATOMIC(N, T)                                                                        \
  T __tsan_atomic##N##_load(const volatile T* a, int) {                                          \
    if (!managed()) return __atomic_load_n(a, __ATOMIC_SEQ_CST);                                 \
    pre_atomic((const void*)a); T v = __atomic_load_n(a, __ATOMIC_SEQ_CST);                      \
    post_load((const void*)a, (uint64_t)v); return v; }                                          \
  void __tsan_atomic##N##_store(volatile T* a, T v, int) {                                       \
    if (!managed()) { __atomic_store_n(a, v, __ATOMIC_SEQ_CST); return; }                        \
    pre_atomic((const void*)a); __atomic_store_n(a, v, __ATOMIC_SEQ_CST);                        \
    post_write((const void*)a, (uint64_t)v); }                                                   \
  T __tsan_atomic##N##_exchange(volatile T* a, T v, int) {                                       \
    if (!managed()) return __atomic_exchange_n(a, v, __ATOMIC_SEQ_CST);                          \
    pre_atomic((const void*)a); T o = __atomic_exchange_n(a, v, __ATOMIC_SEQ_CST);               \
    post_write((const void*)a, (uint64_t)v); return o; }                                         \
  T __tsan_atomic##N##_fetch_add(volatile T* a, T v, int) {                                      \
    if (!managed()) return __atomic_fetch_add(a, v, __ATOMIC_SEQ_CST);                           \
    pre_atomic((const void*)a); T o = __atomic_fetch_add(a, v, __ATOMIC_SEQ_CST);                \
    post_write((const void*)a, (uint64_t)(T)(o + v)); return o; }                                \
  T __tsan_atomic##N##_fetch_sub(volatile T* a, T v, int) {                                      \
    if (!managed()) return __atomic_fetch_sub(a, v, __ATOMIC_SEQ_CST);                           \
    pre_atomic((const void*)a); T o = __atomic_fetch_sub(a, v, __ATOMIC_SEQ_CST);                \
    post_write((const void*)a, (uint64_t)(T)(o - v)); return o; }                                \
  T __tsan_atomic##N##_fetch_and(volatile T* a, T v, int) {                                      \
    if (!managed()) return __atomic_fetch_and(a, v, __ATOMIC_SEQ_CST);                           \
    pre_atomic((const void*)a); T o = __atomic_fetch_and(a, v, __ATOMIC_SEQ_CST);                \
    post_write((const void*)a, (uint64_t)(T)(o & v)); return o; }                                \
  T __tsan_atomic##N##_fetch_or(volatile T* a, T v, int) {                                       \
    if (!managed()) return __atomic_fetch_or(a, v, __ATOMIC_SEQ_CST);                            \
    pre_atomic((const void*)a); T o = __atomic_fetch_or(a, v, __ATOMIC_SEQ_CST);                 \
    post_write((const void*)a, (uint64_t)(T)(o | v)); return o; }                                \
  T __tsan_atomic##N##_fetch_xor(volatile T* a, T v, int) {                                      \
    if (!managed()) return __atomic_fetch_xor(a, v, __ATOMIC_SEQ_CST);                           \
    pre_atomic((const void*)a); T o = __atomic_fetch_xor(a, v, __ATOMIC_SEQ_CST);                \
    post_write((const void*)a, (uint64_t)(T)(o ^ v)); return o; }                                \
  T __tsan_atomic##N##_fetch_nand(volatile T* a, T v, int) {                                     \
    if (!managed()) return __atomic_fetch_nand(a, v, __ATOMIC_SEQ_CST);                          \
    pre_atomic((const void*)a); T o = __atomic_fetch_nand(a, v, __ATOMIC_SEQ_CST);               \
    post_write((const void*)a, (uint64_t)(T)(~(o & v))); return o; }                             \
  int __tsan_atomic##N##_compare_exchange_strong(volatile T* a, T* c, T v, int, int) {           \
    if (!managed()) return __atomic_compare_exchange_n(a, c, v, 0, __ATOMIC_SEQ_CST, __ATOMIC_SEQ_CST); \
    pre_atomic((const void*)a);                                                                  \
    int ok = __atomic_compare_exchange_n(a, c, v, 0, __ATOMIC_SEQ_CST, __ATOMIC_SEQ_CST);        \
    if (ok) post_write((const void*)a, (uint64_t)v); else post_load((const void*)a, (uint64_t)*c); \
    return ok; }                                                                                 \
  int __tsan_atomic##N##_compare_exchange_weak(volatile T* a, T* c, T v, int mo, int fmo) {      \
    return __tsan_atomic##N##_compare_exchange_strong(a, c, v, mo, fmo); }                       \
  T __tsan_atomic##N##_compare_exchange_val(volatile T* a, T c, T v, int mo, int fmo) {          \
    __tsan_atomic##N##_compare_exchange_strong(a, &c, v, mo, fmo); return c; }

TSAN_ATOMIC(8, unsigned char)
TSAN_ATOMIC(16, unsigned short)
TSAN_ATOMIC(32, unsigned int)
TSAN_ATOMIC(64, unsigned long)

void __tsan_atomic_thread_fence(int) { __atomic_thread_fence(__ATOMIC_SEQ_CST); }
void __tsan_atomic_signal_fence(int) {}

void __tsan_init() {}
void __tsan_func_entry(void*) {}
void __tsan_func_exit() {}
void __tsan_read1(void*) {} void __tsan_read2(void*) {} void __tsan_read4(void*) {} void __tsan_read8(void*) {} void __tsan_read16(void*) {}
void __tsan_write1(void*) {} void __tsan_write2(void*) {} void __tsan_write4(void*) {} void __tsan_write8(void*) {} void __tsan_write16(void*) {}
void __tsan_unaligned_read2(void*) {} void __tsan_unaligned_read4(void*) {} void __tsan_unaligned_read8(void*) {} void __tsan_unaligned_read16(void*) {}
void __tsan_unaligned_write2(void*) {} void __tsan_unaligned_write4(void*) {} void __tsan_unaligned_write8(void*) {} void __tsan_unaligned_write16(void*) {}
void __tsan_read1_pc(void*, void*) {} void __tsan_read2_pc(void*, void*) {} void __tsan_read4_pc(void*, void*) {} void __tsan_read8_pc(void*, void*) {} void __tsan_read16_pc(void*, void*) {}
void __tsan_write1_pc(void*, void*) {} void __tsan_write2_pc(void*, void*) {} void __tsan_write4_pc(void*, void*) {} void __tsan_write8_pc(void*, void*) {} void __tsan_write16_pc(void*, void*) {}
void __tsan_vptr_update(void**, void*) {}
void __tsan_vptr_read(void**) {}
void __tsan_read_range(void*, unsigned long) {}
void __tsan_write_range(void*, unsigned long) {}
void __tsan_ignore_thread_begin() {} void __tsan_ignore_thread_end() {}
void* __tsan_memcpy(void* d, const void* s, unsigned long n) { return memcpy(d, s, n); }
void* __tsan_memset(void* d, int c, unsigned long n) { return memset(d, c, n); }
void* __tsan_memmove(void* d, const void* s, unsigned long n) { return memmove(d, s, n); }

// ================================================================== pthread / clock interposition
static bool is_recursive(pthread_mutex_t* m) { return (m->__data.__kind & 127) == PTHREAD_MUTEX_RECURSIVE_NP; }

int pthread_mutex_lock(pthread_mutex_t* m) {
  if (!managed()) return REAL(pthread_mutex_lock)(m);
  ExecState& ex = *g_ex; Thr* me = tl_me;
  MutexSt& s0 = ex.mutexes[m];
  if (s0.owner == me->id) {
    if (is_recursive(m)) { s0.depth++; return 0; }
    rt::fail("relock of a non-recursive mutex by its owner"); return EDEADLK;
  }
  me->kind = K_LOCK; me->addr = m; reschedule(me);
  MutexSt& s = ex.mutexes[m]; s.owner = me->id; s.depth = 1;
  return 0;
}
int pthread_mutex_trylock(pthread_mutex_t* m) {
  if (!managed()) return REAL(pthread_mutex_trylock)(m);
  ExecState& ex = *g_ex; Thr* me = tl_me;
  me->kind = K_POINT; reschedule(me);
  MutexSt& s = ex.mutexes[m];
  if (s.owner < 0) { s.owner = me->id; s.depth = 1; return 0; }
  if (s.owner == me->id && is_recursive(m)) { s.depth++; return 0; }
  return EBUSY;
}
int pthread_mutex_unlock(pthread_mutex_t* m) {
  if (!managed()) return REAL(pthread_mutex_unlock)(m);
  ExecState& ex = *g_ex; Thr* me = tl_me;
  auto it = ex.mutexes.find(m);
  if (it == ex.mutexes.end() || it->second.owner != me->id) {
    // locked outside the managed world (or never): fall through to the real one
    return REAL(pthread_mutex_unlock)(m);
  }
  if (--it->second.depth == 0) { it->second.owner = -1; note_write(ex); }
  me->kind = K_POINT; reschedule(me);   // others may grab it right after the unlock
  return 0;
}

static int cond_wait_common(pthread_cond_t* c, pthread_mutex_t* m, bool timed, int64_t deadline) {
  ExecState& ex = *g_ex; Thr* me = tl_me;
  auto it = ex.mutexes.find(m);
  if (it == ex.mutexes.end() || it->second.owner != me->id) { rt::fail("cond_wait without owning the mutex"); return EPERM; }
  it->second.owner = -1; it->second.depth = 0; note_write(ex);
  ex.cond_waiters[c].push_back(me->id);
  me->kind = K_CONDWAIT; me->addr = c; me->cond_mutex = m; me->signalled = false; me->timed = timed; me->deadline = deadline;
  reschedule(me);
  bool to = !me->signalled;
  if (to) { auto& q = ex.cond_waiters[c]; q.erase(std::remove(q.begin(), q.end(), me->id), q.end()); }
  MutexSt& s = ex.mutexes[m]; s.owner = me->id; s.depth = 1;
  me->signalled = false; me->timed = false;
  return to ? ETIMEDOUT : 0;
}
static int64_t ts_ns(const struct timespec* t) { return (int64_t)t->tv_sec * 1'000'000'000 + t->tv_nsec; }

int pthread_cond_wait(pthread_cond_t* c, pthread_mutex_t* m) {
  if (!managed()) return REAL(pthread_cond_wait)(c, m);
  return cond_wait_common(c, m, false, 0);
}
int pthread_cond_timedwait(pthread_cond_t* c, pthread_mutex_t* m, const struct timespec* t) {
  if (!managed()) return REAL(pthread_cond_timedwait)(c, m, t);
  return cond_wait_common(c, m, true, ts_ns(t));
}
int pthread_cond_clockwait(pthread_cond_t* c, pthread_mutex_t* m, clockid_t id, const struct timespec* t) {
  if (!managed()) return REAL(pthread_cond_clockwait)(c, m, id, t);
  return cond_wait_common(c, m, true, ts_ns(t));
}
int pthread_cond_signal(pthread_cond_t* c) {
  if (!managed()) return REAL(pthread_cond_signal)(c);
  ExecState& ex = *g_ex; Thr* me = tl_me;
  auto& q = ex.cond_waiters[c];
  if (!q.empty()) { ex.thr[q.front()]->signalled = true; q.pop_front(); note_write(ex); }
  me->kind = K_POINT; reschedule(me);
  return 0;
}
int pthread_cond_broadcast(pthread_cond_t* c) {
  if (!managed()) return REAL(pthread_cond_broadcast)(c);
  ExecState& ex = *g_ex; Thr* me = tl_me;
  auto& q = ex.cond_waiters[c];
  for (int t : q) ex.thr[t]->signalled = true;
  if (!q.empty()) note_write(ex);
  q.clear();
  me->kind = K_POINT; reschedule(me);
  return 0;
}

int pthread_create(pthread_t* out, const pthread_attr_t* attr, void* (*start)(void*), void* arg) {
  if (!managed()) return REAL(pthread_create)(out, attr, start, arg);
  ExecState& ex = *g_ex;
  Thr* t = new_thread(ex); t->c_start = start; t->c_arg = arg;
  start_os_thread(ex, t);
  *out = t->pt;
  rt::point("pthread_create");
  return 0;
}
int pthread_join(pthread_t pt, void** ret) {
  if (!managed()) return REAL(pthread_join)(pt, ret);
  ExecState& ex = *g_ex; Thr* me = tl_me;
  auto it = ex.by_pt.find(pt);
  if (it == ex.by_pt.end()) return REAL(pthread_join)(pt, ret);
  Thr* t = ex.thr[it->second];
  me->kind = K_JOIN; me->join_target = t->id; reschedule(me);
  int rc = 0;
  if (t->has_pt) { rc = REAL(pthread_join)(t->pt, ret); t->has_pt = false; }
  return rc;
}
int pthread_detach(pthread_t pt) {
  if (!managed()) return REAL(pthread_detach)(pt);
  ExecState& ex = *g_ex;
  auto it = ex.by_pt.find(pt);
  if (it != ex.by_pt.end()) { ex.thr[it->second]->has_pt = false; }
  return REAL(pthread_detach)(pt);
}

int sched_yield(void) {
  if (!managed()) return REAL(sched_yield)();
  Thr* me = tl_me; me->kind = K_YIELD; me->yield_deadline = 0; me->yield_progress = g_ex->progress; reschedule(me);
  return 0;
}

int clock_gettime(clockid_t id, struct timespec* ts) {
  if (!managed()) return REAL(clock_gettime)(id, ts);
  int64_t v = g_ex->vnow; ts->tv_sec = v / 1'000'000'000; ts->tv_nsec = v % 1'000'000'000;
  return 0;
}
static int sleep_until(int64_t deadline) {
  Thr* me = tl_me; me->kind = K_SLEEP; me->deadline = deadline; reschedule(me); return 0;
}
int nanosleep(const struct timespec* req, struct timespec* rem) {
  if (!managed()) return REAL(nanosleep)(req, rem);
  return sleep_until(g_ex->vnow + ts_ns(req));
}
int clock_nanosleep(clockid_t id, int flags, const struct timespec* req, struct timespec* rem) {
  if (!managed()) return REAL(clock_nanosleep)(id, flags, req, rem);
  return sleep_until((flags & TIMER_ABSTIME) ? ts_ns(req) : g_ex->vnow + ts_ns(req));
}

}  // extern "C"
