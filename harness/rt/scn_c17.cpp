// scn_c17.cpp — C17 scenarios: bulk_schedule(n) on the REAL static_thread_pool under the controlled
// scheduler, with a stop request racing from another thread.  bulk_schedule has no specialised path
// for static_thread_pool (only the default `_default_sender` exists in the tree), so the index loop
// runs sequentially on whichever worker picks the schedule operation up; the scenarios check that
// under every explored interleaving of the workers, the stopper and the waiting thread.
//
// History (one line per event, compared with the Lean model `bulk/loop` via `admits`):
//   "next <i>"  set_next(i) returned  |  "value" / "done" / "error"  the terminal signal
// Monitors (independent of the model): index visited twice / out of range; index missing at value
// completion; set_next after the terminal signal; two terminal signals; set_next calls overlapping
// (or overlapping the terminal signal) although the receiver's policy is sequenced; set_next on a
// thread that is not a pool worker; set_done although nobody requested stop.
#include "rt_main.hpp"

#include <unifex/bulk_join.hpp>
#include <unifex/bulk_schedule.hpp>
#include <unifex/bulk_transform.hpp>
#include <unifex/inplace_stop_token.hpp>
#include <unifex/let_value_with_stop_source.hpp>
#include <unifex/static_thread_pool.hpp>
#include <unifex/sync_wait.hpp>

#include <atomic>
#include <vector>

namespace {

struct World {
  explicit World(std::size_t n) : n(n), seen(n, 0) {}
  std::size_t n;
  std::vector<int> seen;
  int in_next = 0;
  int terminals = 0;
  bool stop_called = false;       // request_stop() has been entered by the stopper
  int body_tid = -1, stopper_tid = -1;
  std::atomic<bool> finished{false};
  unifex::inplace_stop_source src;

  void next(std::size_t i, bool point) {
    if (in_next++) rt::fail("set_next(%zu) overlaps another set_next although the policy is sequenced", i);
    if (terminals) rt::fail("set_next(%zu) after the terminal signal", i);
    if (i >= n) rt::fail("set_next(%zu) out of range (n=%zu)", i, n);
    else if (++seen[i] > 1) rt::fail("index %zu visited twice", i);
    if (rt::self() == body_tid || rt::self() == stopper_tid) rt::fail("set_next(%zu) on T%d, not a pool worker", i, rt::self());
    if (point) rt::point("in-set_next");   // user code in the bulk body takes time
    rt::obs("next %zu", i);
    --in_next;
  }
  void terminal(const char* what) {
    if (in_next) rt::fail("%s overlaps a set_next call", what);
    if (++terminals > 1) rt::fail("second terminal signal (%s)", what);
    if (what[0] == 'v') {
      for (std::size_t i = 0; i < n; ++i) if (seen[i] != 1) rt::fail("index %zu visited %d times at value completion", i, seen[i]);
    } else if (what[0] == 'd') {
      if (!stop_called) rt::fail("set_done although stop was never requested");
      std::size_t k = 0;
      while (k < n && seen[k] == 1) ++k;
      for (std::size_t i = k; i < n; ++i) if (seen[i] != 0) rt::fail("visited indices are not a prefix at done completion (hole before %zu)", i);
    }
    rt::obs("%s", what);
  }
  void stop() {
    stop_called = true;
    src.request_stop();
  }
};

struct ManyReceiver {
  World* w;
  bool point;
  void set_next(std::size_t i) & noexcept { w->next(i, point || i + 2 >= w->n || i % unifex::bulk_cancellation_chunk_size + 1 >= unifex::bulk_cancellation_chunk_size); }
  void set_value() && noexcept { w->terminal("value"); w->finished.store(true); }
  void set_done() && noexcept { w->terminal("done"); w->finished.store(true); }
  template <typename E>
  void set_error(E&&) && noexcept { w->terminal("error"); w->finished.store(true); }
  friend unifex::sequenced_policy tag_invoke(unifex::tag_t<unifex::get_execution_policy>, const ManyReceiver&) noexcept { return {}; }
  friend unifex::inplace_stop_token tag_invoke(unifex::tag_t<unifex::get_stop_token>, const ManyReceiver& r) noexcept { return r.w->src.get_token(); }
};

// bulk_schedule(pool, n) connected directly to a recording many-receiver; a second thread requests stop
void direct(std::size_t n, unsigned workers, bool point_everywhere) {
  World w(n);
  w.body_tid = rt::self();
  {
    unifex::static_thread_pool pool(workers);
    auto op = unifex::connect(unifex::bulk_schedule(pool.get_scheduler(), n), ManyReceiver{&w, point_everywhere});
    int t = rt::spawn([&] { w.stopper_tid = rt::self(); w.stop(); });
    unifex::start(op);
    rt::join(t);
    while (!w.finished.load()) {}   // spin-wait: parked by the runtime until the flag changes
  }
  if (w.terminals != 1) rt::fail("%d terminal signals", w.terminals);
}

// the composition find_if uses: let_value_with_stop_source(bulk_join(bulk_transform(bulk_schedule, f, par)));
// the stop is requested by the bulk body itself at index `stop_in`
void composed(std::size_t n, unsigned workers, std::size_t stop_in) {
  World w(n);
  w.body_tid = rt::self();
  {
    unifex::static_thread_pool pool(workers);
    auto r = unifex::sync_wait(unifex::let_value_with_stop_source([&](unifex::inplace_stop_source& src) {
      return unifex::bulk_join(unifex::bulk_transform(
          unifex::bulk_schedule(pool.get_scheduler(), n),
          [&w, &src, stop_in](std::size_t i) noexcept {
            if (i == stop_in) { w.stop_called = true; src.request_stop(); }
            w.next(i, i + 1 >= w.n || i == stop_in);
          },
          unifex::par));
    }));
    w.terminal(r.has_value() ? "value" : "done");
  }
}

}  // namespace

SCENARIO(pool_bulk_stop) { direct(3, 2, true); }
SCENARIO(pool_bulk_one_worker) { direct(8, 1, false); }
SCENARIO(pool_bulk_two_chunks) { direct(unifex::bulk_cancellation_chunk_size + 2, 2, false); }
SCENARIO(pool_bulk_empty) { direct(0, 1, false); }
SCENARIO(pool_composed) { composed(unifex::bulk_cancellation_chunk_size + 2, 2, 3); }

RT_MAIN()
