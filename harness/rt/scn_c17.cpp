// scn_c17.cpp — C17 scenarios: bulk_schedule(n) on the REAL static_thread_pool under the controlled
// scheduler, with a stop request racing from another thread.  bulk_schedule has no specialised path
// for static_thread_pool (only the default `_default_sender` exists in the tree), so the index loop
// runs sequentially on whichever worker picks the schedule operation up; the scenarios check that
// under every explored interleaving of the workers, the stopper and the waiting thread.
//
// History (one line per event, compared with the Lean model `bulk/loop` via `admits`):
//   "next <i>"  set_next(i) returned  |  "value" / "done" / "error"  the terminal signal
// Monitors (independent of the model): index visited twice / out of range; index missing at value
// completion; set_next after the terminal signal; two terminal signals; set_next calls overlapping
// (or overlapping the terminal signal) although the receiver's policy is sequenced; set_next on a
// thread that is not a pool worker; set_done although nobody requested stop.
#include "rt_main.hpp"

#include <unifex/bulk_join.hpp>
#include <unifex/bulk_schedule.hpp>
#include <unifex/bulk_transform.hpp>
#include <unifex/inplace_stop_token.hpp>
#include <unifex/let_value_with_stop_source.hpp>
#include <unifex/static_thread_pool.hpp>
#include <unifex/sync_wait.hpp>

#include <atomic>
#include <exception>
#include <type_traits>
#include <vector>

namespace {

struct World {
  explicit World(std::size_t n) : n(n), seen(n, 0) {}
  std::size_t n;
  std::vector<int> seen;
  int in_next = 0;
  int terminals = 0;
  bool stop_called = false;       // request_stop() has been entered by the stopper
  int body_tid = -1, stopper_tid = -1;
  std::atomic<bool> finished{false};
  unifex::inplace_stop_source src;

  void next(std::size_t i, bool point) {
    if (in_next++) rt::fail("set_next(%zu) overlaps another set_next although the policy is sequenced", i);
    if (terminals) rt::fail("set_next(%zu) after the terminal signal", i);
    if (i >= n) rt::fail("set_next(%zu) out of range (n=%zu)", i, n);
    else if (++seen[i] > 1) rt::fail("index %zu visited twice", i);
    if (rt::self() == body_tid || rt::self() == stopper_tid) rt::fail("set_next(%zu) on T%d, not a pool worker", i, rt::self());
    if (point) rt::point("in-set_next");   // user code in the bulk body takes time
    rt::obs("next %zu", i);
    --in_next;
  }
  void terminal(const char* what) {
    if (in_next) rt::fail("%s overlaps a set_next call", what);
    if (++terminals > 1) rt::fail("second terminal signal (%s)", what);
    if (what[0] == 'v') {
      for (std::size_t i = 0; i < n; ++i) if (seen[i] != 1) rt::fail("index %zu visited %d times at value completion", i, seen[i]);
    } else if (what[0] == 'd') {
      if (!stop_called) rt::fail("set_done although stop was never requested");
      std::size_t k = 0;
      while (k < n && seen[k] == 1) ++k;
      for (std::size_t i = k; i < n; ++i) if (seen[i] != 0) rt::fail("visited indices are not a prefix at done completion (hole before %zu)", i);
    }
    rt::obs("%s", what);
  }
  void stop() {
    stop_called = true;
    src.request_stop();
  }
};

struct ManyReceiver {
  World* w;
  bool point;
  void set_next(std::size_t i) & noexcept { w->next(i, point || i + 2 >= w->n || i % unifex::bulk_cancellation_chunk_size + 1 >= unifex::bulk_cancellation_chunk_size); }
  void set_value() && noexcept { w->terminal("value"); w->finished.store(true); }
  void set_done() && noexcept { w->terminal("done"); w->finished.store(true); }
  template <typename E>
  void set_error(E&&) && noexcept { w->terminal("error"); w->finished.store(true); }
  friend unifex::sequenced_policy tag_invoke(unifex::tag_t<unifex::get_execution_policy>, const ManyReceiver&) noexcept { return {}; }
  friend unifex::inplace_stop_token tag_invoke(unifex::tag_t<unifex::get_stop_token>, const ManyReceiver& r) noexcept { return r.w->src.get_token(); }
};

// bulk_schedule(pool, n) connected directly to a recording many-receiver; a second thread requests stop
void direct(std::size_t n, unsigned workers, bool point_everywhere) {
  World w(n);
  w.body_tid = rt::self();
  {
    unifex::static_thread_pool pool(workers);
    auto op = unifex::connect(unifex::bulk_schedule(pool.get_scheduler(), n), ManyReceiver{&w, point_everywhere});
    int t = rt::spawn([&] { w.stopper_tid = rt::self(); w.stop(); });
    unifex::start(op);
    rt::join(t);
    while (!w.finished.load()) {}   // spin-wait: parked by the runtime until the flag changes
  }
  if (w.terminals != 1) rt::fail("%d terminal signals", w.terminals);
}

// the composition find_if uses: let_value_with_stop_source(bulk_join(bulk_transform(bulk_schedule, f, par)));
// the stop is requested by the bulk body itself at index `stop_in`
void composed(std::size_t n, unsigned workers, std::size_t stop_in) {
  World w(n);
  w.body_tid = rt::self();
  {
    unifex::static_thread_pool pool(workers);
    auto r = unifex::sync_wait(unifex::let_value_with_stop_source([&](unifex::inplace_stop_source& src) {
      return unifex::bulk_join(unifex::bulk_transform(
          unifex::bulk_schedule(pool.get_scheduler(), n),
          [&w, &src, stop_in](std::size_t i) noexcept {
            if (i == stop_in) { w.stop_called = true; src.request_stop(); }
            w.next(i, i + 1 >= w.n || i == stop_in);
          },
          unifex::par));
    }));
    w.terminal(r.has_value() ? "value" : "done");
  }
}

}  // namespace

SCENARIO(pool_bulk_stop) { direct(3, 2, true); }
SCENARIO(pool_bulk_one_worker) { direct(8, 1, false); }
SCENARIO(pool_bulk_two_chunks) { direct(unifex::bulk_cancellation_chunk_size + 2, 2, false); }
SCENARIO(pool_bulk_empty) { direct(0, 1, false); }
SCENARIO(pool_composed) { composed(unifex::bulk_cancellation_chunk_size + 2, 2, 3); }


// ---------------------------------------------------------------------------------------------------
// execution-policy scenarios: a bulk source that HONOURS the policy advertised by its receiver (two managed
// threads deliver the two halves of the index space when the policy permits parallel execution, else the
// calling thread delivers everything) below bulk_transform(f, P) below a receiver with policy R.
// History: "seen <policy>" (what the source saw = decltype(get_execution_policy(receiver))), "value".
// Monitor: f invoked concurrently although P does not permit parallel execution.
namespace {

template <typename P>
const char* policy_name() {
  if (std::is_same_v<P, unifex::sequenced_policy>) return "seq";
  if (std::is_same_v<P, unifex::unsequenced_policy>) return "unseq";
  if (std::is_same_v<P, unifex::parallel_policy>) return "par";
  if (std::is_same_v<P, unifex::parallel_unsequenced_policy>) return "par_unseq";
  return "?";
}

template <typename Receiver>
struct honouring_op {
  Receiver r;
  std::size_t n;
  void start() noexcept {
    using policy_t = unifex::remove_cvref_t<decltype(unifex::get_execution_policy(r))>;
    rt::obs("seen %s", policy_name<policy_t>());
    if constexpr (std::is_same_v<policy_t, unifex::parallel_policy> || std::is_same_v<policy_t, unifex::parallel_unsequenced_policy>) {
      int a = rt::spawn([&] { for (std::size_t i = 0; i < n / 2; ++i) unifex::set_next(r, std::size_t(i)); });
      int b = rt::spawn([&] { for (std::size_t i = n / 2; i < n; ++i) unifex::set_next(r, std::size_t(i)); });
      rt::join(a);
      rt::join(b);
    } else {
      for (std::size_t i = 0; i < n; ++i) unifex::set_next(r, std::size_t(i));
    }
    unifex::set_value(std::move(r));
  }
};

struct honouring_source {
  std::size_t n;
  template <template <typename...> class Variant, template <typename...> class Tuple>
  using value_types = Variant<Tuple<>>;
  template <template <typename...> class Variant, template <typename...> class Tuple>
  using next_types = Variant<Tuple<std::size_t>>;
  template <template <typename...> class Variant>
  using error_types = Variant<std::exception_ptr>;
  static constexpr bool sends_done = false;
  template <typename Receiver>
  friend honouring_op<unifex::remove_cvref_t<Receiver>> tag_invoke(unifex::tag_t<unifex::connect>, honouring_source s, Receiver&& r) {
    return honouring_op<unifex::remove_cvref_t<Receiver>>{(Receiver&&)r, s.n};
  }
};

template <typename Policy>
struct PolicyReceiver {
  bool* done;
  template <typename... A>
  void set_next(A&&...) & noexcept {}
  void set_value() && noexcept { *done = true; rt::obs("value"); }
  void set_done() && noexcept { *done = true; rt::obs("done"); }
  template <typename E>
  void set_error(E&&) && noexcept { *done = true; rt::obs("error"); }
  friend Policy tag_invoke(unifex::tag_t<unifex::get_execution_policy>, const PolicyReceiver&) noexcept { return {}; }
};

// receiver policy R (or bulk_join when Join), function policy P
template <typename R, typename P, bool Join>
void policy_scenario() {
  constexpr std::size_t n = 4;
  constexpr bool par_ok = std::is_same_v<P, unifex::parallel_policy> || std::is_same_v<P, unifex::parallel_unsequenced_policy>;
  int inside = 0, calls = 0;
  std::vector<int> seen(n, 0);
  auto f = [&](std::size_t i) noexcept {
    if (inside++ && !par_ok) rt::fail("function registered with policy %s invoked concurrently", policy_name<P>());
    rt::point("in-bulk-function");
    ++calls;
    if (i < n) ++seen[i];
    --inside;
  };
  auto snd = unifex::bulk_transform(honouring_source{n}, f, P{});
  if constexpr (Join) {
    auto r = unifex::sync_wait(unifex::bulk_join(std::move(snd)));
    rt::obs("%s", r.has_value() ? "value" : "done");
  } else {
    bool done = false;
    auto op = unifex::connect(std::move(snd), PolicyReceiver<R>{&done});
    unifex::start(op);
    if (!done) rt::fail("no terminal signal");
  }
  for (std::size_t i = 0; i < n; ++i) if (seen[i] != 1) rt::fail("index %zu delivered to the function %d times", i, seen[i]);
}

}  // namespace

SCENARIO(policy_seq_over_join) { policy_scenario<void, unifex::sequenced_policy, true>(); }
SCENARIO(policy_unseq_over_par_unseq) { policy_scenario<unifex::parallel_unsequenced_policy, unifex::unsequenced_policy, false>(); }
SCENARIO(policy_par_over_join) { policy_scenario<void, unifex::parallel_policy, true>(); }
SCENARIO(policy_par_over_seq) { policy_scenario<unifex::sequenced_policy, unifex::parallel_policy, false>(); }

RT_MAIN()
