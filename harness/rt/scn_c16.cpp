// scn_c16.cpp — C16 scenarios on the REAL events (C++17 build):
//   v1_*   unifex::v1::async_manual_reset_event   (source/async_manual_reset_event_v1.cpp)
//   ar_*   unifex::async_auto_reset_event          (source/async_auto_reset_event.cpp, on top of v1)
//   v2_*   unifex::v2::async_manual_reset_event    (source/async_manual_reset_event_v2.cpp,
//          atomic_intrusive_list.cpp, cancellable.hpp)
// Each scenario mirrors the configuration of the same name in lean/UnifexModel/Proto/EventV1.lean:
// T0 = scenario body (spawns, joins), waiter k = T(k+1), controller j = T(nW+1+j).
#include "c16_common.hpp"

#include <unifex/v1/async_manual_reset_event.hpp>
#include <unifex/async_auto_reset_event.hpp>
#include <unifex/v2/async_manual_reset_event.hpp>
#include <unifex/inplace_stop_token.hpp>

#include <cstdlib>
#include <optional>

namespace {
using c16::Clock; using c16::Ctx; using c16::Sched; using c16::Span;

// =============================================================================== v1 event
struct V1World;
struct V1Recv {
  V1World* w; int i;
  void set_value() && noexcept;
  template <typename E> void set_error(E&&) && noexcept { rt::fail("v1 waiter %d completed with set_error", i); }
  void set_done() && noexcept { rt::fail("v1 waiter %d completed with set_done (sends_done is false)", i); }
  friend Sched tag_invoke(unifex::tag_t<unifex::get_scheduler>, const V1Recv& r) noexcept;
};

struct V1World {
  static constexpr int MAXW = 3;
  unifex::v1::async_manual_reset_event evt;
  c16::SetLog log;
  Ctx ctx[MAXW];
  using Op = decltype(unifex::connect(std::declval<unifex::v1::async_manual_reset_event&>().async_wait(), std::declval<V1Recv>()));
  c16::Slot<Op> op[MAXW];
  int done_count[MAXW] = {0, 0, 0};
  Span wait_span[MAXW];

  explicit V1World(bool startSet = false) : evt(startSet) {
    log.start_set = startSet;
    for (int i = 0; i < MAXW; ++i) { ctx[i].id = i; ctx[i].deferred = false; }
  }

  // ---- waiter thread
  void wait(int i) {
    rt::obs("wait%d.begin", i);
    wait_span[i].b = log.clk.tick();
    Op& o = op[i].make([&] { return unifex::connect(evt.async_wait(), V1Recv{this, i}); });
    unifex::start(o);
    wait_span[i].e = log.clk.tick();
    rt::obs("wait%d.end", i);
  }
  // ---- controller calls
  void set() {
    rt::obs("set.begin");
    size_t k = log.begin_set();
    evt.set();
    log.end_set(k);
    rt::obs("set.end");
  }
  void reset() {
    rt::obs("reset.begin");
    size_t k = log.begin_reset();
    evt.reset();
    log.end_reset(k);
    rt::obs("reset.end");
  }
  void ready() {
    rt::obs("ready.begin");
    long b = log.clk.tick();
    bool r = evt.ready();
    long e = log.clk.tick();
    if (r && !log.maybe_set(e)) rt::fail("ready() returned true although no set() had begun");
    if (!r && log.surely_set(b, e)) rt::fail("ready() returned false although the event was set throughout the call");
    rt::obs("ready.end %d", r ? 1 : 0);
  }
  // ---- at quiescence
  void finish(int nw) {
    for (int i = 0; i < nw; ++i) {
      if (wait_span[i].e < 0) continue;
      bool must = log.surely_set(wait_span[i].b, wait_span[i].e) || log.set_began_after(wait_span[i].e);
      if (must && done_count[i] == 0)
        rt::fail("stranded waiter: wait%d started before a set() (or while set) and was never resumed", i);
      // a manual-reset event that is set has no queue: whoever started must have been resumed
      if (evt.ready() && done_count[i] == 0)
        rt::fail("stranded waiter: the event is set at quiescence but wait%d was never resumed", i);
    }
  }
};

void V1Recv::set_value() && noexcept {
  V1World* ww = w; int ii = i;
  if (++ww->done_count[ii] > 1) rt::fail("waiter %d resumed twice", ii);
  if (!ww->log.maybe_set(ww->log.clk.tick())) rt::fail("waiter %d resumed although the event was never set", ii);
  if (ww->ctx[ii].running == 0) rt::fail("waiter %d completed outside its own scheduler", ii);
  rt::obs("done%d", ii);
  rt::point("in-completion");
}
Sched tag_invoke(unifex::tag_t<unifex::get_scheduler>, const V1Recv& r) noexcept { return Sched{&r.w->ctx[r.i]}; }

// =============================================================================== auto-reset event
// Mirrors lean/UnifexModel/Proto/AutoReset.lean: T0 = controller 0, consumer k = T(k+1),
// controller j>0 = T(nC+j).  The consumers' receivers use a DEFERRED scheduler driven by the
// consumer thread itself (the header warns against inline schedulers) and an inplace_stop_token.
struct ARWorld;
struct ARRecv {
  ARWorld* w; int k;
  void set_value() && noexcept;
  void set_done() && noexcept;
  template <typename E> void set_error(E&&) && noexcept { rt::fail("next%d completed with set_error", k); }
  friend Sched tag_invoke(unifex::tag_t<unifex::get_scheduler>, const ARRecv& r) noexcept;
  friend unifex::inplace_stop_token tag_invoke(unifex::tag_t<unifex::get_stop_token>, const ARRecv& r) noexcept;
};

struct ARWorld {
  static constexpr int MAXC = 2;
  unifex::async_auto_reset_event evt;
  bool start_ready;
  int ncons;
  Clock clk;
  Ctx ctx[MAXC];
  unifex::inplace_stop_source src[MAXC];
  using NextSender = decltype(std::declval<unifex::async_auto_reset_event&>().stream().next());
  using Op = unifex::connect_result_t<NextSender, ARRecv>;
  c16::Slot<Op> op[MAXC];
  int completions[MAXC] = {0, 0};        // of the current next() call
  bool last_done[MAXC] = {false, false};
  long next_begin[MAXC] = {-1, -1};
  int values = 0, sets_begun = 0;
  long first_done_returned = -1;          // a set_done() call has returned at this time
  long done_established = -1;             // from this time on the event is DONE (or becomes DONE before any wait)
  std::vector<long> set_begins;
  bool done_begun = false;                // a set_done()/request_stop() call has begun

  ARWorld(int nc, bool startReady = false) : evt(startReady), start_ready(startReady), ncons(nc) {
    for (int i = 0; i < MAXC; ++i) { ctx[i].id = i; ctx[i].deferred = true; }
  }

  void consumer(int k, int ncalls) {
    for (int c = 0; c < ncalls && !last_done[k]; ++c) {
      rt::obs("next%d.begin", k);
      completions[k] = 0;
      next_begin[k] = clk.tick();
      Op& o = op[k].make([&] { return unifex::connect(evt.stream().next(), ARRecv{this, k}); });
      unifex::start(o);
      ctx[k].drive_until([&] { return completions[k] > 0; });   // the consumer drives its own scheduler
      op[k].destroy();
    }
  }
  void completed(int k, bool value) {
    if (++completions[k] > 1) rt::fail("next%d completed twice", k);
    if (ctx[k].running == 0) rt::fail("next%d completed outside the consumer's scheduler", k);
    if (value) {
      if (++values > sets_begun + (start_ready ? 1 : 0))
        rt::fail("%d next() calls obtained a value from %d set() calls: a set() was handed to two next()", values, sets_begun + (start_ready ? 1 : 0));
      if (first_done_returned >= 0 && next_begin[k] > first_done_returned)
        rt::fail("next%d started after set_done()/cancellation returned and still obtained a value", k);
      // DONE is permanent: values can only come from set() calls that began before the event became DONE
      if (done_established >= 0) {
        int sources = start_ready ? 1 : 0;
        for (long b : set_begins) if (b < done_established) ++sources;
        if (values > sources)
          rt::fail("next%d obtained a value from a set() that began after the event had become DONE", k);
      }
    } else {
      if (ncons == 1 && !done_begun) rt::fail("next%d completed with done although the event never became DONE", k);
    }
    last_done[k] = !value;
    rt::obs(value ? "next%d.value" : "next%d.done", k);
    rt::point("in-completion");
  }
  void set() {
    rt::obs("set.begin"); ++sets_begun; set_begins.push_back(clk.tick());
    evt.set();
    rt::obs("set.end");
  }
  void set_done() {
    rt::obs("setdone.begin"); done_begun = true; clk.tick();
    evt.set_done();
    if (first_done_returned < 0) first_done_returned = clk.tick();
    if (done_established < 0) done_established = first_done_returned;
    rt::obs("setdone.end");
  }
  void stop(int k) {
    rt::obs("stop%d.begin", k); done_begun = true; clk.tick();
    // a next() of this consumer is in flight: its stop callback is registered (then request_stop runs
    // set_done before returning) or will be (then set_done runs inline at registration, before the wait)
    bool in_flight = next_begin[k] >= 0 && completions[k] == 0;
    src[k].request_stop();
    if (in_flight && done_established < 0) done_established = clk.tick();
    // (a stop request turns the event DONE only if the callback was registered at that moment or
    //  gets registered later; it does not by itself bound later next() calls of other consumers)
    rt::obs("stop%d.end", k);
  }
};
void ARRecv::set_value() && noexcept { w->completed(k, true); }
void ARRecv::set_done() && noexcept { w->completed(k, false); }
Sched tag_invoke(unifex::tag_t<unifex::get_scheduler>, const ARRecv& r) noexcept { return Sched{&r.w->ctx[r.k]}; }
unifex::inplace_stop_token tag_invoke(unifex::tag_t<unifex::get_stop_token>, const ARRecv& r) noexcept { return r.w->src[r.k].get_token(); }

// =============================================================================== v2 event
// Mirrors lean/UnifexModel/Proto/EventV2.lean: controller 0 = T0, waiter k = T(k+1),
// controller j>0 = T(nW+j).  Deferred scheduler driven by the waiter's own thread.
struct V2World;
Sched sched_of(V2World* w, int k) noexcept;
unifex::inplace_stop_token token_of(V2World* w, int k) noexcept;
template <bool Stoppable>
struct V2Recv {
  V2World* w; int k;
  void set_value() && noexcept;
  void set_done() && noexcept;
  template <typename E> void set_error(E&&) && noexcept { rt::fail("v2 waiter %d completed with set_error", k); }
  friend Sched tag_invoke(unifex::tag_t<unifex::get_scheduler>, const V2Recv& r) noexcept { return sched_of(r.w, r.k); }
  template <bool S = Stoppable, std::enable_if_t<S, int> = 0>
  friend unifex::inplace_stop_token tag_invoke(unifex::tag_t<unifex::get_stop_token>, const V2Recv& r) noexcept { return token_of(r.w, r.k); }
};

struct V2World {
  static constexpr int MAXW = 2;
  unifex::v2::async_manual_reset_event evt;
  c16::SetLog log;
  Ctx ctx[MAXW];
  unifex::inplace_stop_source src[MAXW];
  using OpP = decltype(unifex::connect(std::declval<unifex::v2::async_manual_reset_event&>().async_wait(), std::declval<V2Recv<false>>()));
  using OpS = decltype(unifex::connect(std::declval<unifex::v2::async_manual_reset_event&>().async_wait(), std::declval<V2Recv<true>>()));
  c16::Slot<OpP> opp[MAXW];
  c16::Slot<OpS> ops[MAXW];
  int owner[MAXW] = {-1, -1};
  int completions[MAXW] = {0, 0};
  bool stop_begun[MAXW] = {false, false};
  Span wait_span[MAXW];

  explicit V2World(bool startSet = false) : evt(startSet) {
    log.start_set = startSet;
    for (int i = 0; i < MAXW; ++i) { ctx[i].id = i; ctx[i].deferred = true; }
  }

  template <bool Stoppable> void wait(int k) {
    owner[k] = rt::self();
    rt::obs("wait%d.begin", k);
    wait_span[k].b = log.clk.tick();
    if constexpr (Stoppable) {
      OpS& o = ops[k].make([&] { return unifex::connect(evt.async_wait(), V2Recv<true>{this, k}); });
      unifex::start(o);
    } else {
      OpP& o = opp[k].make([&] { return unifex::connect(evt.async_wait(), V2Recv<false>{this, k}); });
      unifex::start(o);
    }
    wait_span[k].e = log.clk.tick();
    rt::obs("wait%d.end", k);
    ctx[k].drive_until([&] { return completions[k] > 0; });
  }
  void completed(int k, bool value) {
    if (++completions[k] > 1) rt::fail("v2 waiter %d completed twice", k);
    if (value && !log.maybe_set(log.clk.tick())) rt::fail("v2 waiter %d completed with value although the event was never set", k);
    if (!value && !stop_begun[k]) rt::fail("v2 waiter %d completed with done although stop was never requested", k);
    if (value && (rt::self() != owner[k] || ctx[k].running == 0)) rt::fail("v2 waiter %d completed with value outside its scheduler", k);
    // regression monitor of the repaired defect (tools/checks/c16_repair.patch): set_done of a cancelled
    // wait used to run inline on the thread that called request_stop()
    if (!value && rt::self() != owner[k])
      rt::fail("v2 wait completed with done off the waiter's scheduler thread (is_always_scheduler_affine claimed)");
    else if (!value && ctx[k].running == 0) rt::fail("v2 waiter %d completed with done outside its scheduler", k);
    rt::obs(value ? "value%d" : "done%d", k);
    rt::point("in-completion");
    ctx[k].signal.fetch_add(1, std::memory_order_acq_rel);   // wake the owner if it waits
  }
  void set() { rt::obs("set.begin"); size_t i = log.begin_set(); evt.set(); log.end_set(i); rt::obs("set.end"); }
  void reset() { rt::obs("reset.begin"); size_t i = log.begin_reset(); evt.reset(); log.end_reset(i); rt::obs("reset.end"); }
  void ready() {
    rt::obs("ready.begin");
    long b = log.clk.tick(); bool r = evt.ready(); long e = log.clk.tick();
    if (r && !log.maybe_set(e)) rt::fail("v2 ready() returned true although no set() had begun");
    if (!r && log.surely_set(b, e)) rt::fail("v2 ready() returned false although the event was set throughout the call");
    rt::obs("ready.end %d", r ? 1 : 0);
  }
  void stop(int k) { rt::obs("stop%d.begin", k); stop_begun[k] = true; src[k].request_stop(); rt::obs("stop%d.end", k); }
  void finish(int nw) {
    for (int k = 0; k < nw; ++k) if (completions[k] != 1) rt::fail("v2 waiter %d completed %d times at quiescence", k, completions[k]);
    // opt-in diagnostic for DESIGN §8 #4 (C02's subject, not part of C16's verdict): after the wait
    // operations are destroyed, has every schedule operation they created been destroyed?
    if (getenv("C16_LIFETIME")) {
      for (int k = 0; k < nw; ++k) { opp[k].destroy(); ops[k].destroy(); }
      for (int k = 0; k < nw; ++k)
        if (ctx[k].ops_constructed != ctx[k].ops_destroyed)
          rt::fail("v2 waiter %d: %d schedule operations constructed, %d destroyed (reschedule_op_ is never destructed)", k, ctx[k].ops_constructed, ctx[k].ops_destroyed);
    }
  }
};
template <bool S> void V2Recv<S>::set_value() && noexcept { w->completed(k, true); }
template <bool S> void V2Recv<S>::set_done() && noexcept { w->completed(k, false); }
Sched sched_of(V2World* w, int k) noexcept { return Sched{&w->ctx[k]}; }
unifex::inplace_stop_token token_of(V2World* w, int k) noexcept { return w->src[k].get_token(); }

}  // namespace

SCENARIO(v1_two_waiters) {
  V1World w;
  int t1 = rt::spawn([&] { w.wait(0); });
  int t2 = rt::spawn([&] { w.wait(1); });
  int t3 = rt::spawn([&] { w.set(); });
  rt::join(t1); rt::join(t2); rt::join(t3);
  w.finish(2);
}

SCENARIO(v1_two_setters) {
  V1World w;
  int t1 = rt::spawn([&] { w.wait(0); });
  int t2 = rt::spawn([&] { w.set(); });
  int t3 = rt::spawn([&] { w.set(); });
  rt::join(t1); rt::join(t2); rt::join(t3);
  w.finish(1);
}

SCENARIO(v1_set_reset) {
  V1World w;
  int t1 = rt::spawn([&] { w.wait(0); });
  int t2 = rt::spawn([&] { w.set(); w.reset(); });
  int t3 = rt::spawn([&] { w.ready(); });
  rt::join(t1); rt::join(t2); rt::join(t3);
  w.finish(1);
}

SCENARIO(v1_start_set) {
  V1World w(true);
  int t1 = rt::spawn([&] { w.wait(0); });
  int t2 = rt::spawn([&] { w.reset(); w.set(); });
  rt::join(t1); rt::join(t2);
  w.finish(1);
}

SCENARIO(v1_reset_noop) {   // reset() while a waiter is queued must not drop it
  V1World w;
  int t1 = rt::spawn([&] { w.wait(0); });
  int t2 = rt::spawn([&] { w.reset(); w.set(); });
  rt::join(t1); rt::join(t2);
  w.finish(1);
}

SCENARIO(v1_three_waiters) {
  V1World w;
  int t1 = rt::spawn([&] { w.wait(0); });
  int t2 = rt::spawn([&] { w.wait(1); });
  int t3 = rt::spawn([&] { w.wait(2); });
  int t4 = rt::spawn([&] { w.set(); });
  rt::join(t1); rt::join(t2); rt::join(t3); rt::join(t4);
  w.finish(3);
}

SCENARIO(ar_one_consumer) {
  ARWorld w(1);
  int t1 = rt::spawn([&] { w.consumer(0, 2); });
  int t2 = rt::spawn([&] { w.set(); w.set(); });
  rt::join(t2);
  w.set_done();
  rt::join(t1);
}

SCENARIO(ar_cancel) {
  ARWorld w(1);
  int t1 = rt::spawn([&] { w.consumer(0, 1); });
  int t2 = rt::spawn([&] { w.stop(0); });
  rt::join(t2);
  w.set_done();
  rt::join(t1);
}

SCENARIO(ar_cancel_vs_set) {
  ARWorld w(1);
  int t1 = rt::spawn([&] { w.consumer(0, 1); });
  int t2 = rt::spawn([&] { w.set(); });
  int t3 = rt::spawn([&] { w.stop(0); });
  rt::join(t2); rt::join(t3);
  w.set_done();
  rt::join(t1);
}

SCENARIO(ar_two_consumers) {
  ARWorld w(2);
  int t1 = rt::spawn([&] { w.consumer(0, 1); });
  int t2 = rt::spawn([&] { w.consumer(1, 1); });
  int t3 = rt::spawn([&] { w.set(); });
  rt::join(t3);
  w.set_done();
  rt::join(t1); rt::join(t2);
}

SCENARIO(ar_start_ready) {
  ARWorld w(1, true);
  int t1 = rt::spawn([&] { w.consumer(0, 2); });
  w.set_done();
  rt::join(t1);
}

SCENARIO(v2_two_waiters) {
  V2World w;
  int t1 = rt::spawn([&] { w.wait<false>(0); });
  int t2 = rt::spawn([&] { w.wait<false>(1); });
  int t3 = rt::spawn([&] { w.set(); });
  rt::join(t1); rt::join(t2); rt::join(t3);
  w.finish(2);
}

SCENARIO(v2_set_reset) {
  V2World w;
  int t1 = rt::spawn([&] { w.wait<false>(0); });
  int t2 = rt::spawn([&] { w.set(); w.reset(); });
  int t3 = rt::spawn([&] { w.ready(); });
  rt::join(t2); rt::join(t3);
  w.set();
  rt::join(t1);
  w.finish(1);
}

SCENARIO(v2_cancel) {
  V2World w;
  int t1 = rt::spawn([&] { w.wait<true>(0); });
  int t2 = rt::spawn([&] { w.stop(0); });
  rt::join(t2);
  w.set();
  rt::join(t1);
  w.finish(1);
}

SCENARIO(v2_cancel_vs_set) {
  V2World w;
  int t1 = rt::spawn([&] { w.wait<true>(0); });
  int t2 = rt::spawn([&] { w.stop(0); });
  int t3 = rt::spawn([&] { w.set(); });
  rt::join(t1); rt::join(t2); rt::join(t3);
  w.finish(1);
}

// The event is constructed signalled and never reset: every ready() must answer true, also while a
// late wait (push_front_unless_latched) or a redundant set() holds the head link's spinlock.
SCENARIO(v2_ready_busy) {
  V2World w(true);
  int t1 = rt::spawn([&] { w.wait<false>(0); });
  int t2 = rt::spawn([&] { w.ready(); w.ready(); });
  int t3 = rt::spawn([&] { w.set(); });
  rt::join(t1); rt::join(t2); rt::join(t3);
  w.finish(1);
}

RT_MAIN()
