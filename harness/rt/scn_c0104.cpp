// scn_c0104.cpp — C01/C04 (schedule level): the REAL when_all, when_all_range and stop_when under the
// controlled scheduler.  Children are manual leaf senders; T1..Tn complete them with value/error/done
// (thread T(i+1) completes leaf i), T(n+1) requests stop on the root receiver's stop source.
// Each scenario mirrors the configuration of the same name in lean/UnifexModel/Proto/WhenAll.lean
// (wa*/war*) or Proto/StopWhen.lean (sw*): same thread numbering, same observable events:
//   T<k> leaf<i>.complete value|error|done    the completer won the claim on leaf i (before it calls in)
//   T<k> leaf<i>.stop                         leaf i's stop callback runs ("stop reached leaf i")
//   T<k> root.value | root.error <i> | root.done   the root receiver is signalled
//   T<k> stop.begin / stop.end                around request_stop() on the root receiver's source
// Monitors (rt::fail) are independent of the Lean model.
#include "rt_main.hpp"

#include <unifex/inplace_stop_token.hpp>
#include <unifex/receiver_concepts.hpp>
#include <unifex/sender_concepts.hpp>
#include <unifex/stop_when.hpp>
#include <unifex/when_all.hpp>
#include <unifex/when_all_range.hpp>

#include <atomic>
#include <cstring>
#include <exception>
#include <functional>
#include <new>
#include <optional>
#include <tuple>
#include <variant>
#include <vector>

namespace {

enum Outc { NONE = -1, VAL = 0, ERR = 1, DONE = 2 };
const char* outc_name(int o) { return o == VAL ? "value" : o == ERR ? "error" : "done"; }

constexpr int MAXN = 3;
constexpr size_t STORAGE = 4096;

// the World of the running scenario (the token/receiver keep no pointer of their own in the operation
// state, so that monitors stay meaningful after the operation state has been destroyed and poisoned)
struct World;
World* g_w = nullptr;

// Park the calling thread for good after a fatal monitor failure (continuing would execute library code
// on destroyed memory): a spin on a location nobody writes is detected by the scheduler, the execution
// ends as "deadlock" with the monitor message attached.
std::atomic<int> g_never{0};
[[noreturn]] void halt_thread() { for (;;) { while (g_never.load() == 0) {} } }

struct LeafBase {
  virtual void complete(int outc) noexcept = 0;
  virtual bool token_stop_requested() const noexcept = 0;
protected:
  ~LeafBase() = default;
};

struct World {
  int n = 0;
  int outs[MAXN] = {NONE, NONE, NONE};     // what T(i+1) completes leaf i with
  bool inl[MAXN] = {false, false, false};  // leaf i completes with done from inside its stop callback
  bool ext_stop = false;
  bool strict_regs = true;   // the composite must have destroyed its stop callback before signalling (when_all*)

  // leaves
  LeafBase* leaf[MAXN] = {nullptr, nullptr, nullptr};
  std::atomic<bool> claimed[MAXN];
  bool started[MAXN] = {false, false, false};
  bool notified[MAXN] = {false, false, false};    // "stop reached leaf i"
  bool completing[MAXN] = {false, false, false};  // the completion call into the composite has begun
  int how[MAXN] = {NONE, NONE, NONE};
  int fail_claims = 0;                            // error/done completions claimed so far
  bool claimed_plain[MAXN] = {false, false, false};  // shadow of `claimed` readable without a scheduling point
  bool every_completion_stops = false;            // stop_when: any completion of one child stops the other

  // root
  unifex::inplace_stop_source root_src;
  int root_regs = 0;            // live stop-callback objects registered on the root token
  int root_cb_running_on = -1;  // thread executing the composite's stop callback
  int root_cb_runs = 0;
  int root_signals = 0;
  int root_kind = NONE;
  int root_err = -1;
  std::vector<int> root_values;

  // operation state storage
  alignas(64) unsigned char storage[STORAGE];
  size_t op_size = 0;
  bool op_destroyed = false;
  std::function<void()> destroy_op;

  World() { for (auto& c : claimed) c.store(false); std::memset(storage, 0x5A, sizeof storage); }

  // ---- called by the root receiver
  void root_complete(int kind, int err) {
    int me = rt::self();
    if (++root_signals > 1) { rt::fail("root receiver signalled %d times", root_signals); halt_thread(); }
    root_kind = kind; root_err = err;
    for (int i = 0; i < n; ++i)
      if (!completing[i]) rt::fail("root receiver signalled before child %d completed", i);
    // C04: completion never outlives the callback registered on the receiver's token
    if (root_cb_running_on >= 0 && root_cb_running_on != me)
      rt::fail("root receiver signalled on T%d while the composite's stop callback runs on T%d", me, root_cb_running_on);
    if (root_regs != 0 && (strict_regs || root_cb_running_on != me))
      rt::fail("root receiver signalled while %d stop callback(s) of the composite are still registered on its token", root_regs);
    if (kind == ERR) rt::obs("root.error %d%s", err, root_regs ? " cb-alive" : "");
    else rt::obs("root.%s%s", outc_name(kind), root_regs ? " cb-alive" : "");
    rt::point("root-completion");
    // the receiver owns the operation state: it is destroyed as soon as the operation completes
    if (destroy_op) { destroy_op(); destroy_op = nullptr; }
    std::memset(storage, 0xA5, sizeof storage);
    op_destroyed = true;
  }

  void finish() {
    if (root_signals != 1) rt::fail("root receiver signalled %d times at quiescence (all children completed: %s)", root_signals, all_completing() ? "yes" : "no");
    if (op_destroyed) {
      for (size_t i = 0; i < sizeof storage; ++i)
        if (storage[i] != 0xA5) { rt::fail("operation state storage written after it was destroyed (offset %zu)", i); break; }
    } else if (destroy_op) {
      destroy_op();
    }
  }
  bool all_completing() const { for (int i = 0; i < n; ++i) if (!completing[i]) return false; return true; }
};

// ------------------------------------------------------------------ the root receiver's stop token
template <typename F> struct CountingCallback;

struct CountingToken {
  template <typename F> using callback_type = CountingCallback<F>;
  bool stop_requested() const noexcept { return g_w->root_src.stop_requested(); }
  bool stop_possible() const noexcept { return true; }
};

template <typename F>
struct CountingCallback {
  struct Thunk {
    CountingCallback* self;
    void operator()() noexcept {
      World* w = g_w;
      if (w->op_destroyed) {
        rt::fail("composite's stop callback invoked after the operation state was destroyed");
        halt_thread();
      }
      ++w->root_cb_runs;
      w->root_cb_running_on = rt::self();
      self->f();                       // may destroy *self (deliver_result from inside the callback)
      w->root_cb_running_on = -1;
    }
  };
  using Inner = unifex::inplace_stop_callback<Thunk>;
  F f;
  alignas(Inner) unsigned char inner[sizeof(Inner)];

  template <typename F2>
  CountingCallback(CountingToken, F2&& f2) : f((F2&&)f2) {
    ++g_w->root_regs;
    ::new (static_cast<void*>(inner)) Inner(g_w->root_src.get_token(), Thunk{this});
  }
  CountingCallback(const CountingCallback&) = delete;
  ~CountingCallback() {
    World* w = g_w;
    if (w->op_destroyed) {
      rt::fail("composite destructs its stop callback after the operation state was destroyed (receiver already signalled)");
      halt_thread();
    }
    reinterpret_cast<Inner*>(inner)->~Inner();   // the real deregistration (may wait for a running callback)
    --w->root_regs;
    if (w->op_destroyed && w->root_cb_running_on != rt::self()) {
      // somebody else signalled the receiver while this thread was waiting inside the deregistration
      rt::fail("operation state destroyed (receiver signalled by another thread) while the elected completer was still deregistering the stop callback");
      halt_thread();
    }
  }
};

struct RootReceiver {
  World* w;

  static int as_int(int v) { return v; }
  template <typename... Ts> static int as_int(const std::variant<std::tuple<Ts...>>& v) { return std::get<0>(std::get<0>(v)); }

  template <typename... Vs>
  void set_value(Vs&&... vs) && noexcept {
    World* ww = g_w;
    std::vector<int> got;
    (collect(got, vs), ...);
    ww->root_values = got;
    ww->root_complete(VAL, -1);
  }
  template <typename E>
  void set_error(E&& e) && noexcept {
    World* ww = g_w;
    int code = -1;
    if constexpr (std::is_same_v<std::decay_t<E>, int>) code = e;
    ww->root_complete(ERR, code);
  }
  void set_done() && noexcept { World* ww = g_w; ww->root_complete(DONE, -1); }

  friend CountingToken tag_invoke(unifex::tag_t<unifex::get_stop_token>, const RootReceiver&) noexcept { return CountingToken{}; }

private:
  static void collect(std::vector<int>& out, int v) { out.push_back(v); }
  static void collect(std::vector<int>& out, const std::vector<int>& v) { out.insert(out.end(), v.begin(), v.end()); }
  template <typename... Ts> static void collect(std::vector<int>& out, const std::variant<std::tuple<Ts...>>& v) { out.push_back(std::get<0>(std::get<0>(v))); }
};

// ------------------------------------------------------------------ leaves
template <bool VoidValue, typename Receiver>
struct LeafOp final : LeafBase {
  struct Cb { LeafOp* op; void operator()() noexcept { op->on_stop(); } };
  using token_t = unifex::stop_token_type_t<Receiver>;
  World* w; int i; Receiver r;
  std::optional<typename token_t::template callback_type<Cb>> cb;

  LeafOp(World* w_, int i_, Receiver&& r_) : w(w_), i(i_), r((Receiver&&)r_) {}
  LeafOp(LeafOp&&) = delete;

  void start() noexcept {
    w->leaf[i] = this; w->started[i] = true;
    cb.emplace(unifex::get_stop_token(r), Cb{this});
  }
  void on_stop() noexcept {
    World* ww = w; int ii = i;
    if (ww->completing[ii]) rt::fail("stop callback of leaf %d invoked after the leaf completed", ii);
    ww->notified[ii] = true;
    rt::obs("leaf%d.stop", ii);
    rt::point("leaf-stop-callback");
    if (ww->inl[ii] && !ww->claimed[ii].exchange(true)) {
      ww->claimed_plain[ii] = true;
      rt::obs("leaf%d.complete done", ii);
      ++ww->fail_claims;
      complete(DONE);
    }
  }
  void complete(int outc) noexcept override {
    World* ww = w; int ii = i;
    cb.reset();                 // a leaf deregisters its stop callback before it completes
    ww->completing[ii] = true; ww->how[ii] = outc;
    switch (outc) {
      case VAL:
        if constexpr (VoidValue) unifex::set_value(std::move(r)); else unifex::set_value(std::move(r), 10 * (ii + 1));
        break;
      case ERR: unifex::set_error(std::move(r), int(ii)); break;
      default: unifex::set_done(std::move(r)); break;
    }
  }
  // uninstrumented read (no scheduling point): used by monitors only
  __attribute__((no_sanitize("thread"))) bool token_stop_requested() const noexcept override {
    return unifex::get_stop_token(r).stop_requested();
  }
};

template <bool VoidValue>
struct LeafSender {
  World* w; int i;
  template <template <typename...> class Variant, template <typename...> class Tuple>
  using value_types = std::conditional_t<VoidValue, Variant<Tuple<>>, Variant<Tuple<int>>>;
  template <template <typename...> class Variant> using error_types = Variant<int, std::exception_ptr>;
  static constexpr bool sends_done = true;

  template <typename R>
  friend LeafOp<VoidValue, unifex::remove_cvref_t<R>> tag_invoke(unifex::tag_t<unifex::connect>, LeafSender s, R&& r) noexcept {
    return LeafOp<VoidValue, unifex::remove_cvref_t<R>>{s.w, s.i, unifex::remove_cvref_t<R>((R&&)r)};
  }
};
using Leaf = LeafSender<false>;
using VoidLeaf = LeafSender<true>;

// ------------------------------------------------------------------ threads
// C04 "losers are stopped" / "stop reaches running children": every leaf that is still running must see
// stop_requested() on the token the composite gave it
void check_running_leaves_see_stop(World& w, const char* after) {
  for (int j = 0; j < w.n; ++j)
    if (w.started[j] && !w.claimed_plain[j] && !w.leaf[j]->token_stop_requested())
      rt::fail("leaf %d is still running and does not see a stop request after %s", j, after);
}

void completer(World& w, int i) {
  if (w.outs[i] == NONE) return;
  if (w.claimed[i].exchange(true)) return;   // the leaf already completed from inside its stop callback
  w.claimed_plain[i] = true;
  int outc = w.outs[i];
  rt::obs("leaf%d.complete %s", i, outc_name(outc));
  if (outc != VAL) ++w.fail_claims;
  w.leaf[i]->complete(outc);
  // when_all: this was the only failure so far, so it won the doneOrError_ exchange and has requested
  // stop before returning; stop_when: every completion of source/trigger stops the other one
  if (w.every_completion_stops || (outc != VAL && w.fail_claims == 1))
    check_running_leaves_see_stop(w, "a sibling's completion returned");
}

void stopper(World& w) {
  rt::obs("stop.begin");
  w.root_src.request_stop();
  check_running_leaves_see_stop(w, "request_stop() on the receiver's source returned");
  rt::obs("stop.end");
}

// connect in poisoned storage, start on T0, then run the completers and the stop thread
template <typename Sender>
void run(World& w, Sender&& snd) {
  g_w = &w;
  using Op = unifex::connect_result_t<Sender, RootReceiver>;
  static_assert(sizeof(Op) <= STORAGE, "enlarge STORAGE");
  Op* op = ::new (static_cast<void*>(w.storage)) Op(unifex::connect((Sender&&)snd, RootReceiver{&w}));
  w.op_size = sizeof(Op);
  w.destroy_op = [op] { op->~Op(); };
  unifex::start(*op);
  for (int i = 0; i < w.n; ++i) if (!w.started[i]) rt::fail("leaf %d not started by start()", i);
  int tids[MAXN + 1]; int nt = 0;
  for (int i = 0; i < w.n; ++i) tids[nt++] = rt::spawn([&w, i] { completer(w, i); });
  if (w.ext_stop) tids[nt++] = rt::spawn([&w] { stopper(w); });
  for (int k = 0; k < nt; ++k) rt::join(tids[k]);
  w.finish();
}

void expect_values(World& w, std::vector<int> v) {
  if (w.root_kind == VAL && w.root_values != v) rt::fail("root value payload differs from what the leaves sent");
}

}  // namespace

// ---------------------------------------------------------------- when_all (Proto/WhenAll.lean)
SCENARIO(wa2_stop) {
  World w; w.n = 2; w.outs[0] = VAL; w.outs[1] = VAL; w.ext_stop = true;
  run(w, unifex::when_all(Leaf{&w, 0}, Leaf{&w, 1}));
  expect_values(w, {10, 20});
}
SCENARIO(wa2_err_stop) {
  World w; w.n = 2; w.outs[0] = ERR; w.outs[1] = VAL; w.ext_stop = true;
  run(w, unifex::when_all(Leaf{&w, 0}, Leaf{&w, 1}));
}
SCENARIO(wa2_done_inl) {
  World w; w.n = 2; w.outs[0] = DONE; w.inl[1] = true;
  run(w, unifex::when_all(Leaf{&w, 0}, Leaf{&w, 1}));
}
SCENARIO(wa2_err_inl) {
  World w; w.n = 2; w.outs[0] = ERR; w.inl[1] = true;
  run(w, unifex::when_all(Leaf{&w, 0}, Leaf{&w, 1}));
}
SCENARIO(wa2_stop_inl) {
  World w; w.n = 2; w.inl[0] = true; w.inl[1] = true; w.ext_stop = true;
  run(w, unifex::when_all(Leaf{&w, 0}, Leaf{&w, 1}));
}
SCENARIO(wa3_fail) {
  World w; w.n = 3; w.outs[0] = ERR; w.outs[1] = DONE; w.outs[2] = VAL;
  run(w, unifex::when_all(Leaf{&w, 0}, Leaf{&w, 1}, Leaf{&w, 2}));
}
SCENARIO(wa3_mix) {
  World w; w.n = 3; w.outs[0] = VAL; w.outs[1] = ERR; w.inl[2] = true; w.ext_stop = true;
  run(w, unifex::when_all(Leaf{&w, 0}, Leaf{&w, 1}, Leaf{&w, 2}));
}

SCENARIO(wa1_stop) {
  World w; w.n = 1; w.outs[0] = VAL; w.ext_stop = true;
  run(w, unifex::when_all(Leaf{&w, 0}));
  expect_values(w, {10});
}
SCENARIO(wa2_race) {
  World w; w.n = 2; w.outs[0] = VAL; w.outs[1] = VAL;
  run(w, unifex::when_all(Leaf{&w, 0}, Leaf{&w, 1}));
  expect_values(w, {10, 20});
}
SCENARIO(wa2_valinl_stop) {
  World w; w.n = 2; w.outs[0] = VAL; w.inl[1] = true; w.ext_stop = true;
  run(w, unifex::when_all(Leaf{&w, 0}, Leaf{&w, 1}));
}
SCENARIO(wa2_errinl_stop) {
  World w; w.n = 2; w.outs[0] = ERR; w.inl[1] = true; w.ext_stop = true;
  run(w, unifex::when_all(Leaf{&w, 0}, Leaf{&w, 1}));
}
SCENARIO(wa3_fail_inl) {
  World w; w.n = 3; w.outs[0] = ERR; w.outs[1] = DONE; w.inl[2] = true;
  run(w, unifex::when_all(Leaf{&w, 0}, Leaf{&w, 1}, Leaf{&w, 2}));
}
SCENARIO(wa3_stop_inl) {
  World w; w.n = 3; w.outs[0] = VAL; w.inl[1] = true; w.inl[2] = true; w.ext_stop = true;
  run(w, unifex::when_all(Leaf{&w, 0}, Leaf{&w, 1}, Leaf{&w, 2}));
}

// ---------------------------------------------------------------- when_all_range
SCENARIO(war2_stop) {
  World w; w.n = 2; w.outs[0] = VAL; w.outs[1] = VAL; w.ext_stop = true;
  std::vector<Leaf> v{Leaf{&w, 0}, Leaf{&w, 1}};
  run(w, unifex::when_all_range(std::move(v)));
  expect_values(w, {10, 20});
}
SCENARIO(war3_mix) {
  World w; w.n = 3; w.outs[0] = VAL; w.outs[1] = ERR; w.inl[2] = true; w.ext_stop = true;
  std::vector<Leaf> v{Leaf{&w, 0}, Leaf{&w, 1}, Leaf{&w, 2}};
  run(w, unifex::when_all_range(std::move(v)));
}

// ---------------------------------------------------------------- stop_when (Proto/StopWhen.lean)
// child 0 = source, child 1 = trigger.  The cancel_callback path signals the receiver while the callback
// object is still alive (dequeued, executing on the signalling thread): shown as "cb-alive" in the history
// and predicted by the model; a registration that is still pending, or a callback running on another
// thread, is a monitor failure.
static void sw_world(World& w) { w.n = 2; w.strict_regs = false; w.every_completion_stops = true; }

SCENARIO(sw_stop) {
  World w; sw_world(w); w.outs[0] = VAL; w.outs[1] = VAL; w.ext_stop = true;
  run(w, unifex::stop_when(Leaf{&w, 0}, VoidLeaf{&w, 1}));
  expect_values(w, {10});
}
SCENARIO(sw_trigger) {
  World w; sw_world(w); w.inl[0] = true; w.outs[1] = VAL;
  run(w, unifex::stop_when(Leaf{&w, 0}, VoidLeaf{&w, 1}));
}
SCENARIO(sw_src_err) {
  World w; sw_world(w); w.outs[0] = ERR; w.inl[1] = true;
  run(w, unifex::stop_when(Leaf{&w, 0}, VoidLeaf{&w, 1}));
}
SCENARIO(sw_stop_inl) {
  World w; sw_world(w); w.inl[0] = true; w.inl[1] = true; w.ext_stop = true;
  run(w, unifex::stop_when(Leaf{&w, 0}, VoidLeaf{&w, 1}));
}
SCENARIO(sw_mix) {
  World w; sw_world(w); w.outs[0] = VAL; w.inl[1] = true; w.ext_stop = true;
  run(w, unifex::stop_when(Leaf{&w, 0}, VoidLeaf{&w, 1}));
  expect_values(w, {10});
}

SCENARIO(sw_race) {
  World w; sw_world(w); w.outs[0] = VAL; w.outs[1] = VAL;
  run(w, unifex::stop_when(Leaf{&w, 0}, VoidLeaf{&w, 1}));
  expect_values(w, {10});
}
SCENARIO(sw_trg_stop) {
  World w; sw_world(w); w.inl[0] = true; w.outs[1] = VAL; w.ext_stop = true;
  run(w, unifex::stop_when(Leaf{&w, 0}, VoidLeaf{&w, 1}));
}

RT_MAIN()
