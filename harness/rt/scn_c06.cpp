// scn_c06.cpp — C06 scenarios on the REAL execution contexts under the controlled scheduler:
// manual_event_loop, single_thread_context, static_thread_pool, new_thread_context and a direct
// (header-only) test of atomic_intrusive_queue.  Each scenario mirrors the Lean configuration of the
// same name (Proto/EventLoop, Proto/ThreadPool, Proto/NewThread, Proto/AtomicQueue): same thread
// numbering (T0 = scenario body, then threads in creation order — threads created by the contexts
// themselves are adopted by the runtime in creation order too).
//
// Property monitors (independent of the Lean models): an item completing twice; an item accepted
// before the stop that never completed at quiescence; FIFO violation on the single-threaded loops
// (b's enqueue began after a's enqueue had returned, yet b completed first); completion on a
// thread that does not belong to the context; value although request_stop() had returned before
// the item was even enqueued / done without any stop request; a context destructor returning while
// a thread of the context is still running, or a completion after the destructor returned.
#include "rt_main.hpp"

#include <unifex/inplace_stop_token.hpp>
#include <unifex/manual_event_loop.hpp>
#include <unifex/manual_lifetime.hpp>
#include <unifex/new_thread_context.hpp>
#include <unifex/receiver_concepts.hpp>
#include <unifex/scheduler_concepts.hpp>
#include <unifex/sender_concepts.hpp>
#include <unifex/single_thread_context.hpp>
#include <unifex/static_thread_pool.hpp>
#include <unifex/detail/atomic_intrusive_queue.hpp>

#include <atomic>
#include <exception>
#include <set>

namespace {

constexpr int MAXI = 8;

struct World {
  unifex::inplace_stop_source src;     // the stop source whose token every receiver exposes
  int n = 0;
  std::set<int> ctx_threads;           // threads that belong to the context
  bool fifo = true;                    // single-threaded loop: check FIFO
  int completions[MAXI] = {};
  int completed_on[MAXI];
  bool enq_begun[MAXI] = {}, enq_ended[MAXI] = {};
  unsigned pred[MAXI] = {};            // items whose enqueue had returned when this one's began
  bool must_done[MAXI] = {};           // request_stop() had returned before the enqueue began
  bool must_run[MAXI] = {};            // enqueue returned before stop()/destructor began
  bool stop_begun = false, tok_begun = false, tok_ended = false, dtor_ended = false;
  int in_completion = 0;
  std::atomic<bool> done_flag[MAXI] = {};   // set at the end of a completion; wait_ran() spins on it (sync_wait-like)

  void complete(int i, bool done) {
    if (++completions[i] > 1) rt::fail("item%d completed twice", i);
    completed_on[i] = rt::self();
    if (!ctx_threads.count(rt::self())) rt::fail("item%d completed on T%d, not a thread of the context", i, rt::self());
    if (dtor_ended) rt::fail("item%d completed after the context destructor returned", i);
    if (fifo)
      for (int a = 0; a < n; ++a)
        if ((pred[i] >> a & 1) && !completions[a]) rt::fail("FIFO: item%d completed before item%d whose enqueue returned earlier", i, a);
    if (!done && must_done[i]) rt::fail("item%d got set_value although request_stop() returned before it was enqueued", i);
    if (done && !tok_begun) rt::fail("item%d got set_done without a stop request", i);
    ++in_completion;
    rt::obs("item%d.%s", i, done ? "done" : "value");
    rt::point("in-completion");
    --in_completion;
    done_flag[i].store(true);
  }
  // block until item i has completed (the runtime parks the spinning thread)
  void wait_ran(int i) { while (!done_flag[i].load()) {} }
  void enq_begin(int i) {
    enq_begun[i] = true;
    for (int a = 0; a < n; ++a) if (enq_ended[a]) pred[i] |= 1u << a;
    must_done[i] = tok_ended;
    rt::obs("enq%d.begin", i);
  }
  void enq_end(int i) {
    enq_ended[i] = true;
    must_run[i] = !stop_begun;
    rt::obs("enq%d.end", i);
  }
  void tokstop() {
    tok_begun = true;
    rt::obs("tokstop.begin");
    src.request_stop();
    tok_ended = true;
    rt::obs("tokstop.end");
  }
  // at quiescence
  void finish(bool all_must_run) {
    for (int i = 0; i < n; ++i) {
      if (completions[i] == 0 && enq_ended[i] && (all_must_run || must_run[i])) rt::fail("item%d lost: accepted before the stop, never completed", i);
      if (completions[i] > 0 && !enq_begun[i]) rt::fail("item%d completed but was never enqueued", i);
    }
    if (in_completion) rt::fail("a completion is still running at the end");
  }
};

struct Rec {
  World* w; int i;
  void set_value() && noexcept { w->complete(i, false); }
  void set_done() && noexcept { w->complete(i, true); }
  template <class E> void set_error(E&&) && noexcept { rt::fail("item%d: set_error", i); }
  friend unifex::inplace_stop_token tag_invoke(unifex::tag_t<unifex::get_stop_token>, const Rec& r) noexcept { return r.w->src.get_token(); }
};

// operation states of `schedule(sched)` connected to Rec, constructed in place
template <class Sched>
struct Ops {
  using op_t = unifex::connect_result_t<decltype(unifex::schedule(std::declval<Sched&>())), Rec>;
  unifex::manual_lifetime<op_t> op[MAXI];
  bool live[MAXI] = {};
  World& w;
  explicit Ops(World& w) : w(w) {}
  void enq(Sched sched, int i) {
    w.enq_begin(i);
    op[i].construct_with([&] { return unifex::connect(unifex::schedule(sched), Rec{&w, i}); });
    live[i] = true;
    unifex::start(op[i].get());
    w.enq_end(i);
  }
  ~Ops() { for (int i = 0; i < MAXI; ++i) if (live[i]) op[i].destruct(); }
};

// ------------------------------------------------------------------ manual_event_loop
using LoopSched = decltype(std::declval<unifex::manual_event_loop&>().get_scheduler());

struct LoopWorld : World {
  unifex::manual_event_loop loop;
  Ops<LoopSched> ops{*this};
  explicit LoopWorld(int items) { n = items; ctx_threads = {0}; }
  void enq(int i) { ops.enq(loop.get_scheduler(), i); }
  void stop() {
    stop_begun = true;
    rt::obs("stop.begin");
    loop.stop();
    rt::obs("stop.end");
  }
  void run() { loop.run(); rt::obs("run.ret"); if (!stop_begun) rt::fail("run() returned although stop() was never called"); }
};

}  // namespace

// T0 runs run(); producers T1..Tk; the last thread joins the producers, then calls stop().
SCENARIO(loop_1x2) {
  LoopWorld w(2);
  int t1 = rt::spawn([&] { w.enq(0); w.enq(1); });
  int t2 = rt::spawn([&] { rt::join(t1); w.stop(); });
  w.run();
  rt::join(t1); rt::join(t2);
  w.finish(true);
}
SCENARIO(loop_2x1) {
  LoopWorld w(2);
  int t1 = rt::spawn([&] { w.enq(0); });
  int t2 = rt::spawn([&] { w.enq(1); });
  int t3 = rt::spawn([&] { rt::join(t1); rt::join(t2); w.stop(); });
  w.run();
  rt::join(t1); rt::join(t2); rt::join(t3);
  w.finish(true);
}
SCENARIO(loop_2x2) {
  LoopWorld w(4);
  int t1 = rt::spawn([&] { w.enq(0); w.enq(1); });
  int t2 = rt::spawn([&] { w.enq(2); w.enq(3); });
  int t3 = rt::spawn([&] { rt::join(t1); rt::join(t2); w.stop(); });
  w.run();
  rt::join(t1); rt::join(t2); rt::join(t3);
  w.finish(true);
}
SCENARIO(loop_3x1) {
  LoopWorld w(3);
  int t1 = rt::spawn([&] { w.enq(0); });
  int t2 = rt::spawn([&] { w.enq(1); });
  int t3 = rt::spawn([&] { w.enq(2); });
  int t4 = rt::spawn([&] { rt::join(t1); rt::join(t2); rt::join(t3); w.stop(); });
  w.run();
  rt::join(t1); rt::join(t2); rt::join(t3); rt::join(t4);
  w.finish(true);
}
SCENARIO(loop_1x3) {
  LoopWorld w(3);
  int t1 = rt::spawn([&] { w.enq(0); w.enq(1); w.enq(2); });
  int t2 = rt::spawn([&] { rt::join(t1); w.stop(); });
  w.run();
  rt::join(t1); rt::join(t2);
  w.finish(true);
}
// stop() races with the producers: what was accepted before the stop must still run.
SCENARIO(loop_stop_race) {
  LoopWorld w(2);
  int t1 = rt::spawn([&] { w.enq(0); w.enq(1); });
  int t2 = rt::spawn([&] { w.stop(); });
  w.run();
  rt::join(t1); rt::join(t2);
  w.finish(false);
}
SCENARIO(loop_stop_race2) {
  LoopWorld w(2);
  int t1 = rt::spawn([&] { w.enq(0); });
  int t2 = rt::spawn([&] { w.enq(1); });
  int t3 = rt::spawn([&] { w.stop(); });
  w.run();
  rt::join(t1); rt::join(t2); rt::join(t3);
  w.finish(false);
}
// the receivers' stop token is triggered concurrently
SCENARIO(loop_tok) {
  LoopWorld w(2);
  int t1 = rt::spawn([&] { w.enq(0); w.enq(1); });
  int t2 = rt::spawn([&] { w.tokstop(); });
  int t3 = rt::spawn([&] { rt::join(t1); rt::join(t2); w.stop(); });
  w.run();
  rt::join(t1); rt::join(t2); rt::join(t3);
  w.finish(true);
}

// the client waits for every completion before it goes on: a lost wake-up is a deadlock
SCENARIO(loop_wait) {
  LoopWorld w(2);
  int t1 = rt::spawn([&] { w.enq(0); w.wait_ran(0); w.enq(1); w.wait_ran(1); w.stop(); });
  w.run();
  rt::join(t1);
  w.finish(true);
}
SCENARIO(loop_wait2) {
  LoopWorld w(2);
  int t1 = rt::spawn([&] { w.enq(0); w.wait_ran(0); });
  int t2 = rt::spawn([&] { w.enq(1); w.wait_ran(1); });
  int t3 = rt::spawn([&] { rt::join(t1); rt::join(t2); w.stop(); });
  w.run();
  rt::join(t1); rt::join(t2); rt::join(t3);
  w.finish(true);
}

// ------------------------------------------------------------------ single_thread_context
namespace {
struct StcWorld : World {
  Ops<LoopSched> ops{*this};
  explicit StcWorld(int items) { n = items; ctx_threads = {1}; }
};
}  // namespace

SCENARIO(stc) {
  StcWorld w(3);
  {
    unifex::single_thread_context ctx;           // its thread is T1
    auto sched = ctx.get_scheduler();
    int t2 = rt::spawn([&] { w.ops.enq(sched, 1); w.ops.enq(sched, 2); });
    w.ops.enq(sched, 0);
    rt::join(t2);
    w.stop_begun = true;
    rt::obs("dtor.begin");
  }
  w.dtor_ended = true;
  rt::obs("dtor.end");
  if (rt::alive() != 1) rt::fail("~single_thread_context returned while %d other thread(s) still run", rt::alive() - 1);
  w.finish(true);
}
SCENARIO(stc_wait) {
  StcWorld w(2);
  {
    unifex::single_thread_context ctx;
    auto sched = ctx.get_scheduler();
    w.ops.enq(sched, 0); w.wait_ran(0);
    w.ops.enq(sched, 1); w.wait_ran(1);
    w.stop_begun = true;
    rt::obs("dtor.begin");
  }
  w.dtor_ended = true;
  rt::obs("dtor.end");
  if (rt::alive() != 1) rt::fail("~single_thread_context returned while %d other thread(s) still run", rt::alive() - 1);
  w.finish(true);
}
SCENARIO(stc2) {
  StcWorld w(2);
  {
    unifex::single_thread_context ctx;
    auto sched = ctx.get_scheduler();
    int t2 = rt::spawn([&] { w.ops.enq(sched, 0); });
    int t3 = rt::spawn([&] { w.ops.enq(sched, 1); });
    rt::join(t2); rt::join(t3);
    w.stop_begun = true;
    rt::obs("dtor.begin");
  }
  w.dtor_ended = true;
  rt::obs("dtor.end");
  if (rt::alive() != 1) rt::fail("~single_thread_context returned while %d other thread(s) still run", rt::alive() - 1);
  w.finish(true);
}

// ------------------------------------------------------------------ atomic_intrusive_queue (header only)
namespace {
struct Item { Item* next = nullptr; int id = 0; };
using AQ = unifex::atomic_intrusive_queue<Item, &Item::next>;

struct AqWorld {
  AQ q;
  std::atomic<int> wake{0};      // the wake-up channel (an eventfd in the I/O contexts)
  std::atomic<int> direct{0};    // items handled by a producer whose enqueue_or_mark_active returned false
  Item items[MAXI];
  int n, kind;
  bool init_inactive;
  int handled[MAXI] = {};
  bool ended[MAXI] = {};
  unsigned pred[MAXI] = {};
  bool inactive_now;             // monitor: consumer has marked itself inactive, nobody has been told yet
  AqWorld(int n, int kind, bool init_inactive) : q(!init_inactive), n(n), kind(kind), init_inactive(init_inactive), inactive_now(init_inactive) {
    for (int i = 0; i < MAXI; ++i) items[i].id = i;
  }
  void begin(int i) { for (int a = 0; a < n; ++a) if (ended[a]) pred[i] |= 1u << a; }
  void told() {
    if (!inactive_now) rt::fail("a second producer was told that the consumer is inactive (or it was not inactive)");
    inactive_now = false;
  }
  void not_told() {
    // nothing to check here: the consumer may be between the decision and the sentinel store
  }
  void enq(int i) {
    begin(i);
    rt::obs("enq%d.begin", i);
    bool t = q.enqueue(&items[i]);
    if (t) told(); else not_told();
    ended[i] = true;
    rt::obs("enq%d.ret %d", i, t ? 1 : 0);
    if (t) wake.fetch_add(1);
  }
  void eoma(int i) {
    begin(i);
    rt::obs("eoma%d.begin", i);
    bool enqueued = q.enqueue_or_mark_active(&items[i]);
    if (!enqueued) told();
    ended[i] = true;
    rt::obs("eoma%d.ret %d", i, enqueued ? 1 : 0);
    if (!enqueued) {
      if (++handled[i] > 1) rt::fail("item%d handled twice", i);
      direct.fetch_add(1);
      wake.fetch_add(1);
    }
  }
  void receive(unifex::intrusive_queue<Item, &Item::next>& b, int& got) {
    char buf[64]; int k = 0;
    while (!b.empty()) {
      Item* it = b.pop_front();
      if (++handled[it->id] > 1) rt::fail("item%d received twice", it->id);
      for (int a = 0; a < n; ++a)
        if ((pred[it->id] >> a & 1) && !handled[a]) rt::fail("FIFO: item%d received before item%d whose enqueue returned earlier", it->id, a);
      k += snprintf(buf + k, sizeof buf - k, "%s%d", k ? " " : "", it->id);
      ++got;
    }
    rt::obs("c.got %s", buf);
  }
  void sleep() {
    while (wake.load() == 0) {}
    wake.fetch_sub(1);
    rt::obs("c.woken");
  }
  void consumer() {
    int got = 0;
    if (init_inactive) sleep();
    for (;;) {
      if (got + direct.load() >= n) break;
      if (kind == 0) {
        auto b = q.try_mark_inactive_or_dequeue_all();
        if (b.empty()) { inactive_now = true; rt::obs("c.sleep"); sleep(); }
        else receive(b, got);
      } else {
        auto b = q.dequeue_all();
        if (!b.empty()) { receive(b, got); continue; }
        if (q.try_mark_inactive()) { inactive_now = true; rt::obs("c.sleep"); sleep(); }
      }
    }
    rt::obs("c.done");
  }
  void finish() {
    for (int i = 0; i < n; ++i) if (handled[i] != 1) rt::fail("item%d handled %d times at the end", i, handled[i]);
  }
};
}  // namespace

SCENARIO(aq_2x1) {
  AqWorld w(2, 0, false);
  int t1 = rt::spawn([&] { w.enq(0); });
  int t2 = rt::spawn([&] { w.enq(1); });
  w.consumer();
  rt::join(t1); rt::join(t2);
  w.finish();
}
SCENARIO(aq_1x2) {
  AqWorld w(2, 0, false);
  int t1 = rt::spawn([&] { w.enq(0); w.enq(1); });
  w.consumer();
  rt::join(t1);
  w.finish();
}
SCENARIO(aq_dq) {
  AqWorld w(2, 1, false);
  int t1 = rt::spawn([&] { w.enq(0); });
  int t2 = rt::spawn([&] { w.enq(1); });
  w.consumer();
  rt::join(t1); rt::join(t2);
  w.finish();
}
SCENARIO(aq_eoma) {
  AqWorld w(2, 0, true);
  int t1 = rt::spawn([&] { w.eoma(0); });
  int t2 = rt::spawn([&] { w.enq(1); });
  w.consumer();
  rt::join(t1); rt::join(t2);
  w.finish();
}
SCENARIO(aq_2x2) {
  AqWorld w(4, 0, false);
  int t1 = rt::spawn([&] { w.enq(0); w.enq(1); });
  int t2 = rt::spawn([&] { w.enq(2); w.enq(3); });
  w.consumer();
  rt::join(t1); rt::join(t2);
  w.finish();
}

// ------------------------------------------------------------------ static_thread_pool
namespace {
using PoolSched = decltype(std::declval<unifex::static_thread_pool&>().get_scheduler());
struct PoolWorld : World {
  Ops<PoolSched> ops{*this};
  PoolWorld(int items, int k) { n = items; fifo = false; for (int i = 1; i <= k; ++i) ctx_threads.insert(i); }
  void after_dtor() {
    dtor_ended = true;
    rt::obs("dtor.end");
    if (rt::alive() != 1) rt::fail("~static_thread_pool returned while %d other thread(s) still run", rt::alive() - 1);
    finish(true);
  }
};
}  // namespace

SCENARIO(pool_1) {
  PoolWorld w(2, 1);
  {
    unifex::static_thread_pool pool(1);          // T1
    auto sched = pool.get_scheduler();
    w.ops.enq(sched, 0); w.ops.enq(sched, 1);
    w.stop_begun = true;
    rt::obs("dtor.begin");
  }
  w.after_dtor();
}
SCENARIO(pool_1_wait) {
  PoolWorld w(2, 1);
  {
    unifex::static_thread_pool pool(1);
    auto sched = pool.get_scheduler();
    w.ops.enq(sched, 0); w.wait_ran(0);
    w.ops.enq(sched, 1); w.wait_ran(1);
    w.stop_begun = true;
    rt::obs("dtor.begin");
  }
  w.after_dtor();
}
SCENARIO(pool_2_wait) {
  PoolWorld w(2, 2);
  {
    unifex::static_thread_pool pool(2);
    auto sched = pool.get_scheduler();
    w.ops.enq(sched, 0); w.wait_ran(0);
    w.ops.enq(sched, 1); w.wait_ran(1);
    w.stop_begun = true;
    rt::obs("dtor.begin");
  }
  w.after_dtor();
}
// one pool thread, two producers that each wait for their item: reaches the blocking push() path
SCENARIO(pool_1_wait2) {
  PoolWorld w(2, 1);
  {
    unifex::static_thread_pool pool(1);
    auto sched = pool.get_scheduler();
    int t2 = rt::spawn([&] { w.ops.enq(sched, 0); w.wait_ran(0); });
    int t3 = rt::spawn([&] { w.ops.enq(sched, 1); w.wait_ran(1); });
    rt::join(t2); rt::join(t3);
    w.stop_begun = true;
    rt::obs("dtor.begin");
  }
  w.after_dtor();
}
SCENARIO(pool_2a) {
  PoolWorld w(1, 2);
  {
    unifex::static_thread_pool pool(2);          // T1, T2
    auto sched = pool.get_scheduler();
    w.ops.enq(sched, 0);
    w.stop_begun = true;
    rt::obs("dtor.begin");
  }
  w.after_dtor();
}
SCENARIO(pool_2b) {
  PoolWorld w(2, 2);
  {
    unifex::static_thread_pool pool(2);
    auto sched = pool.get_scheduler();
    w.ops.enq(sched, 0); w.ops.enq(sched, 1);
    w.stop_begun = true;
    rt::obs("dtor.begin");
  }
  w.after_dtor();
}
SCENARIO(pool_2c) {
  PoolWorld w(2, 2);
  {
    unifex::static_thread_pool pool(2);
    auto sched = pool.get_scheduler();
    int t3 = rt::spawn([&] { w.ops.enq(sched, 1); });
    w.ops.enq(sched, 0);
    rt::join(t3);
    w.stop_begun = true;
    rt::obs("dtor.begin");
  }
  w.after_dtor();
}

// stop requested on the receivers' token before anything is scheduled: every item gets set_done
// (still on a pool thread, still exactly once)
SCENARIO(pool_tokfirst) {
  PoolWorld w(2, 2);
  w.src.request_stop(); w.tok_begun = w.tok_ended = true;
  {
    unifex::static_thread_pool pool(2);
    auto sched = pool.get_scheduler();
    w.ops.enq(sched, 0); w.ops.enq(sched, 1);
    w.stop_begun = true;
    rt::obs("dtor.begin");
  }
  w.after_dtor();
}

// ------------------------------------------------------------------ new_thread_context
namespace {
using NtSched = decltype(std::declval<unifex::new_thread_context&>().get_scheduler());
struct NtWorld : World {
  Ops<NtSched> ops{*this};
  explicit NtWorld(int items) { n = items; fifo = false; for (int i = 1; i <= items; ++i) ctx_threads.insert(i); }
  void run_all() {
    {
      unifex::new_thread_context ctx;
      auto sched = ctx.get_scheduler();
      for (int i = 0; i < n; ++i) ops.enq(sched, i);
      stop_begun = true;
      rt::obs("dtor.begin");
    }
    dtor_ended = true;
    rt::obs("dtor.end");
    if (rt::alive() != 1) rt::fail("~new_thread_context returned while %d other thread(s) still run", rt::alive() - 1);
    for (int i = 0; i < n; ++i)
      if (completions[i] == 1 && completed_on[i] != 1 + i) rt::fail("item%d completed on T%d, expected its own new thread T%d", i, completed_on[i], 1 + i);
    finish(true);
  }
};
}  // namespace

SCENARIO(nt_1) { NtWorld w(1); w.run_all(); }
SCENARIO(nt_2) { NtWorld w(2); w.run_all(); }
SCENARIO(nt_3) { NtWorld w(3); w.run_all(); }
SCENARIO(nt_tokfirst) { NtWorld w(2); w.src.request_stop(); w.tok_begun = w.tok_ended = true; w.run_all(); }

RT_MAIN()
