// rt_main.hpp — scenario registry + command line for the atomic-level harness binaries.
//
//   <bin> --list
//   <bin> --scenario NAME [--mode dfs|random|pct|replay] [--preemptions K] [--max-execs N]
//         [--seed S] [--replay 0,1,1,0] [--trace-ops]
//
// Output (stdout), one record per line:
//   H <scenario> <count> <first-schedule> | ev ; ev ; ...   one per DISTINCT observable history
//   F <scenario> <schedule> | <failure text> | ev ; ev ; ... one per failing execution (first 20 per distinct failure text)
//   S <scenario> executions=N distinct=N with_preemption=N failures=N deadlocks=N exhausted=0|1 max_steps=N
#pragma once
#include "rt.hpp"

#include <cstdio>
#include <cstdlib>
#include <cstring>
#include <map>
#include <string>
#include <vector>

namespace rtm {

struct Scenario { std::string name; std::function<void()> body; };
inline std::vector<Scenario>& registry() { static std::vector<Scenario> r; return r; }
struct Reg { Reg(const char* n, std::function<void()> b) { registry().push_back({n, std::move(b)}); } };
#define SCENARIO(name) static void scn_##name(); static rtm::Reg reg_##name(#name, scn_##name); static void scn_##name()

inline std::string join_hist(const std::vector<std::string>& h) {
  std::string s; for (size_t i = 0; i < h.size(); ++i) { if (i) s += " ; "; s += h[i]; } return s; }
inline std::string join_sched(const std::vector<int>& c) {
  std::string s; for (size_t i = 0; i < c.size(); ++i) { if (i) s += ","; s += std::to_string(c[i]); } return s.empty() ? "-" : s; }

inline int main_impl(int argc, char** argv) {
  rt::Options opt; std::string scn;
  for (int i = 1; i < argc; ++i) {
    std::string a = argv[i];
    auto val = [&] { if (i + 1 >= argc) { fprintf(stderr, "missing value for %s\n", a.c_str()); exit(2); } return std::string(argv[++i]); };
    if (a == "--list") { for (auto& s : registry()) printf("%s\n", s.name.c_str()); return 0; }
    else if (a == "--scenario") scn = val();
    else if (a == "--mode") opt.mode = val();
    else if (a == "--preemptions") opt.preemptions = atoi(val().c_str());
    else if (a == "--max-execs") opt.max_execs = atol(val().c_str());
    else if (a == "--max-steps") opt.max_steps = atol(val().c_str());
    else if (a == "--seed") opt.seed = strtoull(val().c_str(), nullptr, 10);
    else if (a == "--trace-ops") opt.trace_ops = true;
    else if (a == "--no-clock-choices") opt.clock_choices = false;
    else if (a == "--replay") { opt.mode = "replay"; std::string v = val(); if (v != "-") { size_t p = 0; while (p <= v.size()) { size_t q = v.find(',', p); if (q == std::string::npos) q = v.size(); opt.replay.push_back(atoi(v.substr(p, q - p).c_str())); p = q + 1; } } }
    else { fprintf(stderr, "unknown arg %s\n", a.c_str()); return 2; }
  }
  int rc = 0;
  for (auto& s : registry()) {
    if (!scn.empty() && scn != "all" && s.name != scn) continue;
    std::map<std::string, std::pair<long, std::string>> hist;
    std::map<std::string, int> nfail;   // per distinct failure text (a frequent failure must not hide a rare one)
    rt::Stats st = rt::explore(s.body, opt, [&](const rt::Execution& e) {
      std::string h = join_hist(e.history);
      auto it = hist.find(h);
      if (it == hist.end()) hist.emplace(h, std::make_pair(1L, join_sched(e.choices))); else it->second.first++;
      if (!e.failures.empty()) {
        std::string f; for (auto& x : e.failures) { if (!f.empty()) f += " && "; f += x; }
        if (nfail[f]++ < 20 && nfail.size() <= 50)
        printf("F %s %s | %s | %s\n", s.name.c_str(), join_sched(e.choices).c_str(), f.c_str(), h.c_str());
      }
    });
    for (auto& kv : hist) printf("H %s %ld %s | %s\n", s.name.c_str(), kv.second.first, kv.second.second.c_str(), kv.first.c_str());
    printf("S %s executions=%ld distinct=%ld with_preemption=%ld failures=%ld deadlocks=%ld exhausted=%d max_steps=%ld\n",
           s.name.c_str(), st.executions, st.distinct_histories, st.with_preemption, st.failures, st.deadlocks, st.exhausted ? 1 : 0, st.max_steps_seen);
    fflush(stdout);
    if (st.failures) rc = 1;
  }
  return rc;
}

}  // namespace rtm

#define RT_MAIN() int main(int argc, char** argv) { return rtm::main_impl(argc, argv); }
