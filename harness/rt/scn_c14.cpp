// scn_c14.cpp — C14 scenarios on the REAL io_epoll_context under the controlled scheduler, with
// the syscalls it uses interposed by rt_io.cpp (real pipes / eventfd / epoll in the kernel,
// epoll_wait turned into a scheduler-visible wait, readv/writev with a fault schedule).
//
// Two families, each mirrored by a Lean model (same configuration names):
//   rq_*            Proto/RemoteQueue.lean  remote scheduling / wake-up protocol, run(stop_token)
//   rd_* / wr_*     Proto/EpollOp.lean      one async read/write: start, park, readiness, cancel, reuse
// Thread numbering (spawn order): T0 = scenario body (client / environment), T1 = the thread inside
// run(), T2.. = remote producers (rq_*) or the cancelling thread (rd_*/wr_*).
#include "rt_main.hpp"
#include "rt_io.hpp"

#include <unifex/inplace_stop_token.hpp>
#include <unifex/linux/io_epoll_context.hpp>
#include <unifex/manual_lifetime.hpp>
#include <unifex/receiver_concepts.hpp>
#include <unifex/scheduler_concepts.hpp>
#include <unifex/sender_concepts.hpp>
#include <unifex/span.hpp>

#include <fcntl.h>
#include <unistd.h>

#include <atomic>
#include <cstring>
#include <memory>
#include <system_error>

namespace {

using unifex::linuxos::io_epoll_context;
using Sched = decltype(std::declval<io_epoll_context&>().get_scheduler());

constexpr int LOOP_TID = 1;
constexpr unsigned char POISON = 0xDD;

// spin (schedulably) until the flag is set; rt parks the spinning thread
inline void wait_flag(std::atomic<bool>& f) { while (!f.load()) {} }

// ------------------------------------------------------------------ the context + its run() thread
struct Ctx {
  io_epoll_context ctx;
  unifex::inplace_stop_source stop;
  int loop_tid = -1;
  bool run_returned = false;

  // expect_tid: the thread id the loop must get (spawn order); pfx: prefix of the observable events
  void spawn_loop(bool observe, int expect_tid = LOOP_TID, const char* pfx = "") {
    loop_tid = rt::spawn([this, observe, pfx] {
      if (observe) rt::obs("%srun.begin", pfx);
      ctx.run(stop.get_token());
      run_returned = true;
      if (observe) rt::obs("%srun.end", pfx);
    });
    if (loop_tid != expect_tid) rt::fail("harness: loop thread is not T%d", expect_tid);
  }
  void stop_loop(bool observe, const char* pfx = "") {
    if (observe) rt::obs("%sstop.begin", pfx);
    stop.request_stop();
    if (observe) rt::obs("%sstop.end", pfx);
  }
  void join_loop() {
    rt::join(loop_tid);
    if (!run_returned) rt::fail("run(stop_token) did not return after stop was requested");
  }
};

// ------------------------------------------------------------------ rq_*: scheduled items
struct RqWorld;
struct ItemRcv {
  RqWorld* w; int p, j;
  void set_value() && noexcept;
  void set_done() && noexcept;
  void set_error(std::exception_ptr) && noexcept;
};
using SchedOp = decltype(unifex::connect(unifex::schedule(std::declval<Sched>()), std::declval<ItemRcv>()));

struct RqWorld {
  static constexpr int MAXP = 2, MAXJ = 2;
  Ctx c;
  unifex::manual_lifetime<SchedOp> op[MAXP][MAXJ];
  bool made[MAXP][MAXJ] = {};
  bool started[MAXP][MAXJ] = {};
  int runs[MAXP][MAXJ] = {};
  int order_next[MAXP] = {};

  // producer p schedules `n` items, one after the other, from its own thread
  void produce(int p, int n) {
    for (int j = 0; j < n; ++j) {
      op[p][j].construct_with([&] { return unifex::connect(unifex::schedule(c.ctx.get_scheduler()), ItemRcv{this, p, j}); });
      made[p][j] = true;
      rt::obs("sched%d.begin", j);
      started[p][j] = true;
      unifex::start(op[p][j].get());
      rt::obs("sched%d.end", j);
    }
  }
  void ran(int p, int j) {
    if (rt::self() != LOOP_TID) rt::fail("item %d.%d ran on T%d, not on the thread inside run()", p, j, rt::self());
    if (!started[p][j]) rt::fail("item %d.%d ran before it was scheduled", p, j);
    if (++runs[p][j] > 1) rt::fail("item %d.%d ran twice", p, j);
    if (j != order_next[p]) rt::fail("items of producer %d ran out of order (%d before %d)", p, j, order_next[p]);
    order_next[p] = j + 1;
    rt::obs("run %d.%d", p, j);
    rt::point("in-item");
  }
  // all == true: every scheduled item must have run exactly once
  void finish(bool all) {
    for (int p = 0; p < MAXP; ++p) for (int j = 0; j < MAXJ; ++j) {
      if (!made[p][j]) continue;
      if (all && runs[p][j] != 1) rt::fail("item %d.%d scheduled before the stop request ran %d times (lost)", p, j, runs[p][j]);
      if (runs[p][j] == 1) op[p][j].destruct();
      // an item that never ran is still linked into the context's queue: leave its storage alone
    }
  }
};
void ItemRcv::set_value() && noexcept { w->ran(p, j); }
void ItemRcv::set_done() && noexcept { rt::fail("schedule() item completed with done (no stop token)"); }
void ItemRcv::set_error(std::exception_ptr) && noexcept { rt::fail("schedule() item completed with error"); }

// nprod producers with `items` items each; stop after all producers returned (early == false) or
// concurrently with them (early == true)
void rq_scenario(int nprod, int items, bool early) {
  rtio::reset();
  RqWorld w;
  w.c.spawn_loop(true);
  int t[RqWorld::MAXP];
  for (int p = 0; p < nprod; ++p) t[p] = rt::spawn([&w, p, items] { w.produce(p, items); });
  if (!early) for (int p = 0; p < nprod; ++p) rt::join(t[p]);
  w.c.stop_loop(true);
  if (early) for (int p = 0; p < nprod; ++p) rt::join(t[p]);
  w.c.join_loop();
  w.finish(!early);
}

// ------------------------------------------------------------------ rd_*/wr_*: one async read / write
// a one-shot latch on the scheduler's own mutex/condvar objects: a waiting thread is DISABLED (no
// spinning), so it adds no branching to the exploration
struct Latch {
  pthread_mutex_t m = PTHREAD_MUTEX_INITIALIZER;
  pthread_cond_t c = PTHREAD_COND_INITIALIZER;
  bool set = false;
  void signal() { pthread_mutex_lock(&m); set = true; pthread_cond_broadcast(&c); pthread_mutex_unlock(&m); }
  void wait() { pthread_mutex_lock(&m); while (!set) pthread_cond_wait(&c, &m); pthread_mutex_unlock(&m); }
};

struct IoWorld;
struct IoSlot;
extern IoWorld* g_io_world;
bool null_handler_filter(void* p);
struct IoRcv {
  IoSlot* s;
  void set_value(ssize_t n) && noexcept;
  void set_done() && noexcept;
  void set_error(std::error_code e) && noexcept;
  void set_error(std::exception_ptr) && noexcept;
  friend unifex::inplace_stop_token tag_invoke(unifex::tag_t<unifex::get_stop_token>, const IoRcv& r) noexcept;
};
using ReadSender = decltype(unifex::async_read_some(std::declval<io_epoll_context::async_reader&>(), std::declval<unifex::span<std::byte>>()));
using WriteSender = decltype(unifex::async_write_some(std::declval<io_epoll_context::async_writer&>(), std::declval<unifex::span<const std::byte>>()));
using ReadOp = decltype(unifex::connect(std::declval<ReadSender>(), std::declval<IoRcv>()));
using WriteOp = decltype(unifex::connect(std::declval<WriteSender>(), std::declval<IoRcv>()));

enum Outcome { O_NONE = 0, O_VALUE, O_DONE, O_ERROR };

struct IoSlot {
  IoWorld* w = nullptr;
  int idx = 0;
  bool is_write = false;
  unifex::inplace_stop_source src;
  alignas(16) unsigned char storage[sizeof(ReadOp) > sizeof(WriteOp) ? sizeof(ReadOp) : sizeof(WriteOp)];
  unsigned char snapshot[sizeof(ReadOp) > sizeof(WriteOp) ? sizeof(ReadOp) : sizeof(WriteOp)];   // the bytes at completion
  size_t op_size = 0;
  bool constructed = false;
  unsigned char* buf = nullptr;     // the buffer handed to the operation
  size_t buf_len = 0;
  int completions = 0;
  Outcome outcome = O_NONE;
  long value = 0;
  int err = 0;
  Latch completed;

  ReadOp& rop() { return *reinterpret_cast<ReadOp*>(storage); }
  WriteOp& wop() { return *reinterpret_cast<WriteOp*>(storage); }
  void complete(Outcome o, long v, int e);
  void check_untouched();
};

struct IoWorld {
  Ctx c;
  int rfd = -1, wfd = -1;                 // the pipe (owned by reader / writer below)
  unifex::manual_lifetime<io_epoll_context::async_reader> reader;
  unifex::manual_lifetime<io_epoll_context::async_writer> writer;
  IoSlot slot[2];
  int expected;                           // completions after which the loop is told to stop
  long op_bytes = 0;                      // bytes moved by completed operations
  unsigned char next_out = 1;             // next byte value put into the pipe
  unsigned char next_in = 1;              // next byte value expected out of the pipe
  bool write_mode;

  // expected_completions > 0: the last expected completion tells the loop to stop (on its own thread);
  // 0: the scenario stops the loop itself (stop_loop) after a final fence
  explicit IoWorld(int expected_completions, bool write_mode_ = false) : expected(expected_completions), write_mode(write_mode_) {
    rtio::reset();
    int fd[2];
    if (::pipe2(fd, O_NONBLOCK | O_CLOEXEC) != 0) { rt::fail("harness: pipe2 failed"); return; }
    rfd = fd[0]; wfd = fd[1];
    if (write_mode) {
      // smallest pipe; fill it completely so that a write has to wait
      ::fcntl(wfd, F_SETPIPE_SZ, 4096);
    }
    reader.construct(c.ctx, rfd);
    writer.construct(c.ctx, wfd);
    fds_open = true;
    for (int i = 0; i < 2; ++i) { slot[i].w = this; slot[i].idx = i; }
    rtio::trace_fd(write_mode ? wfd : rfd);
    g_io_world = this;
    rtio::set_event_filter(&null_handler_filter);
    c.spawn_loop(false);
  }
  // environment: put n bytes (a running byte sequence) into the pipe
  void env_write(int n, bool observe = true) {
    unsigned char b[64];
    for (int i = 0; i < n; ++i) b[i] = next_out++;
    ssize_t r = ::write(wfd, b, n);
    if (r != n) rt::fail("harness: environment write returned %zd", r);
    if (observe) rt::obs("wrote %d", n);
  }
  // environment (write mode): fill the pipe to the brim with filler bytes (value 0, skipped on the way out)
  void env_fill() {
    unsigned char z[512]; memset(z, 0, sizeof z);
    for (;;) { ssize_t r = ::write(wfd, z, sizeof z); if (r <= 0) break; }
  }
  // environment: take everything out of the pipe (ONE read syscall empties it: the observable
  // event is atomic with the effect), checking the byte sequence (filler bytes are 0)
  long env_drain(bool observe = false) {
    long total = 0;
    static unsigned char b[16384];
    ssize_t r = ::read(rfd, b, sizeof b);
    if (observe) rt::obs("drained");
    while (r > 0) {
      for (ssize_t i = 0; i < r; ++i) {
        if (b[i] == 0) continue;
        if (b[i] != next_in++) rt::fail("bytes in the pipe are not the expected sequence");
        ++total;
      }
      r = ::read(rfd, b, sizeof b);
    }
    drained += total;
    return total;
  }
  long drained = 0;                       // sequence bytes (non-filler) the environment took out of the pipe
  void start_read(int i, size_t len) {
    IoSlot& s = slot[i];
    s.is_write = false;
    s.buf_len = len; s.buf = new unsigned char[len]; memset(s.buf, 0xEE, len);
    new (s.storage) ReadOp(unifex::connect(
        unifex::async_read_some(reader.get(), unifex::span<std::byte>(reinterpret_cast<std::byte*>(s.buf), len)), IoRcv{&s}));
    s.op_size = sizeof(ReadOp); s.constructed = true;
    rt::obs("start%d", i);
    unifex::start(s.rop());
  }
  void start_write(int i, size_t len) {
    IoSlot& s = slot[i];
    s.is_write = true;
    s.buf_len = len; s.buf = new unsigned char[len];
    for (size_t k = 0; k < len; ++k) s.buf[k] = (unsigned char)(next_out + k);
    new (s.storage) WriteOp(unifex::connect(
        unifex::async_write_some(writer.get(), unifex::span<const std::byte>(reinterpret_cast<const std::byte*>(s.buf), len)), IoRcv{&s}));
    s.op_size = sizeof(WriteOp); s.constructed = true;
    rt::obs("start%d", i);
    unifex::start(s.wop());
  }
  void cancel(int i) {
    rt::obs("cancel%d.begin", i);
    slot[i].src.request_stop();
    rt::obs("cancel%d.end", i);
  }
  void await(int i) { slot[i].completed.wait(); }
  // a no-op item through the context: when it has run, everything scheduled before it has run
  void fence();
  // the loop is told to stop by the last expected completion (on its own thread); T0 only joins
  void finish() {
    c.join_loop();
    for (auto& s : slot) s.check_untouched();
  }
  bool fds_open = false;
  ~IoWorld() { g_io_world = nullptr; if (fds_open) { reader.destruct(); writer.destruct(); } }
};

// Mirror of io_epoll_context::operation_base (private): { std::atomic<int> enqueued_; operation_base* next_;
// void (*execute_)(operation_base*) noexcept; }.  Only used to LOOK at execute_ of a parked operation when
// the kernel reports its descriptor: execute_pending_local() nulls execute_ when it runs the handler, so a
// second readiness event for the same (not re-armed) operation makes the library call a null pointer.
struct OpBaseLayout { std::atomic<int> enqueued_; void* next_; void (*execute_)(void*); };
static_assert(sizeof(OpBaseLayout) == 24, "layout of io_epoll_context::operation_base changed");
IoWorld* g_io_world = nullptr;
bool null_handler_filter(void* p) {
  IoWorld* w = g_io_world;
  if (!w) return false;
  for (auto& s : w->slot) {
    auto* b = reinterpret_cast<unsigned char*>(p);
    if (s.constructed && s.completions == 0 && b >= s.storage && b < s.storage + s.op_size) {
      if (reinterpret_cast<OpBaseLayout*>(p)->execute_ == nullptr) {
        rt::fail("second readiness event for op%d after its handler ran (execute_ == nullptr): null call in execute_pending_local", s.idx);
        return true;
      }
    }
  }
  return false;
}

struct FenceRcv {
  Latch* f;
  void set_value() && noexcept { rt::obs("fence"); f->signal(); }
  void set_done() && noexcept {}
  void set_error(std::exception_ptr) && noexcept {}
};
void IoWorld::fence() {
  Latch f;
  auto op = unifex::connect(unifex::schedule(c.ctx.get_scheduler()), FenceRcv{&f});
  unifex::start(op);
  f.wait();
}

unifex::inplace_stop_token tag_invoke(unifex::tag_t<unifex::get_stop_token>, const IoRcv& r) noexcept { return r.s->src.get_token(); }

void IoSlot::complete(Outcome o, long v, int e) {
  // monitors, independent of the model
  if (rt::self() != LOOP_TID) rt::fail("op%d completed on T%d, not on the thread inside run()", idx, rt::self());
  if (++completions > 1) { rt::fail("op%d completed twice", idx); return; }
  outcome = o; value = v; err = e;
  if (o == O_VALUE) {
    if (v < 0 || (size_t)v > buf_len) rt::fail("op%d reported %ld bytes for a buffer of %zu", idx, v, buf_len);
    else if (!is_write) {
      for (long k = 0; k < v; ++k) if (buf[k] != w->next_in++) { rt::fail("op%d: bytes delivered are not the bytes written", idx); break; }
      for (size_t k = (size_t)v; k < buf_len; ++k) if (buf[k] != 0xEE) { rt::fail("op%d: buffer modified beyond the reported byte count", idx); break; }
      w->op_bytes += v;
    } else {
      w->next_out = (unsigned char)(w->next_out + v);   // these bytes are now in the pipe (checked when drained)
      w->op_bytes += v;
    }
  }
  if (o != O_VALUE && !is_write)
    for (size_t k = 0; k < buf_len; ++k) if (buf[k] != 0xEE) { rt::fail("op%d completed without a value but its buffer was written", idx); break; }
  // the owner destroys the operation and releases the buffer inside the completion, as real clients do
  if (is_write) wop().~WriteOp(); else rop().~ReadOp();
  if (rtio::registrations_into(storage, op_size) != 0)
    rt::fail("op%d completed but an epoll registration still points to it (stale kernel-side reference)", idx);
  // the storage is NOT overwritten (library code that wrongly still runs on it then reaches the
  // monitors instead of crashing); any later write is found by comparing with this snapshot
  memcpy(snapshot, storage, op_size);
  rtio::mark_dead(storage, op_size);
  memset(buf, POISON, buf_len);
  switch (o) {
    case O_VALUE: rt::obs("value%d %ld", idx, v); break;
    case O_DONE: rt::obs("done%d", idx); break;
    case O_ERROR: rt::obs("error%d %d", idx, e); break;
    default: break;
  }
  rt::point("in-completion");
  if (--w->expected == 0) w->c.stop.request_stop();   // on the loop thread: run() returns after this batch
  completed.signal();
}

void IoSlot::check_untouched() {
  if (!constructed) return;
  if (completions == 0) { rt::fail("op%d never completed", idx); return; }
  if (memcmp(snapshot, storage, op_size) != 0) rt::fail("op%d: operation state was written after the operation completed", idx);
  for (size_t k = 0; k < buf_len; ++k) if (buf[k] != POISON) { rt::fail("op%d: buffer was accessed after the operation completed", idx); break; }
  delete[] buf; buf = nullptr;
}

void IoRcv::set_value(ssize_t n) && noexcept { s->complete(O_VALUE, n, 0); }
void IoRcv::set_done() && noexcept { s->complete(O_DONE, 0, 0); }
void IoRcv::set_error(std::error_code e) && noexcept { s->complete(O_ERROR, 0, e.value()); }
void IoRcv::set_error(std::exception_ptr) && noexcept { s->complete(O_ERROR, 0, -1); }

}  // namespace

// ================================================================== remote queue / wake-up
SCENARIO(rq_one) { rq_scenario(1, 1, false); }
SCENARIO(rq_two) { rq_scenario(2, 1, false); }
SCENARIO(rq_burst) { rq_scenario(1, 2, false); }
SCENARIO(rq_stop_early) { rq_scenario(1, 1, true); }

// ================================================================== async read
// data is in the pipe before the read starts
SCENARIO(rd_ready) {
  IoWorld w(1);
  w.env_write(5);
  w.start_read(0, 8);
  w.await(0);
  if (w.slot[0].outcome != O_VALUE || w.slot[0].value != 5) rt::fail("read of 5 available bytes did not complete with value 5");
  w.finish();
}

// the read parks; data arrives afterwards
SCENARIO(rd_park) {
  IoWorld w(1);
  w.start_read(0, 8);
  w.env_write(5);
  w.await(0);
  if (w.slot[0].outcome != O_VALUE || w.slot[0].value != 5) rt::fail("parked read did not complete with value 5");
  w.finish();
}

// fault schedule: spurious EAGAIN although data is there
SCENARIO(rd_eagain_fault) {
  IoWorld w(1);
  rtio::fault(rtio::C_READV, w.rfd, 1, rtio::A_EAGAIN);
  w.env_write(5);
  w.start_read(0, 8);
  w.await(0);
  if (w.slot[0].outcome != O_VALUE || w.slot[0].value != 5) rt::fail("read did not complete with value 5 after a spurious EAGAIN");
  w.finish();
}

// fault schedule: short count; a second read gets the rest, in order
SCENARIO(rd_short) {
  IoWorld w(2);
  rtio::fault(rtio::C_READV, w.rfd, 1, rtio::A_SHORT, 2);
  w.env_write(5);
  w.start_read(0, 8);
  w.await(0);
  if (w.slot[0].outcome != O_VALUE || w.slot[0].value != 2) rt::fail("short read did not complete with the short count");
  w.start_read(1, 8);
  w.await(1);
  if (w.slot[1].outcome != O_VALUE || w.slot[1].value != 3) rt::fail("second read did not get the remaining 3 bytes");
  w.finish();
}

// cancel while parked (from T2), then reuse of the descriptor by a later read
SCENARIO(rd_cancel_parked) {
  IoWorld w(2);
  w.start_read(0, 8);
  w.fence();
  int t2 = rt::spawn([&] { w.cancel(0); });
  w.await(0);
  rt::join(t2);
  if (w.slot[0].outcome != O_DONE) rt::fail("cancelled parked read did not complete with done");
  w.env_write(4);
  w.start_read(1, 8);
  w.await(1);
  if (w.slot[1].outcome != O_VALUE || w.slot[1].value != 4) rt::fail("read after a cancelled read did not get the 4 bytes written later");
  w.finish();
}

// data and cancellation race
SCENARIO(rd_cancel_race) {
  IoWorld w(0);
  w.start_read(0, 8);
  int t2 = rt::spawn([&] { w.cancel(0); });
  w.env_write(5);
  w.await(0);
  rt::join(t2);
  IoSlot& s = w.slot[0];
  if (s.outcome == O_VALUE) { if (s.value != 5) rt::fail("read raced with cancel completed with a wrong byte count"); }
  else if (s.outcome != O_DONE) rt::fail("read raced with cancel completed with an error");
  w.fence();               // whatever the cancellation queued on the context has run now
  w.c.stop_loop(false);
  w.finish();
  w.env_drain();
  if (w.op_bytes + w.drained != 5) rt::fail("bytes lost or duplicated: reported + left in the pipe != written");
}

// stop requested before the operation is started; the descriptor is used again afterwards
SCENARIO(rd_cancel_before_start) {
  IoWorld w(2);
  w.cancel(0);
  w.start_read(0, 8);
  w.await(0);
  if (w.slot[0].outcome != O_DONE) rt::fail("read started with a stopped token did not complete with done");
  w.env_write(4);
  w.fence();
  w.start_read(1, 8);
  w.await(1);
  if (w.slot[1].outcome != O_VALUE || w.slot[1].value != 4) rt::fail("read after a cancelled read did not get the 4 bytes written later");
  w.finish();
}

// fault schedule: the first readv fails with a real error (EIO): the read must complete with EIO at once
// (before the errno repair of /repo 1b893b7 it was parked: the monitor below stays armed for that)
SCENARIO(rd_error_start) {
  IoWorld w(0);
  rtio::fault(rtio::C_READV, w.rfd, 1, rtio::A_ERR, EIO);
  w.start_read(0, 8);
  w.fence();
  IoSlot& s = w.slot[0];
  if (!(s.completions == 1 && s.outcome == O_ERROR && s.err == EIO))
    rt::fail("readv failed with EIO but the read did not complete with that error (%s)", s.completions == 0 ? "not completed: parked" : "other result");
  int t2 = -1;
  if (s.completions == 0) t2 = rt::spawn([&] { w.cancel(0); });   // get a parked operation out of the way
  w.await(0);
  if (t2 >= 0) rt::join(t2);
  w.c.stop_loop(false);
  w.finish();
}

// fault schedule: the retry after readiness fails with a real error (EIO)
SCENARIO(rd_error_retry) {
  IoWorld w(1);
  rtio::fault(rtio::C_READV, w.rfd, 2, rtio::A_ERR, EIO);
  w.start_read(0, 8);
  w.fence();
  w.env_write(5);
  w.await(0);
  IoSlot& s = w.slot[0];
  if (!(s.outcome == O_ERROR && s.err == EIO))
    rt::fail("readv failed with EIO but the read completed with %s %d", s.outcome == O_ERROR ? "error" : s.outcome == O_VALUE ? "value" : "done", s.outcome == O_ERROR ? s.err : (int)s.value);
  w.finish();
}

// ================================================================== async write
// the pipe has room: the write completes at once; the bytes arrive intact
SCENARIO(wr_ready) {
  IoWorld w(1, true);
  w.start_write(0, 8);
  w.await(0);
  if (w.slot[0].outcome != O_VALUE || w.slot[0].value != 8) rt::fail("write of 8 bytes into an empty pipe did not complete with value 8");
  w.finish();
  w.env_drain();
  if (w.drained != 8) rt::fail("the pipe does not contain the 8 bytes the write reported");
}

// the pipe is full: the write parks until the environment drains the pipe
SCENARIO(wr_park) {
  IoWorld w(1, true);
  w.env_fill();
  w.start_write(0, 8);
  w.fence();
  w.env_drain(true);
  w.await(0);
  if (w.slot[0].outcome != O_VALUE || w.slot[0].value != 8) rt::fail("parked write did not complete with value 8");
  w.finish();
  w.env_drain();
  if (w.drained != 8) rt::fail("the pipe does not contain the 8 bytes the write reported");
}

// the pipe is full: the write parks and is cancelled; nothing of its buffer reaches the pipe
SCENARIO(wr_cancel_parked) {
  IoWorld w(1, true);
  w.env_fill();
  w.start_write(0, 8);
  w.fence();
  int t2 = rt::spawn([&] { w.cancel(0); });
  w.await(0);
  rt::join(t2);
  if (w.slot[0].outcome != O_DONE) rt::fail("cancelled parked write did not complete with done");
  w.finish();
  w.env_drain();
  if (w.drained != 0) rt::fail("bytes of a cancelled write reached the pipe");
}

// stop requested before the write is started, pipe full; then a SECOND write on the same descriptor that
// has to park as well: it must be the one that is woken when the pipe is drained (no registration of
// the cancelled write may be left: one registration per descriptor, the second EPOLL_CTL_ADD would fail)
SCENARIO(wr_cancel_before_start) {
  IoWorld w(2, true);
  w.env_fill();
  w.cancel(0);
  w.start_write(0, 8);
  w.await(0);
  if (w.slot[0].outcome != O_DONE) rt::fail("write started with a stopped token did not complete with done");
  w.start_write(1, 8);
  w.fence();
  if (w.slot[1].completions == 0 && rtio::registrations_into(w.slot[1].storage, w.slot[1].op_size) != 1)
    rt::fail("the parked second write on the descriptor has no epoll registration of its own");
  w.env_drain(true);
  w.await(1);
  if (w.slot[1].outcome != O_VALUE || w.slot[1].value != 8) rt::fail("second write on the descriptor did not complete with value 8");
  w.finish();
  w.env_drain();
  if (w.drained != 8) rt::fail("the pipe does not contain exactly the 8 bytes of the second write");
}

// the same on the read side: the second read parks (empty pipe) before its data arrives
SCENARIO(rd_cancel_before_start_park) {
  IoWorld w(2);
  w.cancel(0);
  w.start_read(0, 8);
  w.await(0);
  if (w.slot[0].outcome != O_DONE) rt::fail("read started with a stopped token did not complete with done");
  w.start_read(1, 8);
  w.fence();
  if (w.slot[1].completions == 0 && rtio::registrations_into(w.slot[1].storage, w.slot[1].op_size) != 1)
    rt::fail("the parked second read on the descriptor has no epoll registration of its own");
  w.env_write(4);
  w.await(1);
  if (w.slot[1].outcome != O_VALUE || w.slot[1].value != 4) rt::fail("second read on the descriptor did not get the 4 bytes written later");
  w.finish();
}

// ================================================================== two contexts
// Work for context B submitted from the thread that runs context A's loop.  T0 = client, T1 = the
// thread inside B.run(), T2 = the thread inside A.run().
namespace {
struct X2World;
struct X2ItemA { X2World* w; void set_value() && noexcept; void set_done() && noexcept {} void set_error(std::exception_ptr) && noexcept {} };
struct X2ItemB { X2World* w; void set_value() && noexcept; void set_done() && noexcept {} void set_error(std::exception_ptr) && noexcept {} };
using X2OpA = decltype(unifex::connect(unifex::schedule(std::declval<Sched>()), std::declval<X2ItemA>()));
using X2OpB = decltype(unifex::connect(unifex::schedule(std::declval<Sched>()), std::declval<X2ItemB>()));
struct X2World {
  Ctx b, a;                      // B first: its loop is T1
  unifex::manual_lifetime<X2OpA> opA;
  unifex::manual_lifetime<X2OpB> opB;
  int runs_a = 0, runs_b = 0;
  Latch b_ran;
};
void X2ItemA::set_value() && noexcept {
  X2World* ww = w;
  if (rt::self() != 2) rt::fail("item a of context A ran on T%d, not on the thread inside A.run()", rt::self());
  if (++ww->runs_a > 1) rt::fail("item a ran twice");
  rt::obs("A.run 0.0");
  rt::point("in-item-a");
  // from A's thread: schedule item b on context B
  ww->opB.construct_with([&] { return unifex::connect(unifex::schedule(ww->b.ctx.get_scheduler()), X2ItemB{ww}); });
  rt::obs("B.sched0.begin");
  unifex::start(ww->opB.get());
  rt::obs("B.sched0.end");
}
void X2ItemB::set_value() && noexcept {
  X2World* ww = w;
  if (rt::self() != 1) rt::fail("item b of context B ran on T%d, not on the thread inside B.run()", rt::self());
  if (++ww->runs_b > 1) rt::fail("item b ran twice");
  rt::obs("B.run 0.0");
  rt::point("in-item-b");
  ww->b_ran.signal();
}
}  // namespace

SCENARIO(x2_schedule) {
  rtio::reset();
  X2World w;
  w.b.spawn_loop(true, 1, "B.");
  w.a.spawn_loop(true, 2, "A.");
  w.opA.construct_with([&] { return unifex::connect(unifex::schedule(w.a.ctx.get_scheduler()), X2ItemA{&w}); });
  rt::obs("A.sched0.begin");
  unifex::start(w.opA.get());
  rt::obs("A.sched0.end");
  w.b_ran.wait();                // item b must run although B was (or went) idle: needs B's eventfd wake-up
  w.a.stop_loop(true, "A.");
  w.b.stop_loop(true, "B.");
  w.a.join_loop();
  w.b.join_loop();
  if (w.runs_a != 1 || w.runs_b != 1) rt::fail("cross-context items ran %d/%d times", w.runs_a, w.runs_b);
  w.opA.destruct(); w.opB.destruct();
}

// a read on context B (loop T1) started from the thread inside A.run() (T2): start_io and the completion
// must run on B's thread
SCENARIO(x2_read) {
  IoWorld w(1);                  // context B = w.c, loop T1
  Ctx a;
  a.spawn_loop(false, 2);
  struct StartRcv {
    IoWorld* w;
    void set_value() && noexcept {
      if (rt::self() != 2) rt::fail("item of context A ran on T%d", rt::self());
      w->start_read(0, 8);       // prints "start0" on T2
    }
    void set_done() && noexcept {}
    void set_error(std::exception_ptr) && noexcept {}
  };
  w.env_write(5);
  auto op = unifex::connect(unifex::schedule(a.ctx.get_scheduler()), StartRcv{&w});
  unifex::start(op);
  w.await(0);
  if (w.slot[0].outcome != O_VALUE || w.slot[0].value != 5) rt::fail("cross-context read did not complete with value 5");
  a.stop_loop(false);
  a.join_loop();
  w.finish();
}

RT_MAIN()
