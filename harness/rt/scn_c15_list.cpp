// scn_c15_list.cpp — linearizability tie for unifex::atomic_intrusive_list (C15, DESIGN §3.3).
// Real push_back / pop_front / try_remove / empty on <= 3 nodes from <= 3 threads under the
// controlled scheduler.  Every operation prints a call event and a return event; each explored
// history is checked against the sequential list specification in Lean
// (lean/UnifexModel/Proto/AList.lean, `umdriver ask alist lin | history`).
// Usage restrictions of the list that the mutex obeys and the scenarios obey as well: a node is
// pushed at most once, and try_remove(n) is only called when push_back(n) has returned.
// Monitors independent of the Lean spec: at the end every pushed node was delivered by exactly one
// of pop_front / successful try_remove / the final drain.
#include "rt_main.hpp"

#include <unifex/detail/atomic_intrusive_list.hpp>

namespace {

struct Node : unifex::atomic_intrusive_list_node { int id = 0; };

struct World {
  unifex::atomic_intrusive_list<Node> list;
  Node n[3];
  int pushed[3] = {}, delivered[3] = {};
  World() { for (int i = 0; i < 3; ++i) n[i].id = i; }

  void push(int i) {
    rt::obs("push %d", i);
    ++pushed[i];
    list.push_back(&n[i]);
    rt::obs("ok");
    rt::point("between-ops");
  }
  void pop() {
    rt::obs("pop");
    Node* p = list.pop_front();
    if (p) { if (++delivered[p->id] > 1) rt::fail("node delivered twice"); rt::obs("got %d", p->id); }
    else rt::obs("got -");
    rt::point("between-ops");
  }
  void rm(int i) {
    rt::obs("rm %d", i);
    bool ok = list.try_remove(&n[i]);
    if (ok && ++delivered[i] > 1) rt::fail("node delivered twice");
    rt::obs(ok ? "yes" : "no");
    rt::point("between-ops");
  }
  void empty() {
    rt::obs("empty");
    bool e = list.empty();
    rt::obs(e ? "yes" : "no");
    rt::point("between-ops");
  }
  // sequential drain at the end; checks the exactly-once delivery of every pushed node
  void drain() {
    for (int k = 0; k < 4; ++k) pop();
    for (int i = 0; i < 3; ++i)
      if (pushed[i] != delivered[i]) rt::fail("node lost: pushed but never delivered");
  }
};

}  // namespace

// two producers, one consumer
SCENARIO(l_push_pop) {
  World w;
  int t1 = rt::spawn([&] { w.push(0); w.push(1); });
  int t2 = rt::spawn([&] { w.push(2); });
  int t3 = rt::spawn([&] { w.pop(); w.pop(); });
  rt::join(t1); rt::join(t2); rt::join(t3);
  w.drain();
}

// pop_front vs try_remove of the head, and of the second node (the mutex' unlock vs stop race)
SCENARIO(l_pop_remove) {
  World w;
  w.push(0); w.push(1);
  int t1 = rt::spawn([&] { w.pop(); });
  int t2 = rt::spawn([&] { w.rm(0); });
  int t3 = rt::spawn([&] { w.rm(1); });
  rt::join(t1); rt::join(t2); rt::join(t3);
  w.drain();
}

// push_back at the tail vs try_remove of the tail / of the only node, and the empty() probe
SCENARIO(l_push_remove) {
  World w;
  w.push(0);
  int t1 = rt::spawn([&] { w.push(1); w.rm(1); });
  int t2 = rt::spawn([&] { w.rm(0); w.empty(); });
  int t3 = rt::spawn([&] { w.pop(); });
  rt::join(t1); rt::join(t2); rt::join(t3);
  w.drain();
}

// the Dekker pattern of the mutex: push then probe vs pop then probe
SCENARIO(l_empty_probe) {
  World w;
  int t1 = rt::spawn([&] { w.push(0); w.empty(); });
  int t2 = rt::spawn([&] { w.pop(); w.empty(); w.push(1); });
  int t3 = rt::spawn([&] { w.empty(); w.pop(); });
  rt::join(t1); rt::join(t2); rt::join(t3);
  w.drain();
}

RT_MAIN()
