// scn_c15.cpp — C15 scenarios on the REAL unifex::v1::async_mutex and unifex::v2::async_mutex.
// Each scenario mirrors one configuration of lean/UnifexModel/Proto/MutexV1.lean (v1_*) or
// Proto/MutexV2.lean (v2_*): same name, same thread numbering (T0 = scenario body, T1.. spawned in
// that order), same observable events.
//
// Receivers are plain structs.  For v2 they answer get_stop_token with the token of an
// inplace_stop_source in the World (one per waiter) and get_scheduler with a scheduler written
// here: `Ctx` — a queue of pending schedule-operations that is drained by explicit run_one()
// calls (deferred mode), or that executes the operation inside start() (inline mode, the
// behaviour of unifex::inline_scheduler).  Like every libunifex scheduler (inline_scheduler,
// manual_event_loop, thread pools) the schedule-operation completes with set_done when the stop
// token of ITS receiver has a stop request at the moment it runs — so if completion_forwarder ever
// again connected the reschedule with a receiver that forwards the waiter's stop token (DESIGN §8
// #3, repaired), the "lock leaked" monitor below fires.
//
// Monitors (independent of the Lean model): two holders in the critical section, a waiter
// completed twice, mutex locked at quiescence although nobody holds it (lock leaked), a started
// waiter that was neither cancelled nor completed at quiescence (lost waiter).
#include "rt_main.hpp"

#include <unifex/v1/async_mutex.hpp>
#include <unifex/v2/async_mutex.hpp>
#include <unifex/get_stop_token.hpp>
#include <unifex/inplace_stop_token.hpp>
#include <unifex/manual_lifetime.hpp>
#include <unifex/receiver_concepts.hpp>
#include <unifex/scheduler_concepts.hpp>
#include <unifex/sender_concepts.hpp>

#include <condition_variable>
#include <deque>
#include <mutex>
#include <optional>

namespace {

constexpr int NW = 3;   // waiter ids 0..2

// ------------------------------------------------------------------ the manual scheduler
struct Ctx {
  struct Item { virtual void execute() noexcept = 0; Item* next = nullptr; };
  bool deferred = true;
  std::mutex mu;
  std::condition_variable cv;
  std::deque<Item*> q;
  int live = 0;                 // spawned threads that have not finished yet

  void enqueue(Item* it) {
    std::lock_guard<std::mutex> g(mu);
    q.push_back(it);
    cv.notify_all();
  }
  void thread_done() {
    std::lock_guard<std::mutex> g(mu);
    --live;
    cv.notify_all();
  }
  // Runs one pending schedule-operation.  Blocks while the queue is empty and other threads are
  // still alive; returns false when the queue is empty and everybody else has finished.
  bool run_one() {
    Item* it;
    {
      std::unique_lock<std::mutex> g(mu);
      while (q.empty() && live > 0) cv.wait(g);
      if (q.empty()) return false;
      it = q.front(); q.pop_front();
    }
    rt::obs("run");
    it->execute();
    return true;
  }
};

struct Sched {
  Ctx* ctx;
  template <typename Receiver>
  struct Op final : Ctx::Item {
    Ctx* ctx; Receiver r;
    Op(Ctx* c, Receiver&& rr) noexcept : ctx(c), r(std::move(rr)) {}
    Op(Op&&) = delete;
    void start() noexcept {
      if (ctx->deferred) ctx->enqueue(this); else execute();
    }
    void execute() noexcept override {
      // what inline_scheduler / manual_event_loop do with a stoppable receiver
      if (unifex::get_stop_token(r).stop_requested()) unifex::set_done(std::move(r));
      else unifex::set_value(std::move(r));
    }
  };
  struct Sender {
    template <template <typename...> class Variant, template <typename...> class Tuple>
    using value_types = Variant<Tuple<>>;
    template <template <typename...> class Variant>
    using error_types = Variant<>;
    static constexpr bool sends_done = true;
    static constexpr unifex::blocking_kind blocking = unifex::blocking_kind::maybe;
    static constexpr bool is_always_scheduler_affine = true;
    Ctx* ctx;
    template <typename Receiver>
    Op<unifex::remove_cvref_t<Receiver>> connect(Receiver&& r) const noexcept {
      return Op<unifex::remove_cvref_t<Receiver>>{ctx, std::forward<Receiver>(r)};
    }
  };
  Sender schedule() const noexcept { return Sender{ctx}; }
  friend bool operator==(Sched a, Sched b) noexcept { return a.ctx == b.ctx; }
  friend bool operator!=(Sched a, Sched b) noexcept { return a.ctx != b.ctx; }
};

// ------------------------------------------------------------------ the world
template <typename Mutex>
struct World;

template <typename Mutex>
struct Rcv {
  World<Mutex>* w; int i;
  void set_value() && noexcept;
  void set_done() && noexcept;
  template <typename E> void set_error(E&&) && noexcept { rt::fail("waiter completed with an error"); }
  friend unifex::inplace_stop_token tag_invoke(unifex::tag_t<unifex::get_stop_token>, const Rcv& r) noexcept {
    return r.w->src[r.i].get_token();
  }
  friend Sched tag_invoke(unifex::tag_t<unifex::get_scheduler>, const Rcv& r) noexcept { return Sched{&r.w->ctx}; }
};

template <typename Mutex>
struct World {
  using OpT = decltype(unifex::connect(std::declval<Mutex&>().async_lock(), std::declval<Rcv<Mutex>>()));
  Mutex m;
  Ctx ctx;
  unifex::inplace_stop_source src[NW];
  unifex::manual_lifetime<OpT> op[NW];   // destroyed at the end of the scenario only
  bool started[NW] = {};
  bool stop_asked[NW] = {};     // request_stop() was called on the waiter's stop source (at any time)
  int completions[NW] = {};
  bool start_returned[NW] = {};
  unsigned pred[NW] = {};       // waiters whose start() had returned uncompleted when start(i) began
  int in_cs = 0;                // parties that own the lock and have not called unlock() yet

  explicit World(bool deferred = true) { ctx.deferred = deferred; }
  ~World() { for (int i = 0; i < NW; ++i) if (started[i]) op[i].destruct(); }

  // ---- client operations: one observable event, then the library call
  void lock(int i) {
    started[i] = true;
    op[i].construct_with([&] { return unifex::connect(m.async_lock(), Rcv<Mutex>{this, i}); });
    for (int j = 0; j < NW; ++j)
      if (j != i && start_returned[j] && completions[j] == 0) pred[i] |= 1u << j;
    rt::obs("lock%d", i);
    unifex::start(op[i].get());
    start_returned[i] = true;
  }
  void enter(const char* who, int i) {
    if (++in_cs > 1) rt::fail("two holders inside the critical section");
    rt::obs("%s%d.value", who, i);
    rt::point("in-cs");
  }
  void leave_and_unlock(const char* who, int i) {
    --in_cs;
    rt::obs("%s%d.unlock", who, i);
    rt::point("unlock");
    m.unlock();
  }
  // try_lock(); on success critical section + unlock()
  bool try_cs(int k) {
    if (m.try_lock()) { enter("t", k); leave_and_unlock("t", k); return true; }
    rt::obs("t%d.fail", k);
    return false;
  }
  // try_lock() and keep the lock (released later by release())
  void try_hold(int k) {
    if (m.try_lock()) enter("t", k); else rt::obs("t%d.fail", k);
  }
  void release(int k) { leave_and_unlock("t", k); }
  void stop(int i) {
    stop_asked[i] = true;
    rt::obs("stop%d", i);
    src[i].request_stop();
    rt::obs("stop%d.end", i);
  }
  void run_all() { while (ctx.run_one()) {} }
  // at quiescence: every other thread has finished and the scheduler queue is empty.
  // The probe is a try_lock; the monitors run BEFORE the probe's own unlock (which would hand the
  // lock to a waiter that the mutex had forgotten).
  void quiesce() {
    bool free_ = m.try_lock();
    if (free_) enter("t", 9); else rt::obs("t9.fail");
    if (!free_ && in_cs == 0) rt::fail("lock leaked: mutex locked at quiescence but nobody holds it");
    for (int i = 0; i < NW; ++i)
      if (started[i] && completions[i] == 0)
        rt::fail(stop_asked[i] ? "lost waiter: a cancelled async_lock never completed"
                               : "lost waiter: a started, uncancelled async_lock never completed");
    if (free_) leave_and_unlock("t", 9);
  }
  template <typename F>
  int spawn(F f) {
    ++ctx.live;
    return rt::spawn([this, f] { f(); ctx.thread_done(); });
  }
};

template <typename Mutex>
void Rcv<Mutex>::set_value() && noexcept {
  World<Mutex>* ww = w; int ii = i;
  if (++ww->completions[ii] > 1) rt::fail("waiter completed twice");
  // FIFO (independent of the model): everybody who was already queued when start(ii) began, and was
  // not cancelled, must have been served before ii
  for (int j = 0; j < NW; ++j)
    if ((ww->pred[ii] >> j & 1) && !ww->stop_asked[j] && ww->completions[j] == 0)
      rt::fail("FIFO violated: a waiter that queued later was granted the lock first");
  ww->enter("w", ii);
  ww->leave_and_unlock("w", ii);
}
template <typename Mutex>
void Rcv<Mutex>::set_done() && noexcept {
  World<Mutex>* ww = w; int ii = i;
  if (++ww->completions[ii] > 1) rt::fail("waiter completed twice");
  if (!ww->stop_asked[ii]) rt::fail("waiter completed with done without a stop request");
  rt::obs("w%d.done", ii);
}

using W1 = World<unifex::v1::async_mutex>;
using W2 = World<unifex::v2::async_mutex>;

}  // namespace

// ================================================================== v1 (Proto/MutexV1.lean)
SCENARIO(v1_two) {
  W1 w;
  int t1 = w.spawn([&] { w.lock(0); });
  int t2 = w.spawn([&] { w.lock(1); });
  rt::join(t1); rt::join(t2);
  w.quiesce();
}

SCENARIO(v1_try) {
  W1 w;
  int t1 = w.spawn([&] { w.lock(0); });
  int t2 = w.spawn([&] { w.try_cs(2); });
  rt::join(t1); rt::join(t2);
  w.quiesce();
}

SCENARIO(v1_batch) {
  W1 w;
  int t1 = w.spawn([&] { w.lock(0); w.lock(1); });
  w.try_cs(8);
  rt::join(t1);
  w.quiesce();
}

SCENARIO(v1_three) {
  W1 w;
  int t1 = w.spawn([&] { w.lock(0); });
  int t2 = w.spawn([&] { w.lock(1); });
  int t3 = w.spawn([&] { w.lock(2); });
  rt::join(t1); rt::join(t2); rt::join(t3);
  w.quiesce();
}

// ================================================================== v2 (Proto/MutexV2.lean)
SCENARIO(v2_handoff) {
  W2 w;
  int t1 = w.spawn([&] { w.lock(0); });
  w.try_cs(0);
  w.run_all();
  rt::join(t1);
  w.quiesce();
}

// T0 holds the lock, T1 queues waiter 0, T0 unlocks once T1's start() returned (hand-off, the
// completion is re-scheduled on the deferred scheduler), T2 requests stop at ANY time.
SCENARIO(v2_handoff_stop) {
  W2 w;
  w.try_hold(0);
  int t1 = w.spawn([&] { w.lock(0); });
  int t2 = w.spawn([&] { w.stop(0); });
  rt::join(t1);
  w.release(0);
  w.run_all();
  rt::join(t2);
  w.quiesce();
}

// Regression scenario for DESIGN §8 #3 (repaired in /repo): hold; queue waiters 0 and 1; unlock
// (hand-off to 0, completion re-scheduled); only THEN one thread requests stop on waiter 0; drain.
// Waiter 0 must still get set_value (it owns the lock), unlock, and waiter 1 must be served.
// Before the repair every schedule of this scenario ended with "lock leaked".
SCENARIO(v2_leak_seq) {
  W2 w;
  w.try_hold(0);
  int t1 = w.spawn([&] { w.lock(0); w.lock(1); });
  rt::join(t1);
  w.release(0);
  int t2 = w.spawn([&] { w.stop(0); });
  rt::join(t2);
  w.run_all();
  w.quiesce();
}

SCENARIO(v2_race_inline) {
  W2 w(false);
  int t1 = w.spawn([&] { w.lock(0); });
  int t2 = w.spawn([&] { w.lock(1); });
  rt::join(t1); rt::join(t2);
  w.quiesce();
}

SCENARIO(v2_fifo3) {
  W2 w(false);
  w.try_hold(0);
  int t1 = w.spawn([&] { w.lock(0); w.lock(2); });
  int t2 = w.spawn([&] { w.lock(1); });
  rt::join(t1); rt::join(t2);
  w.release(0);
  w.quiesce();
}

SCENARIO(v2_inline_stop) {
  W2 w(false);
  int t1 = w.spawn([&] { w.lock(0); });
  int t2 = w.spawn([&] { w.stop(0); });
  rt::join(t1); rt::join(t2);
  w.quiesce();
}

SCENARIO(v2_cancel_first) {
  W2 w;
  w.try_hold(0);
  int t1 = w.spawn([&] { w.lock(0); w.lock(1); });
  rt::join(t1);
  int t2 = w.spawn([&] { w.stop(0); });
  w.release(0);
  w.run_all();
  rt::join(t2);
  w.quiesce();
}

// T0 holds, waiter 0 queues, T0 unlocks (hand-off, inline scheduler) while T2 probes with try_lock
SCENARIO(v2_handoff_try) {
  W2 w(false);
  w.try_hold(0);
  int t1 = w.spawn([&] { w.lock(0); });
  int t2 = w.spawn([&] { w.try_cs(2); });
  rt::join(t1);
  w.release(0);
  rt::join(t2);
  w.quiesce();
}

// The Dekker window of unlock() with a prober: T0 holds and unlocks while T1 starts waiter 0 (its
// push_back can land between T0's pop_front and T0's queue_.empty() re-check: T0 must re-acquire
// locked_ before handing over); when T1's start() has returned T2 probes with try_lock — possibly
// while waiter 0 is inside its critical section on T0's stack.
SCENARIO(v2_unlock_race_try) {
  W2 w(false);
  w.try_hold(0);
  int t2 = -1;
  int t1 = w.spawn([&] { w.lock(0); t2 = w.spawn([&] { w.try_cs(2); }); });
  w.release(0);
  rt::join(t1); rt::join(t2);
  w.quiesce();
}

SCENARIO(v2_race_try) {
  W2 w(false);
  int t1 = w.spawn([&] { w.lock(0); });
  int t2 = w.spawn([&] { w.try_cs(2); });
  rt::join(t1); rt::join(t2);
  w.quiesce();
}

RT_MAIN()
