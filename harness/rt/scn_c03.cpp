// scn_c03.cpp — C03 scenarios on the REAL inplace_stop_source / inplace_stop_callback.
// Each scenario mirrors one configuration of lean/UnifexModel/Proto/StopSource.lean (same name,
// same thread numbering: T0 = scenario body, T1/T2 = spawned in that order).
#include "rt_main.hpp"

#include <unifex/inplace_stop_token.hpp>

#include <optional>

namespace {

struct World;
struct CbFn {
  World* w; int i;
  void operator()() noexcept;
};
using Callback = unifex::inplace_stop_callback<CbFn>;

enum class Body { none, dereg_self, dereg_other };

// Storage for one registration with MANUAL lifetime (like unifex::manual_lifetime, which is what the library's own
// operation states use): a callback that is executed inline inside its constructor (registration after the stop
// request) and destroys its own registration there really runs ~inplace_stop_callback inside that execution.
// std::optional would make that reset() a no-op (the optional is not engaged until emplace returns) and hide
// everything the destructor does in this situation.
struct Slot {
  alignas(Callback) unsigned char buf[sizeof(Callback)];
  bool live = false, constructing = false, destroyed_in_ctor = false;
  Callback* ptr() { return reinterpret_cast<Callback*>(buf); }
  template <typename Tok, typename Fn>
  void emplace(Tok tok, Fn fn) {
    constructing = true; destroyed_in_ctor = false;
    ::new (static_cast<void*>(buf)) Callback(tok, fn);
    constructing = false;
    if (!destroyed_in_ctor) live = true;
  }
  void reset() {
    if (live) { live = false; ptr()->~Callback(); }
    else if (constructing && !destroyed_in_ctor) { destroyed_in_ctor = true; ptr()->~Callback(); }
  }
  ~Slot() { reset(); }
};

struct World {
  unifex::inplace_stop_source src;
  Slot cb[2];
  Body body[2] = {Body::none, Body::none};
  int runs[2] = {0, 0};
  int running_on[2] = {-1, -1};
  bool freed[2] = {false, false};
  int firsts = 0, stops_ended = 0;

  void reg(int i) {
    rt::obs("reg%d.begin", i);
    cb[i].emplace(src.get_token(), CbFn{this, i});
    rt::obs("reg%d.end", i);
  }
  void dereg(int i) {
    rt::obs("dereg%d.begin", i);
    cb[i].reset();
    // monitor (independent of the model): the callback is not running on another thread now
    if (running_on[i] >= 0 && running_on[i] != rt::self()) rt::fail("dereg%d returned while cb%d runs on T%d", i, i, running_on[i]);
    freed[i] = true;
    rt::obs("dereg%d.end", i);
  }
  void dereg_if_live(int i) { if (!freed[i]) dereg(i); }
  void stop() {
    rt::obs("stop.begin");
    bool already = src.request_stop();
    if (!already) { if (++firsts > 1) rt::fail("two request_stop() calls both observed that they were first"); }
    ++stops_ended;
    if (!src.stop_requested()) rt::fail("stop_requested() false after request_stop() returned");
    rt::obs("stop.end %s", already ? "already" : "first");
  }
  void finish() {
    if (stops_ended > 0 && firsts != 1) rt::fail("%d request_stop() calls returned, %d observed first", stops_ended, firsts);
  }
};

void CbFn::operator()() noexcept {
  if (w->freed[i]) rt::fail("cb%d invoked after its deregistration returned", i);
  if (++w->runs[i] > 1) rt::fail("cb%d invoked twice", i);
  w->running_on[i] = rt::self();
  rt::obs("cb%d.run", i);
  rt::point("in-callback");   // user code inside the callback takes time: let others run here
  // capture before a self-deregistration destroys *this
  World* ww = w; int ii = i;
  switch (ww->body[ii]) {
    case Body::none: break;
    case Body::dereg_self: ww->dereg(ii); break;
    case Body::dereg_other: if (!ww->freed[1 - ii]) ww->dereg(1 - ii); break;
  }
  ww->running_on[ii] = -1;
  rt::obs("cb%d.ret", ii);
}

}  // namespace

SCENARIO(race) {
  World w;
  int t1 = rt::spawn([&] { w.reg(0); w.dereg(0); });
  int t2 = rt::spawn([&] { w.stop(); });
  rt::join(t1); rt::join(t2);
  w.finish();
}

SCENARIO(two_stops) {
  World w;
  int t1 = rt::spawn([&] { w.stop(); });
  int t2 = rt::spawn([&] { w.stop(); });
  w.reg(0);
  rt::join(t1); rt::join(t2);
  w.dereg(0);
  w.finish();
}

SCENARIO(self_dereg) {
  World w; w.body[0] = Body::dereg_self;
  int t1 = rt::spawn([&] { w.reg(0); });
  int t2 = rt::spawn([&] { w.stop(); });
  rt::join(t1); rt::join(t2);
  w.dereg_if_live(0);
  w.finish();
}

SCENARIO(dereg_other) {
  World w; w.body[0] = Body::dereg_other;
  int t1 = rt::spawn([&] { w.reg(1); w.reg(0); });
  int t2 = rt::spawn([&] { w.stop(); });
  rt::join(t1); rt::join(t2);
  w.dereg_if_live(0); w.dereg_if_live(1);
  w.finish();
}

SCENARIO(reg_after_stop) {
  World w;
  int t1 = rt::spawn([&] { w.stop(); });
  int t2 = rt::spawn([&] { w.reg(0); w.dereg(0); });
  rt::join(t1); rt::join(t2);
  w.finish();
}

SCENARIO(two_owners) {
  World w;
  int t1 = rt::spawn([&] { w.reg(0); w.dereg(0); });
  int t2 = rt::spawn([&] { w.reg(1); });
  w.stop();
  rt::join(t1); rt::join(t2);
  w.dereg_if_live(1);
  w.finish();
}

SCENARIO(late_stop_dereg) {
  World w;
  w.reg(0);                       // registered before the two requesters exist
  int t1 = rt::spawn([&] { w.stop(); });
  int t2 = rt::spawn([&] { w.stop(); w.dereg(0); });
  rt::join(t1); rt::join(t2);
  w.finish();
}

SCENARIO(late_stop_self_dereg) {
  World w; w.body[0] = Body::dereg_self;
  w.reg(0);
  int t1 = rt::spawn([&] { w.stop(); });
  int t2 = rt::spawn([&] { w.stop(); });
  rt::join(t1); rt::join(t2);
  w.dereg_if_live(0);
  w.finish();
}

RT_MAIN()
