// scn_c07.cpp — C07 scenarios on the REAL timed_single_thread_context under the controlled
// scheduler and the virtual clock (its thread, mutex_, cv_.wait/wait_until and
// steady_clock::now() are all interposed by rt.cpp).
//
// Each scenario mirrors one configuration of lean/UnifexModel/Proto/TimerOp.lean (same name, same
// thread numbering: T0 = scenario body, T1 = the context's own thread (created by the context's
// constructor, first thread created), T2 = the canceller).  Time unit of the model = 1 ms of
// virtual time after `base` (the virtual time at which the scenario started).
//
// Monitors (independent of the Lean model): set_value before the due time; completion later than
// the due time although nothing but the clock was missing (lost wake-up); completed twice /
// never; set_done without a stop request; set_value although request_stop() had returned;
// a cancelled operation that waited for the clock; an operation overtaken by one that had to go
// later (due-time order, ties first-in first-out); the operation state is destroyed and poisoned
// inside the completion, so a reference retained by the context crashes the run.
//
// `seqdiff` is the sequential differential scenario: operation sequences given in the environment
// variable C07_SEQ are run against the real enqueue / cancel / dequeue code on one schedule in
// which T0 never yields to the timer thread except by sleeping; the completion order is compared
// with Proto/TimerQueue by tools/checks/c07.py.
#include "rt_main.hpp"

#include <unifex/get_stop_token.hpp>
#include <unifex/inplace_stop_token.hpp>
#include <unifex/receiver_concepts.hpp>
#include <unifex/scheduler_concepts.hpp>
#include <unifex/sender_concepts.hpp>
#include <unifex/timed_single_thread_context.hpp>

#include <pthread.h>
#include <time.h>

#include <chrono>
#include <cstring>
#include <new>
#include <optional>
#include <string>
#include <vector>

namespace {

using Clock = std::chrono::steady_clock;
constexpr int64_t UNIT = 1'000'000;   // 1 ms of virtual time = one model time unit
constexpr int MAXN = 16;

struct World;

struct Rcv {
  World* w;
  int i;
  void set_value() && noexcept;
  void set_done() && noexcept;
  template <class E>
  void set_error(E&&) && noexcept;
  friend unifex::inplace_stop_token tag_invoke(unifex::tag_t<unifex::get_stop_token>, const Rcv& r) noexcept;
};

using Sched = decltype(std::declval<unifex::timed_single_thread_context&>().get_scheduler());
using AtSender = decltype(unifex::schedule_at(std::declval<Sched&>(), std::declval<Clock::time_point>()));
using AtOp = decltype(unifex::connect(std::declval<AtSender>(), std::declval<Rcv>()));
using AfterSender = decltype(unifex::schedule_after(std::declval<Sched&>(), std::declval<std::chrono::nanoseconds>()));
using AfterOp = decltype(unifex::connect(std::declval<AfterSender>(), std::declval<Rcv>()));

struct World {
  std::optional<unifex::timed_single_thread_context> ctx;
  int64_t base;              // virtual time at scenario start
  int64_t half = UNIT;       // time scale of the observable time stamps
  int n = 0;
  unifex::inplace_stop_source src[MAXN];
  alignas(AtOp) unsigned char at_store[MAXN][sizeof(AtOp)];
  alignas(AfterOp) unsigned char after_store[MAXN][sizeof(AfterOp)];
  int kind[MAXN] = {};       // 1 = at, 2 = after
  // ---- monitor state (plain memory: exactly one managed thread runs at a time)
  long seq = 0;              // harness event counter
  int64_t due[MAXN] = {};    // due time given by the client (ns, absolute)
  int completions[MAXN] = {};
  int chan[MAXN] = {};       // 1 value 2 done
  long startBeginSeq[MAXN], startEndSeq[MAXN], stopBeginSeq[MAXN], stopEndSeq[MAXN], doneSeq[MAXN];
  int64_t startEndAt[MAXN] = {}, stopBeginAt[MAXN] = {}, stopEndAt[MAXN] = {};
  long prevCompletionEndSeq = -1;
  int ndone = 0;
  pthread_mutex_t hm = PTHREAD_MUTEX_INITIALIZER;
  pthread_cond_t hcv = PTHREAD_COND_INITIALIZER;
  bool quiet = false;        // seqdiff: only the completion order is printed
  std::vector<int> order;

  World() {
    base = rt::vnow_ns();
    for (int i = 0; i < MAXN; ++i) startBeginSeq[i] = startEndSeq[i] = stopBeginSeq[i] = stopEndSeq[i] = doneSeq[i] = -1;
    ctx.emplace();   // the context's thread is the first thread created: T1
  }
  int64_t rel(int64_t t) const { return (t - base) / half; }

  void start_at(int i, int64_t due_ns) {
    if (i >= n) n = i + 1;
    due[i] = due_ns;
    startBeginSeq[i] = ++seq;
    kind[i] = 1;
    auto* op = ::new (static_cast<void*>(at_store[i])) AtOp(unifex::connect(
        unifex::schedule_at(ctx->get_scheduler(), Clock::time_point(std::chrono::nanoseconds(due_ns))), Rcv{this, i}));
    unifex::start(*op);
    startEndSeq[i] = ++seq;
    startEndAt[i] = rt::vnow_ns();
  }
  void start_after(int i, int64_t delay_ns) {
    if (i >= n) n = i + 1;
    due[i] = rt::vnow_ns() + delay_ns;   // the operation reads the same virtual clock in start()
    startBeginSeq[i] = ++seq;
    kind[i] = 2;
    auto* op = ::new (static_cast<void*>(after_store[i])) AfterOp(unifex::connect(
        unifex::schedule_after(ctx->get_scheduler(), std::chrono::nanoseconds(delay_ns)), Rcv{this, i}));
    unifex::start(*op);
    startEndSeq[i] = ++seq;
    startEndAt[i] = rt::vnow_ns();
  }
  void stop(int i) {
    stopBeginSeq[i] = ++seq;
    stopBeginAt[i] = rt::vnow_ns();
    src[i].request_stop();
    stopEndSeq[i] = ++seq;
    stopEndAt[i] = rt::vnow_ns();
    if (!quiet) rt::obs("stop%d.end", i);
  }
  void wait_done() {
    pthread_mutex_lock(&hm);
    while (ndone < n) pthread_cond_wait(&hcv, &hm);
    pthread_mutex_unlock(&hm);
    for (int i = 0; i < n; ++i)
      if (completions[i] != 1) rt::fail("op%d completed %d times", i, completions[i]);
  }
  void shutdown() {
    if (!quiet) rt::obs("shutdown.begin");
    ctx.reset();
    if (!quiet) rt::obs("shutdown.end");
  }

  // effective due time bounds of an item at the moment `x` is delivered
  int64_t due_upper(int y, long before_seq) const {
    // the stop callback rewrites the due time to its `now` (<= the time request_stop returned)
    if (stopEndSeq[y] >= 0 && stopEndSeq[y] < before_seq && stopEndAt[y] < due[y]) return stopEndAt[y];
    return due[y];
  }
  int64_t due_lower(int x) const {
    if (stopBeginSeq[x] >= 0 && stopBeginAt[x] < due[x]) return stopBeginAt[x];
    return due[x];
  }

  void complete(int i, int ch) {
    const int64_t now = rt::vnow_ns();
    const long myseq = ++seq;
    if (++completions[i] > 1) rt::fail("op%d completed twice", i);
    chan[i] = ch;
    doneSeq[i] = myseq;
    // ---- never early
    if (ch == 1 && now < due[i]) rt::fail("op%d set_value EARLY: clock %lld < due %lld", i, (long long)rel(now), (long long)rel(due[i]));
    // ---- channel vs stop request
    if (ch == 2 && stopBeginSeq[i] < 0) rt::fail("op%d set_done without a stop request", i);
    if (ch == 1 && stopEndSeq[i] >= 0) rt::fail("op%d set_value although request_stop() had returned", i);
    // ---- lost wake-up: under the virtual clock (time only advances to the earliest deadline of a
    // waiting thread) a value completion happens exactly at max(due, time start() returned)
    if (ch == 1 && startEndSeq[i] >= 0) {
      int64_t expect = std::max(due[i], startEndAt[i]);
      if (now > expect) rt::fail("op%d completed LATE at %lld, due %lld (lost wake-up)", i, (long long)rel(now), (long long)rel(due[i]));
    }
    // ---- cancel promptly: once request_stop() has returned and start() has returned, the
    // completion must not wait for the clock
    if (stopEndSeq[i] >= 0 && startEndSeq[i] >= 0) {
      int64_t armed = std::max(stopEndAt[i], startEndAt[i]);
      if (armed < due[i] && now > armed)
        rt::fail("cancelled op%d WAITED for the clock: stop returned at %lld, due %lld, completed at %lld", i,
                 (long long)rel(armed), (long long)rel(due[i]), (long long)rel(now));
    }
    // ---- due-time order (ties first-in first-out): an item y that was certainly queued during the
    // whole interval in which i can have been dequeued, and had to go first, is still pending
    const long p0 = std::max(prevCompletionEndSeq, startBeginSeq[i]);
    for (int y = 0; y < n; ++y) {
      if (y == i || completions[y] != 0 || startEndSeq[y] < 0 || startEndSeq[y] >= p0) continue;
      const bool yStopInFlight = stopBeginSeq[y] >= 0 && (stopEndSeq[y] < 0 || stopEndSeq[y] >= p0);
      if (yStopInFlight) continue;   // transiently unlinked by its stop callback
      const int64_t yu = due_upper(y, p0), xl = due_lower(i);
      if (yu < xl)
        rt::fail("op%d (due %lld) completed before op%d (due %lld) which was queued", i, (long long)rel(xl), y, (long long)rel(yu));
      if (yu == xl && stopBeginSeq[y] < 0 && stopBeginSeq[i] < 0 && startEndSeq[y] < startBeginSeq[i])
        rt::fail("op%d completed before op%d: equal due times, op%d was submitted first (ties must be FIFO)", i, y, y);
    }
    if (quiet) order.push_back(i);
    else rt::obs("%s%d@%lld", ch == 1 ? "value" : "done", i, (long long)rel(now));
    // ---- the receiver owns the operation state: destroy and poison it here; a reference retained
    // by the context (still linked, callback still registered) now reads 0xDD garbage
    if (kind[i] == 1) { reinterpret_cast<AtOp*>(at_store[i])->~AtOp(); std::memset(at_store[i], 0xDD, sizeof(AtOp)); }
    else { reinterpret_cast<AfterOp*>(after_store[i])->~AfterOp(); std::memset(after_store[i], 0xDD, sizeof(AfterOp)); }
    prevCompletionEndSeq = ++seq;
    ++ndone;
    pthread_cond_signal(&hcv);   // a scheduling point inside the receiver
  }
};

void Rcv::set_value() && noexcept { w->complete(i, 1); }
void Rcv::set_done() && noexcept { w->complete(i, 2); }
template <class E>
void Rcv::set_error(E&&) && noexcept { rt::fail("op%d completed with set_error", i); w->complete(i, 3); }
unifex::inplace_stop_token tag_invoke(unifex::tag_t<unifex::get_stop_token>, const Rcv& r) noexcept {
  return r.w->src[r.i].get_token();
}

}  // namespace

// ---- the configurations of Proto/TimerOp.lean ---------------------------------------------------

SCENARIO(one_cancel) {
  World w;
  int t2 = rt::spawn([&] { w.stop(0); });
  w.start_at(0, w.base + 1 * UNIT);
  w.wait_done();
  w.shutdown();
  rt::join(t2);
}

SCENARIO(two_order) {
  World w;
  w.start_at(0, w.base + 2 * UNIT);
  w.start_at(1, w.base + 1 * UNIT);
  w.wait_done();
  w.shutdown();
}

SCENARIO(two_equal) {
  World w;
  w.start_at(0, w.base + 1 * UNIT);
  w.start_at(1, w.base + 1 * UNIT);
  w.wait_done();
  w.shutdown();
}

SCENARIO(stop_before_start) {
  World w;
  w.stop(0);
  w.start_at(0, w.base + 1 * UNIT);
  w.wait_done();
  w.shutdown();
}

SCENARIO(two_cancel) {
  World w;
  int t2 = rt::spawn([&] { w.stop(1); });
  w.start_at(0, w.base + 1 * UNIT);
  w.start_at(1, w.base + 1 * UNIT);
  w.wait_done();
  w.shutdown();
  rt::join(t2);
}

// ---- scenarios without a Lean configuration (monitors only) -------------------------------------

// schedule_after (the operation computes its due time itself), three timers, one cancelled remotely
SCENARIO(after_three) {
  World w;
  int t2 = rt::spawn([&] { w.stop(2); });
  w.start_after(0, 2 * UNIT);
  w.start_after(1, 1 * UNIT);
  w.start_after(2, 3 * UNIT);
  w.wait_done();
  w.shutdown();
  rt::join(t2);
}

// a due time in the past and one now: both run at once, in due-time order
SCENARIO(past_due) {
  World w;
  w.start_at(0, w.base + 0 * UNIT);
  w.start_at(1, w.base - 5 * UNIT);
  w.start_at(2, w.base + 1 * UNIT);
  w.wait_done();
  w.shutdown();
}

// three equal due times: ties first-in first-out needs at least three items to be visible in the
// sorted-list walk (the walk compares with the SUCCESSOR of the current node)
SCENARIO(three_equal) {
  World w;
  w.start_at(0, w.base + 1 * UNIT);
  w.start_at(1, w.base + 1 * UNIT);
  w.start_at(2, w.base + 1 * UNIT);
  w.wait_done();
  w.shutdown();
}

// ---- sequential differential scenario -----------------------------------------------------------
// C07_SEQ = sequences separated by '/', each a list of ops separated by ';':
//   i <id> <due>   start a schedule_at operation due at base + due half-units (due even, may be < 0)
//   a <id> <d>     start a schedule_after operation with delay d half-units
//   c <id>         request_stop on it (from T0)
//   t <x>          sleep until base + x half-units (x odd: never equal to a due time)
// After each sequence T0 waits for all completions; prints `seq <k> : id id id …`.
SCENARIO(seqdiff) {
  const char* env = getenv("C07_SEQ");
  std::string all = env ? env : "";
  size_t pos = 0; int k = 0;
  while (pos <= all.size()) {
    size_t q = all.find('/', pos);
    if (q == std::string::npos) q = all.size();
    std::string sq = all.substr(pos, q - pos);
    pos = q + 1;
    if (sq.empty()) continue;
    World w; w.quiet = true; w.half = UNIT / 2;
    size_t p = 0;
    while (p <= sq.size()) {
      size_t e = sq.find(';', p);
      if (e == std::string::npos) e = sq.size();
      std::string op = sq.substr(p, e - p);
      p = e + 1;
      char c = 0; long a = 0, b = 0;
      int got = sscanf(op.c_str(), " %c %ld %ld", &c, &a, &b);
      if (got < 2) continue;
      if (c == 'i') w.start_at((int)a, w.base + b * (UNIT / 2));
      else if (c == 'a') w.start_after((int)a, b * (UNIT / 2));
      else if (c == 'c') w.stop((int)a);
      else if (c == 't') {
        int64_t target = w.base + a * (UNIT / 2), now = rt::vnow_ns();
        if (target > now) { struct timespec ts; ts.tv_sec = (target - now) / 1'000'000'000; ts.tv_nsec = (target - now) % 1'000'000'000; nanosleep(&ts, nullptr); }
      }
    }
    w.wait_done();
    std::string line = "seq " + std::to_string(k++) + " :";
    for (int id : w.order) line += " " + std::to_string(id);
    rt::obs("%s", line.c_str());
    w.ctx.reset();
  }
}

RT_MAIN()
