// diff_c17.cpp — C17 plain (uncontrolled) harness on the REAL headers: reports what the real
// find_if / bulk_schedule / bulk_transform / bulk_join / indexed_for do, one answer line per
// request line on stdin.  Built with -fsanitize=address,undefined.
//
//   findif <policy: seq|par> <ctx: loop|thread|pool> <d> <fence> <k> <hit_1> ... <hit_k>
//        find_if over the counting range [0,d) (instrumented random-access iterator: no memory
//        behind it, so evaluations outside the range are observable and harmless); the predicate
//        records every index it is evaluated on and returns true on the listed hit indices and on
//        every index >= fence (the fence bounds a runaway `it != chunk_end` scan).
//     -> res=<index returned> exp=<std::find_if on [0,d)> oob=<#evaluations outside [0,d)>
//        first_oob=<index|-1> nevals=<n> evals=<runs a-b,c-d,… of consecutive indices, in evaluation order>
//   guard <d>        parallel find_if over REAL memory: d ints placed at the very end of an mmap'd
//                    region followed by a PROT_NONE page; predicate always false.
//     -> guard ok res=<index>            (no fault)
//        guard SEGV index=<element index of the faulting address relative to begin>
//   bulk <n> <mode: nostop|stop> <policy: seq|unseq|par|par_unseq> <stop_at>
//        connect(bulk_schedule(inline_scheduler, n), recording many-receiver), start.
//        mode stop: the receiver answers get_stop_token with an inplace_stop_token; stop is requested
//        before start if stop_at == 0, else from inside the stop_at-th set_next call (1-based);
//        stop_at > n: never.  mode nostop: unstoppable_token (the unchunked loop).
//     -> term=<value|done|error|none> n=<#set_next> idx=<runs> after_terminal=<#set_next after terminal> overlap=<0|1>
//   bulkjoin <n> <policy> <stop_at>   the find_if composition:
//        sync_wait(let_value_with_stop_source(bulk_join(bulk_transform(bulk_schedule(single_thread_context, n), f, policy))))
//     -> same answer format
//   ifor <seq|par> <n>   indexed_for over iota(n) -> n=<#calls> idx=<runs>
//   policy <receiver: seq|unseq|par|par_unseq|join|default> <P1> [<P2>]
//        probe_source | bulk_transform(f1, P1) [| bulk_transform(f2, P2)] | receiver
//        probe_source is a many-sender that HONOURS the policy its receiver advertises (decltype(get_execution_policy(r))):
//        if the policy permits parallel execution it delivers the two halves of the index space from two threads at
//        once, otherwise sequentially on the calling thread.  f1 / f2 carry overlap detectors (f1 holds the first index
//        of each half for a moment so that two delivering threads are certain to overlap).
//     -> seen=<policy the source saw> threads=<1|2> calls=<#f1 calls> overlap1=<max concurrent f1> overlap2=<max concurrent f2|0> term=<value|done|error>
//   const             -> chunk=<bulk_cancellation_chunk_size>
#include <unifex/bulk_join.hpp>
#include <unifex/bulk_schedule.hpp>
#include <unifex/bulk_transform.hpp>
#include <unifex/find_if.hpp>
#include <unifex/indexed_for.hpp>
#include <unifex/inline_scheduler.hpp>
#include <unifex/inplace_stop_token.hpp>
#include <unifex/just.hpp>
#include <unifex/let_value_with_stop_source.hpp>
#include <unifex/on.hpp>
#include <unifex/single_thread_context.hpp>
#include <unifex/static_thread_pool.hpp>
#include <unifex/sync_wait.hpp>
#include <unifex/then.hpp>

#include <algorithm>
#include <atomic>
#include <chrono>
#include <thread>
#include <csignal>
#include <cstdio>
#include <cstdlib>
#include <cstring>
#include <iostream>
#include <iterator>
#include <mutex>
#include <optional>
#include <set>
#include <sstream>
#include <string>
#include <sys/mman.h>
#include <sys/wait.h>
#include <unistd.h>
#include <vector>

namespace execution {
class sequenced_policy {};
class parallel_policy {};
inline constexpr sequenced_policy seq{};
inline constexpr parallel_policy par{};
}  // namespace execution

namespace {

// ---------------------------------------------------------------- helpers
std::string runs(const std::vector<long>& v) {
  std::string out;
  size_t i = 0;
  while (i < v.size()) {
    size_t j = i;
    while (j + 1 < v.size() && v[j + 1] == v[j] + 1) ++j;
    if (!out.empty()) out += ",";
    out += std::to_string(v[i]) + "-" + std::to_string(v[j]);
    i = j + 1;
  }
  return out.empty() ? "-" : out;
}

// random access iterator over the integers: *it == index
struct CountIt {
  using value_type = long;
  using reference = long;
  using pointer = const long*;
  using difference_type = std::ptrdiff_t;
  using iterator_category = std::random_access_iterator_tag;
  long i = 0;
  long operator*() const { return i; }
  long operator[](difference_type n) const { return i + n; }
  CountIt& operator++() { ++i; return *this; }
  CountIt operator++(int) { auto c = *this; ++i; return c; }
  CountIt& operator--() { --i; return *this; }
  CountIt operator--(int) { auto c = *this; --i; return c; }
  CountIt& operator+=(difference_type n) { i += n; return *this; }
  CountIt& operator-=(difference_type n) { i -= n; return *this; }
  friend CountIt operator+(CountIt a, difference_type n) { a.i += n; return a; }
  friend CountIt operator+(difference_type n, CountIt a) { a.i += n; return a; }
  friend CountIt operator-(CountIt a, difference_type n) { a.i -= n; return a; }
  friend difference_type operator-(CountIt a, CountIt b) { return a.i - b.i; }
  friend bool operator==(CountIt a, CountIt b) { return a.i == b.i; }
  friend bool operator!=(CountIt a, CountIt b) { return a.i != b.i; }
  friend bool operator<(CountIt a, CountIt b) { return a.i < b.i; }
  friend bool operator>(CountIt a, CountIt b) { return a.i > b.i; }
  friend bool operator<=(CountIt a, CountIt b) { return a.i <= b.i; }
  friend bool operator>=(CountIt a, CountIt b) { return a.i >= b.i; }
};

struct Pred {
  std::vector<long>* evals;
  std::mutex* mu;
  const std::set<long>* hits;
  long fence;
  bool operator()(long v) const noexcept {
    {
      std::lock_guard<std::mutex> g(*mu);
      evals->push_back(v);
    }
    return v >= fence || hits->count(v) != 0;
  }
};

template <typename Policy>
long run_findif(const std::string& ctx, long d, Pred p, Policy pol) {
  using namespace unifex;
  CountIt b{0}, e{d};
  auto snd = then(find_if(just(b, e), p, pol), [](CountIt it) noexcept { return it.i; });
  if (ctx == "loop") {
    return *sync_wait(std::move(snd));
  } else if (ctx == "thread") {
    single_thread_context c;
    return *sync_wait(on(c.get_scheduler(), std::move(snd)));
  } else {
    static_thread_pool c(2);
    return *sync_wait(on(c.get_scheduler(), std::move(snd)));
  }
}

std::string do_findif(std::istringstream& in) {
  std::string pol, ctx;
  long d, fence, k;
  in >> pol >> ctx >> d >> fence >> k;
  std::set<long> hits;
  for (long j = 0; j < k; ++j) { long h; in >> h; hits.insert(h); }
  if (!in || d < 0) return "bad-request";
  std::vector<long> evals;
  std::mutex mu;
  Pred p{&evals, &mu, &hits, fence};
  long res = pol == "seq" ? run_findif(ctx, d, p, unifex::seq) : run_findif(ctx, d, p, unifex::par);
  // independent oracle
  long exp = d;
  for (long h : hits) if (h >= 0 && h < d) { exp = h; break; }
  if (fence < exp) exp = fence < 0 ? 0 : fence;
  long oob = 0, first = -1;
  for (long v : evals) if (v < 0 || v >= d) { if (!oob) first = v; ++oob; }
  std::ostringstream o;
  o << "res=" << res << " exp=" << exp << " oob=" << oob << " first_oob=" << first << " nevals=" << evals.size() << " evals=" << runs(evals);
  return o.str();
}

// ---------------------------------------------------------------- guard-paged real memory
int* g_base = nullptr;
void on_segv(int, siginfo_t* si, void*) {
  char buf[128];
  long idx = ((char*)si->si_addr - (char*)g_base) / (long)sizeof(int);
  int n = snprintf(buf, sizeof buf, "guard SEGV index=%ld\n", idx);
  (void)!write(1, buf, n);
  _exit(0);
}

std::string do_guard(std::istringstream& in) {
  long d;
  in >> d;
  if (!in || d < 0) return "bad-request";
  fflush(stdout);
  pid_t pid = fork();
  if (pid == 0) {
    long page = sysconf(_SC_PAGESIZE);
    size_t bytes = (size_t)d * sizeof(int);
    size_t data_pages = (bytes + page - 1) / page + 1;
    char* m = (char*)mmap(nullptr, (data_pages + 1) * page, PROT_READ | PROT_WRITE, MAP_PRIVATE | MAP_ANONYMOUS, -1, 0);
    if (m == MAP_FAILED) { printf("guard mmap-failed\n"); fflush(stdout); _exit(0); }
    mprotect(m + data_pages * page, page, PROT_NONE);
    int* end = (int*)(m + data_pages * page);
    int* begin = end - d;
    g_base = begin;
    for (long i = 0; i < d; ++i) begin[i] = 1;
    struct sigaction sa;
    memset(&sa, 0, sizeof sa);
    sa.sa_sigaction = on_segv;
    sa.sa_flags = SA_SIGINFO;
    sigaction(SIGSEGV, &sa, nullptr);
    sigaction(SIGBUS, &sa, nullptr);
    using namespace unifex;
    auto r = sync_wait(then(
        find_if(just(begin, end), [](const int& v) noexcept { return v == 0; }, unifex::par),
        [begin](int* it) noexcept { return (long)(it - begin); }));
    printf("guard ok res=%ld\n", *r);
    fflush(stdout);
    _exit(0);
  }
  int st = 0;
  waitpid(pid, &st, 0);
  if (WIFSIGNALED(st)) return "guard killed signal=" + std::to_string(WTERMSIG(st));
  return "";   // the child printed the answer line
}

// ---------------------------------------------------------------- bulk
struct Rec {
  std::vector<long> idx;
  std::string term = "none";
  long after_terminal = 0;
  int in_next = 0;
  bool overlap = false;
  long stop_at = -1;   // 1-based set_next call that requests stop
  unifex::inplace_stop_source* src = nullptr;
  void next(long i) {
    if (in_next++) overlap = true;
    if (term != "none") ++after_terminal;
    idx.push_back(i);
    if (src && (long)idx.size() == stop_at) src->request_stop();
    --in_next;
  }
  void terminal(const char* t) {
    if (in_next) overlap = true;
    if (term != "none") { term += std::string("+") + t; } else term = t;
  }
  std::string line() const {
    std::ostringstream o;
    o << "term=" << term << " n=" << idx.size() << " idx=" << runs(idx) << " after_terminal=" << after_terminal << " overlap=" << (overlap ? 1 : 0);
    return o.str();
  }
};

template <typename Policy, bool Stoppable>
struct ManyReceiver {
  Rec* rec;
  void set_next(std::size_t i) & noexcept { rec->next((long)i); }
  void set_value() && noexcept { rec->terminal("value"); }
  void set_done() && noexcept { rec->terminal("done"); }
  template <typename E>
  void set_error(E&&) && noexcept { rec->terminal("error"); }
  friend Policy tag_invoke(unifex::tag_t<unifex::get_execution_policy>, const ManyReceiver&) noexcept { return {}; }
  template <bool S = Stoppable, std::enable_if_t<S, int> = 0>
  friend unifex::inplace_stop_token tag_invoke(unifex::tag_t<unifex::get_stop_token>, const ManyReceiver& r) noexcept {
    return r.rec->src->get_token();
  }
};

template <typename Policy, bool Stoppable>
void run_bulk(std::size_t n, Rec& rec) {
  auto op = unifex::connect(unifex::bulk_schedule(unifex::inline_scheduler{}, n), ManyReceiver<Policy, Stoppable>{&rec});
  unifex::start(op);
}

template <bool Stoppable>
void run_bulk_p(const std::string& pol, std::size_t n, Rec& rec) {
  if (pol == "seq") run_bulk<unifex::sequenced_policy, Stoppable>(n, rec);
  else if (pol == "unseq") run_bulk<unifex::unsequenced_policy, Stoppable>(n, rec);
  else if (pol == "par") run_bulk<unifex::parallel_policy, Stoppable>(n, rec);
  else run_bulk<unifex::parallel_unsequenced_policy, Stoppable>(n, rec);
}

std::string do_bulk(std::istringstream& in) {
  long n, stop_at;
  std::string mode, pol;
  in >> n >> mode >> pol >> stop_at;
  if (!in || n < 0) return "bad-request";
  Rec rec;
  unifex::inplace_stop_source src;
  if (mode == "stop") {
    rec.src = &src;
    rec.stop_at = stop_at;
    if (stop_at == 0) src.request_stop();
    run_bulk_p<true>(pol, (std::size_t)n, rec);
  } else {
    run_bulk_p<false>(pol, (std::size_t)n, rec);
  }
  return rec.line();
}

template <typename Policy>
void run_bulkjoin(std::size_t n, long stop_at, Rec& rec, Policy pol) {
  unifex::single_thread_context ctx;
  auto sched = ctx.get_scheduler();
  auto r = unifex::sync_wait(unifex::let_value_with_stop_source([&](unifex::inplace_stop_source& src) {
    rec.src = &src;
    rec.stop_at = stop_at;
    if (stop_at == 0) src.request_stop();
    return unifex::bulk_join(unifex::bulk_transform(
        unifex::bulk_schedule(sched, n), [&rec](std::size_t i) noexcept { rec.next((long)i); }, pol));
  }));
  rec.terminal(r.has_value() ? "value" : "done");
}

std::string do_bulkjoin(std::istringstream& in) {
  long n, stop_at;
  std::string pol;
  in >> n >> pol >> stop_at;
  if (!in || n < 0) return "bad-request";
  Rec rec;
  if (pol == "seq") run_bulkjoin((std::size_t)n, stop_at, rec, unifex::seq);
  else if (pol == "unseq") run_bulkjoin((std::size_t)n, stop_at, rec, unifex::unseq);
  else if (pol == "par") run_bulkjoin((std::size_t)n, stop_at, rec, unifex::par);
  else run_bulkjoin((std::size_t)n, stop_at, rec, unifex::par_unseq);
  return rec.line();
}


// ---------------------------------------------------------------- execution-policy probe
template <typename P>
const char* policy_name() {
  if (std::is_same_v<P, unifex::sequenced_policy>) return "seq";
  if (std::is_same_v<P, unifex::unsequenced_policy>) return "unseq";
  if (std::is_same_v<P, unifex::parallel_policy>) return "par";
  if (std::is_same_v<P, unifex::parallel_unsequenced_policy>) return "par_unseq";
  return "?";
}

struct ProbeState {
  const char* seen = "?";
  std::atomic<int> threads{0};
  std::atomic<int> in1{0}, max1{0}, in2{0}, max2{0}, calls{0};
  std::string term = "none";
  static void enter(std::atomic<int>& in, std::atomic<int>& mx) {
    int c = ++in;
    int m = mx.load();
    while (c > m && !mx.compare_exchange_weak(m, c)) {}
  }
};

constexpr std::size_t probe_n = 4;

template <typename Receiver>
struct probe_op {
  Receiver r;
  ProbeState* st;
  void start() noexcept {
    using policy_t = unifex::remove_cvref_t<decltype(unifex::get_execution_policy(r))>;
    st->seen = policy_name<policy_t>();
    constexpr bool parallel_ok = std::is_same_v<policy_t, unifex::parallel_policy> || std::is_same_v<policy_t, unifex::parallel_unsequenced_policy>;
    if constexpr (parallel_ok) {
      st->threads = 2;
      std::thread a([&] { for (std::size_t i = 0; i < probe_n / 2; ++i) unifex::set_next(r, std::size_t(i)); });
      std::thread b([&] { for (std::size_t i = probe_n / 2; i < probe_n; ++i) unifex::set_next(r, std::size_t(i)); });
      a.join();
      b.join();
    } else {
      st->threads = 1;
      for (std::size_t i = 0; i < probe_n; ++i) unifex::set_next(r, std::size_t(i));
    }
    unifex::set_value(std::move(r));
  }
};

struct probe_source {
  ProbeState* st;
  template <template <typename...> class Variant, template <typename...> class Tuple>
  using value_types = Variant<Tuple<>>;
  template <template <typename...> class Variant, template <typename...> class Tuple>
  using next_types = Variant<Tuple<std::size_t>>;
  template <template <typename...> class Variant>
  using error_types = Variant<std::exception_ptr>;
  static constexpr bool sends_done = false;
  template <typename Receiver>
  friend probe_op<unifex::remove_cvref_t<Receiver>> tag_invoke(unifex::tag_t<unifex::connect>, probe_source s, Receiver&& r) {
    return probe_op<unifex::remove_cvref_t<Receiver>>{(Receiver&&)r, s.st};
  }
};

// terminal many-receivers: one advertising a given policy, one without any customisation
template <typename Policy>
struct PolRecv {
  ProbeState* st;
  template <typename... A>
  void set_next(A&&...) & noexcept {}
  void set_value() && noexcept { st->term = "value"; }
  void set_done() && noexcept { st->term = "done"; }
  template <typename E>
  void set_error(E&&) && noexcept { st->term = "error"; }
  friend Policy tag_invoke(unifex::tag_t<unifex::get_execution_policy>, const PolRecv&) noexcept { return {}; }
};
struct PlainRecv {
  ProbeState* st;
  template <typename... A>
  void set_next(A&&...) & noexcept {}
  void set_value() && noexcept { st->term = "value"; }
  void set_done() && noexcept { st->term = "done"; }
  template <typename E>
  void set_error(E&&) && noexcept { st->term = "error"; }
};

template <typename F>
bool with_policy(const std::string& name, F&& f) {
  if (name == "seq") f(unifex::seq);
  else if (name == "unseq") f(unifex::unseq);
  else if (name == "par") f(unifex::par);
  else if (name == "par_unseq") f(unifex::par_unseq);
  else return false;
  return true;
}

template <typename Sender>
void run_probe(const std::string& recv, Sender&& snd, ProbeState& st) {
  auto direct = [&](auto r) {
    auto op = unifex::connect((Sender&&)snd, std::move(r));
    unifex::start(op);
  };
  if (recv == "join") {
    auto r = unifex::sync_wait(unifex::bulk_join((Sender&&)snd));
    st.term = r.has_value() ? "value" : "done";
  } else if (recv == "default") {
    direct(PlainRecv{&st});
  } else {
    with_policy(recv, [&](auto p) { direct(PolRecv<decltype(p)>{&st}); });
  }
}

std::string do_policy(std::istringstream& in) {
  std::string recv, p1, p2;
  in >> recv >> p1;
  if (!in) return "bad-request";
  in >> p2;
  ProbeState st;
  auto f1 = [&st](std::size_t i) noexcept {
    ProbeState::enter(st.in1, st.max1);
    ++st.calls;
    if (st.threads == 2 && (i == 0 || i == probe_n / 2)) {
      // hold the first index of each half until the other half has arrived (or 20 ms): two threads delivering
      // concurrently are then certain to overlap
      for (int k = 0; k < 100 && st.in1.load() < 2; ++k) std::this_thread::sleep_for(std::chrono::microseconds(500));
    }
    --st.in1;
  };
  auto f2 = [&st]() noexcept {
    ProbeState::enter(st.in2, st.max2);
    if (st.threads == 2 && st.max2.load() < 2)
      for (int k = 0; k < 40 && st.in2.load() < 2; ++k) std::this_thread::sleep_for(std::chrono::microseconds(500));
    --st.in2;
  };
  bool ok = with_policy(p1, [&](auto P1) {
    if (p2.empty()) {
      run_probe(recv, unifex::bulk_transform(probe_source{&st}, f1, P1), st);
    } else {
      ok = with_policy(p2, [&](auto P2) {
        run_probe(recv, unifex::bulk_transform(unifex::bulk_transform(probe_source{&st}, f1, P1), f2, P2), st);
      });
    }
  });
  if (!ok) return "bad-request";
  std::ostringstream o;
  o << "seen=" << st.seen << " threads=" << st.threads.load() << " calls=" << st.calls.load() << " overlap1=" << st.max1.load() << " overlap2=" << st.max2.load() << " term=" << st.term;
  return o.str();
}

// ---------------------------------------------------------------- indexed_for
struct int_iterator {
  using value_type = int;
  using reference = value_type&;
  using difference_type = size_t;
  using pointer = value_type*;
  using iterator_category = std::random_access_iterator_tag;
  int operator[](size_t offset) const { return base_ + static_cast<int>(offset); }
  int operator*() const { return base_; }
  int_iterator operator++() { ++base_; return *this; }
  bool operator!=(const int_iterator& rhs) const { return base_ != rhs.base_; }
  int base_;
};
struct iota_view {
  int size_;
  using iterator = int_iterator;
  int_iterator begin() { return int_iterator{0}; }
  int_iterator end() { return int_iterator{size_}; }
  size_t size() const { return size_; }
};

std::string do_ifor(std::istringstream& in) {
  std::string pol;
  long n;
  in >> pol >> n;
  if (!in || n < 0) return "bad-request";
  std::vector<long> idx;
  auto f = [&idx](int i, int&) noexcept { idx.push_back(i); };
  if (pol == "seq") {
    (void)unifex::sync_wait(unifex::indexed_for(unifex::just(0), execution::seq, iota_view{(int)n}, f));
  } else {
    (void)unifex::sync_wait(unifex::indexed_for(unifex::just(0), execution::par, iota_view{(int)n}, f));
  }
  return "n=" + std::to_string(idx.size()) + " idx=" + runs(idx);
}

}  // namespace

int main() {
  std::ios::sync_with_stdio(true);
  std::string line;
  while (std::getline(std::cin, line)) {
    std::istringstream in(line);
    std::string cmd;
    in >> cmd;
    std::string ans;
    if (cmd == "findif") ans = do_findif(in);
    else if (cmd == "guard") ans = do_guard(in);
    else if (cmd == "bulk") ans = do_bulk(in);
    else if (cmd == "bulkjoin") ans = do_bulkjoin(in);
    else if (cmd == "ifor") ans = do_ifor(in);
    else if (cmd == "policy") ans = do_policy(in);
    else if (cmd == "const") ans = "chunk=" + std::to_string(unifex::bulk_cancellation_chunk_size);
    else ans = "bad-request";
    if (!ans.empty()) { printf("%s\n", ans.c_str()); }
    fflush(stdout);
  }
  return 0;
}
