// clock_c07.cpp — evaluates the REAL monotonic_clock::time_point functions on operands read from
// stdin (one request per line) and prints the results in the format of `ask clock eval | …`
// (lean/UnifexModel/Driver/Entries/Timer.lean).  Built with ASan+UBSan: a signed overflow or any
// other UB on an operand inside the stated range is a finding by itself.
//
//   raw s n            time_point with exactly these fields (memcpy; the type is trivially copyable)
//   normalize s n      raw(s,n) += 0 ticks                     -> "s' n'"
//   from s n           from_seconds_and_nanoseconds(s, n)      -> "s' n'"
//   add|sub s n d      raw(s,n) + / - duration(d)              -> "s' n'"
//   addassign|subassign s n d                                  -> "s' n'"
//   diff s n s2 n2     raw(s,n) - raw(s2,n2)                   -> ticks
//   cmp s n s2 n2      == != < > <= >=                         -> six 0/1
//   round s n d        ((tp+d)-d) and ((tp+d)-tp)              -> "s' n' ticks"   (law monitor input)
#include <unifex/linux/monotonic_clock.hpp>

#include <cinttypes>
#include <cstdio>
#include <cstring>
#include <type_traits>

using unifex::linuxos::monotonic_clock;
using TP = monotonic_clock::time_point;
using Dur = monotonic_clock::duration;

static_assert(std::is_trivially_copyable_v<TP>, "time_point must be trivially copyable");
static_assert(sizeof(TP) == 16, "time_point layout changed: two 64-bit members expected");

static TP raw(long long s, long long n) {
  long long f[2] = {s, n};
  TP tp;
  std::memcpy(static_cast<void*>(&tp), f, sizeof tp);
  return tp;
}
static void show(const TP& tp) { std::printf("%lld %lld", (long long)tp.seconds_part(), (long long)tp.nanoseconds_part()); }

int main() {
  char line[256];
  while (std::fgets(line, sizeof line, stdin)) {
    char op[32]; long long a = 0, b = 0, c = 0, d = 0;
    int n = std::sscanf(line, "%31s %lld %lld %lld %lld", op, &a, &b, &c, &d);
    if (n < 1) continue;
    if (!std::strcmp(op, "normalize") && n == 3) { TP tp = raw(a, b); tp += Dur(0); show(tp); }
    else if (!std::strcmp(op, "from") && n == 3) { show(TP::from_seconds_and_nanoseconds(a, b)); }
    else if (!std::strcmp(op, "add") && n == 4) { show(raw(a, b) + Dur(c)); }
    else if (!std::strcmp(op, "sub") && n == 4) { show(raw(a, b) - Dur(c)); }
    else if (!std::strcmp(op, "addassign") && n == 4) { TP tp = raw(a, b); tp += Dur(c); show(tp); }
    else if (!std::strcmp(op, "subassign") && n == 4) { TP tp = raw(a, b); tp -= Dur(c); show(tp); }
    else if (!std::strcmp(op, "diff") && n == 5) { std::printf("%lld", (long long)(raw(a, b) - raw(c, d)).count()); }
    else if (!std::strcmp(op, "cmp") && n == 5) {
      TP x = raw(a, b), y = raw(c, d);
      std::printf("%d %d %d %d %d %d", x == y, x != y, x < y, x > y, x <= y, x >= y);
    }
    else if (!std::strcmp(op, "round") && n == 4) {
      TP tp = raw(a, b); TP u = tp + Dur(c);
      show(u - Dur(c)); std::printf(" %lld", (long long)(u - tp).count());
    }
    else std::printf("bad-op");
    std::printf("\n");
  }
  return 0;
}
