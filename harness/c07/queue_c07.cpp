// queue_c07.cpp — sequential differential harness for C07 (plain build, ASan+UBSan).
//
//   queue_c07 heap   sequences on the REAL unifex::intrusive_heap (key = monotonic_clock::time_point)
//   queue_c07 loop   sequences on the REAL unifex::thread_unsafe_event_loop (schedule_at /
//                    schedule_after, stop requests from outside and from inside receivers) under a
//                    virtual clock (clock_gettime / nanosleep are defined in this executable)
//   queue_c07 sbs    the stop-requested-BEFORE-start() reproducer of DESIGN §8 #2: the operation
//                    state lives in 0xA5-poisoned storage
//
// Input: one sequence per line, operations separated by ';'.  Output: one line per sequence, in
// the format of `ask timerqueue run | …` (heap) or completion records `id<v|d>@t` (loop); lines
// starting with "MONITOR" are property monitors of this harness firing (independent of the model).
#include <unifex/detail/intrusive_heap.hpp>
#include <unifex/get_stop_token.hpp>
#include <unifex/inplace_stop_token.hpp>
#include <unifex/linux/monotonic_clock.hpp>
#include <unifex/receiver_concepts.hpp>
#include <unifex/scheduler_concepts.hpp>
#include <unifex/sender_concepts.hpp>
#include <unifex/thread_unsafe_event_loop.hpp>

#include <time.h>

#include <chrono>
#include <cstdint>
#include <cstdio>
#include <cstdlib>
#include <cstring>
#include <map>
#include <memory>
#include <new>
#include <sstream>
#include <string>
#include <vector>

// ---------------------------------------------------------------- virtual clock
static int64_t g_vnow = 1'000'000'000;   // ns
extern "C" int clock_gettime(clockid_t, struct timespec* ts) {
  ts->tv_sec = g_vnow / 1'000'000'000; ts->tv_nsec = g_vnow % 1'000'000'000; return 0;
}
extern "C" int nanosleep(const struct timespec* req, struct timespec*) {
  g_vnow += (int64_t)req->tv_sec * 1'000'000'000 + req->tv_nsec; return 0;
}
extern "C" int clock_nanosleep(clockid_t, int flags, const struct timespec* req, struct timespec*) {
  int64_t t = (int64_t)req->tv_sec * 1'000'000'000 + req->tv_nsec;
  if (flags & TIMER_ABSTIME) { if (t > g_vnow) g_vnow = t; } else g_vnow += t;
  return 0;
}

static std::vector<std::vector<std::string>> parse_ops(const std::string& line) {
  std::vector<std::vector<std::string>> ops;
  std::stringstream ss(line); std::string op;
  while (std::getline(ss, op, ';')) {
    std::stringstream s2(op); std::vector<std::string> w; std::string x;
    while (s2 >> x) w.push_back(x);
    if (!w.empty()) ops.push_back(w);
  }
  return ops;
}

// ================================================================ intrusive_heap
namespace heap_part {
using unifex::linuxos::monotonic_clock;
struct Node {
  Node* next; Node* prev; monotonic_clock::time_point key; int id;
};
using Heap = unifex::intrusive_heap<Node, &Node::next, &Node::prev, monotonic_clock::time_point, &Node::key>;

static monotonic_clock::time_point key_of(long long ticks) {
  return monotonic_clock::time_point() + monotonic_clock::duration(ticks);
}

int run() {
  std::string line;
  char buf[1 << 16];
  while (std::fgets(buf, sizeof buf, stdin)) {
    line = buf;
    std::map<int, std::unique_ptr<Node>> nodes;   // all nodes ever created (kept alive)
    std::map<int, bool> linked;
    Heap h;
    std::string out;
    auto emit = [&](const std::string& s) { if (!out.empty()) out += " "; out += s; };
    for (auto& w : parse_ops(line)) {
      if (w[0] == "i" && w.size() == 3) {
        int id = atoi(w[1].c_str());
        auto n = std::make_unique<Node>();
        std::memset(static_cast<void*>(n.get()), 0xA5, sizeof(Node));   // insert() must initialise both links
        n->key = key_of(atoll(w[2].c_str())); n->id = id;
        h.insert(n.get()); linked[id] = true; nodes[id] = std::move(n);
      } else if (w[0] == "r" && w.size() == 2) {
        int id = atoi(w[1].c_str());
        if (linked[id]) { h.remove(nodes[id].get()); linked[id] = false; }
      } else if (w[0] == "c" && w.size() == 3) {
        // what the timer-queue users do on cancellation: rewrite the key, remove, insert again
        long long now = atoll(w[1].c_str()); int id = atoi(w[2].c_str());
        if (linked[id] && key_of(now) < nodes[id]->key) {
          h.remove(nodes[id].get()); nodes[id]->key = key_of(now); h.insert(nodes[id].get());
        }
      } else if (w[0] == "p") {
        if (h.empty()) emit("-");
        else { Node* n = h.pop(); linked[n->id] = false; emit(std::to_string(n->id)); }
      } else if (w[0] == "d") {
        while (!h.empty()) { Node* n = h.pop(); linked[n->id] = false; emit(std::to_string(n->id)); }
      } else emit("bad-op");
    }
    while (!h.empty()) h.pop();
    std::printf("%s\n", out.c_str());
  }
  return 0;
}
}  // namespace heap_part

// ================================================================ thread_unsafe_event_loop
namespace loop_part {
using Clock = std::chrono::steady_clock;
constexpr int64_t UNIT = 1'000'000;
constexpr int MAXN = 32;

struct World;
struct Rcv {
  World* w; int i;
  void set_value() && noexcept;
  void set_done() && noexcept;
  template <class E> void set_error(E&&) && noexcept;
  friend unifex::inplace_stop_token tag_invoke(unifex::tag_t<unifex::get_stop_token>, const Rcv& r) noexcept;
};
using Sched = decltype(std::declval<unifex::thread_unsafe_event_loop&>().get_scheduler());
using AtSender = decltype(unifex::schedule_at(std::declval<Sched&>(), std::declval<Clock::time_point>()));
using AtOp = decltype(unifex::connect(std::declval<AtSender>(), std::declval<Rcv>()));
using AfterSender = decltype(unifex::schedule_after(std::declval<Sched&>(), std::declval<std::chrono::nanoseconds>()));
using AfterOp = decltype(unifex::connect(std::declval<AfterSender>(), std::declval<Rcv>()));
constexpr size_t SLOT = sizeof(AtOp) > sizeof(AfterOp) ? sizeof(AtOp) : sizeof(AfterOp);

struct World {
  unifex::thread_unsafe_event_loop loop;
  int64_t base = g_vnow;
  unifex::inplace_stop_source src[MAXN];
  alignas(16) unsigned char store[MAXN][SLOT];
  int kind[MAXN] = {};
  int64_t due[MAXN] = {};
  int completions[MAXN] = {};
  bool stopRequested[MAXN] = {};
  int trigger[MAXN];           // when i completes, request stop on trigger[i]
  std::string out;
  unsigned char fill = 0x00;   // storage fill before construction
  World() { for (int& t : trigger) t = -1; }
  void monitor(const char* what, int i) { char b[160]; std::snprintf(b, sizeof b, "MONITOR %s op%d", what, i); if (!out.empty()) out += " ; "; out += b; }
  void start_at(int i, int64_t due_ns) {
    due[i] = due_ns; kind[i] = 1;
    std::memset(store[i], fill, SLOT);
    auto* op = ::new (static_cast<void*>(store[i])) AtOp(unifex::connect(
        unifex::schedule_at(loop.get_scheduler(), Clock::time_point(std::chrono::nanoseconds(due_ns))), Rcv{this, i}));
    unifex::start(*op);
  }
  void start_after(int i, int64_t delay_ns) {
    due[i] = g_vnow + delay_ns; kind[i] = 2;
    std::memset(store[i], fill, SLOT);
    auto* op = ::new (static_cast<void*>(store[i])) AfterOp(unifex::connect(
        unifex::schedule_after(loop.get_scheduler(), std::chrono::nanoseconds(delay_ns)), Rcv{this, i}));
    unifex::start(*op);
  }
  void stop(int i) { stopRequested[i] = true; src[i].request_stop(); }
  void complete(int i, int ch) {
    if (i >= MAXN) return;   // the drain sentinel
    if (++completions[i] > 1) monitor("completed twice", i);
    if (ch == 1 && g_vnow < due[i]) monitor("set_value EARLY", i);
    if (ch == 2 && !stopRequested[i]) monitor("set_done without stop request", i);
    if (ch == 1 && stopRequested[i]) monitor("set_value although stop was requested before", i);
    char b[64]; std::snprintf(b, sizeof b, "%d%c@%lld", i, ch == 1 ? 'v' : ch == 2 ? 'd' : 'e', (long long)((g_vnow - base) / UNIT));
    if (!out.empty()) out += " "; out += b;
    // the receiver owns the operation state: destroy + poison
    if (kind[i] == 1) reinterpret_cast<AtOp*>(store[i])->~AtOp(); else reinterpret_cast<AfterOp*>(store[i])->~AfterOp();
    std::memset(store[i], 0xDD, SLOT);
    if (trigger[i] >= 0) stop(trigger[i]);
  }
  void drain() {
    // a sentinel far in the future: run_until_empty() runs everything queued before it
    (void)loop.sync_wait(unifex::schedule_at(loop.get_scheduler(), Clock::time_point(std::chrono::nanoseconds(base + 1'000'000 * UNIT))));
  }
};
void Rcv::set_value() && noexcept { w->complete(i, 1); }
void Rcv::set_done() && noexcept { w->complete(i, 2); }
template <class E> void Rcv::set_error(E&&) && noexcept { w->complete(i, 3); }
unifex::inplace_stop_token tag_invoke(unifex::tag_t<unifex::get_stop_token>, const Rcv& r) noexcept { return r.w->src[r.i].get_token(); }

// ops: i id due | a id delay | c id | k id1 id2 | d
int run() {
  char buf[1 << 16];
  while (std::fgets(buf, sizeof buf, stdin)) {
    auto w = std::make_unique<World>();
    int started = 0;
    for (auto& o : parse_ops(buf)) {
      if (o[0] == "i" && o.size() == 3) { w->start_at(atoi(o[1].c_str()), w->base + atoll(o[2].c_str()) * UNIT); ++started; }
      else if (o[0] == "a" && o.size() == 3) { w->start_after(atoi(o[1].c_str()), atoll(o[2].c_str()) * UNIT); ++started; }
      else if (o[0] == "c" && o.size() == 2) w->stop(atoi(o[1].c_str()));
      else if (o[0] == "k" && o.size() == 3) w->trigger[atoi(o[1].c_str())] = atoi(o[2].c_str());
      else if (o[0] == "d") w->drain();
    }
    int done = 0; for (int i = 0; i < MAXN; ++i) { done += w->completions[i]; }
    if (done != started) { char b[160]; std::snprintf(b, sizeof b, "MONITOR lost or duplicated completion: %d started, %d completions", started, done); if (!w->out.empty()) w->out += " ; "; w->out += b; }
    std::printf("%s\n", w->out.c_str());
    std::fflush(stdout);
  }
  return 0;
}

// Stop requested BEFORE start(), due time in the future, operation state in poisoned storage.
// On a tree where operation_base::next_/prevPtr_ are not initialised the inline cancel callback
// tests / dereferences the poison value (crash under ASan: SEGV on a non-canonical address).
int run_sbs(unsigned char fill, bool after) {
  auto w = std::make_unique<World>();
  w->fill = fill;
  w->stop(0);
  std::printf("sbs: stop requested, starting (storage fill 0x%02X, %s)\n", fill, after ? "schedule_after" : "schedule_at");
  std::fflush(stdout);
  if (after) w->start_after(0, 10 * UNIT); else w->start_at(0, w->base + 10 * UNIT);
  std::printf("sbs: start() returned\n"); std::fflush(stdout);
  w->drain();
  std::printf("sbs: %s\n", w->out.c_str());
  // monitors: completed exactly once, with set_done, without waiting for the due time
  if (w->completions[0] != 1) { std::printf("MONITOR completed %d times\n", w->completions[0]); return 3; }
  if (w->out != "0d@0") { std::printf("MONITOR expected prompt set_done (0d@0), got %s\n", w->out.c_str()); return 3; }
  std::printf("sbs: ok\n");
  return 0;
}
}  // namespace loop_part

int main(int argc, char** argv) {
  std::string mode = argc > 1 ? argv[1] : "";
  if (mode == "heap") return heap_part::run();
  if (mode == "loop") return loop_part::run();
  if (mode == "sbs") return loop_part::run_sbs(0xA5, argc > 2 && !std::strcmp(argv[2], "after"));
  if (mode == "sbs0") return loop_part::run_sbs(0x00, argc > 2 && !std::strcmp(argv[2], "after"));
  std::fprintf(stderr, "usage: queue_c07 heap|loop|sbs|sbs0\n");
  return 2;
}
