// tramp_c06.cpp — differential harness for the REAL trampoline_scheduler (sequential).
// stdin: one case per line, "<maxDepth> | <tree>", tree ::= '(' ['!'] tree* ')', ids in preorder.
// The completion of item `id` (set_value or set_done) first requests stop on the shared stop
// source if the node is marked '!', then connects+starts a schedule() operation for each kid.
// stdout: per case the event log  r<id>@<nest><v|d>  (item completed while <nest> other
// completions were on the call stack)  d<id>  (its start() returned without having run it);
// same format as Proto/Trampoline.lean `answer`.  Monitors (independent of the model) print
// "MONITOR ..." lines: item run twice / never, nesting deeper than max(maxDepth,1), deferred
// item not run when the outermost start() returned.
#include <unifex/inplace_stop_token.hpp>
#include <unifex/manual_lifetime.hpp>
#include <unifex/receiver_concepts.hpp>
#include <unifex/scheduler_concepts.hpp>
#include <unifex/sender_concepts.hpp>
#include <unifex/trampoline_scheduler.hpp>
#ifdef USE_INLINE
// -DUSE_INLINE: the same harness on the REAL inline_scheduler (every item completes inside its own
// start(); <maxDepth> is ignored; reference model Proto/InlineSched.lean).  Extra monitors: a start()
// that returned without having completed its item; an item completed at a nesting different from its
// depth in the tree.
#include <unifex/inline_scheduler.hpp>
#endif

#include <cstdio>
#include <cstdlib>
#include <iostream>
#include <memory>
#include <string>
#include <vector>

namespace {
struct Node { int id; bool stop_here; std::vector<Node> kids; };

struct Env;
struct Rec {
  Env* e; const Node* n;
  void set_value() && noexcept;
  void set_done() && noexcept;
  template <class E> void set_error(E&&) && noexcept { std::abort(); }
  friend unifex::inplace_stop_token tag_invoke(unifex::tag_t<unifex::get_stop_token>, const Rec& r) noexcept;
};
#ifdef USE_INLINE
struct Sched : unifex::inline_scheduler { explicit Sched(size_t) {} };
#else
using Sched = unifex::trampoline_scheduler;
#endif
using Op = unifex::connect_result_t<decltype(std::declval<Sched&>().schedule()), Rec>;
struct Holder { unifex::manual_lifetime<Op> op; bool live = false; ~Holder() { if (live) op.destruct(); } };

struct Env {
  Sched sched;
  unifex::inplace_stop_source src;
  std::string log;
  std::vector<int> ran;
  std::vector<std::unique_ptr<Holder>> holders;   // operation states live until the end of the case
  int nest = 0, max_nest = 0;
  size_t max_depth;
  std::vector<std::string> monitors;
  Env(size_t d, int nitems) : sched(d), ran(nitems, 0), max_depth(d) {}
  void start(const Node* n) {
    holders.push_back(std::make_unique<Holder>());
    Holder& h = *holders.back();
    h.op.construct_with([&] { return unifex::connect(sched.schedule(), Rec{this, n}); });
    h.live = true;
    unifex::start(h.op.get());
  }
  void complete(const Node* n, bool done) {
    char b[48]; snprintf(b, sizeof b, "%sr%d@%d%c", log.empty() ? "" : " ", n->id, nest, done ? 'd' : 'v'); log += b;
    if (++ran[n->id] > 1) monitors.push_back("item " + std::to_string(n->id) + " ran twice");
    ++nest; if (nest > max_nest) max_nest = nest;
    if (n->stop_here) src.request_stop();
    for (const Node& k : n->kids) {
      start(&k);
      if (!ran[k.id]) {
        snprintf(b, sizeof b, " d%d", k.id); log += b;
#ifdef USE_INLINE
        monitors.push_back("start() of item " + std::to_string(k.id) + " returned without having completed it inline");
#endif
      }
    }
    --nest;
  }
};
void Rec::set_value() && noexcept { e->complete(n, false); }
void Rec::set_done() && noexcept { e->complete(n, true); }
unifex::inplace_stop_token tag_invoke(unifex::tag_t<unifex::get_stop_token>, const Rec& r) noexcept { return r.e->src.get_token(); }

bool parse(const std::string& s, size_t& p, int& nid, Node& out) {
  while (p < s.size() && s[p] == ' ') ++p;
  if (p >= s.size() || s[p] != '(') return false;
  ++p; out.id = nid++; out.stop_here = false;
  if (p < s.size() && s[p] == '!') { out.stop_here = true; ++p; }
  for (;;) {
    while (p < s.size() && s[p] == ' ') ++p;
    if (p >= s.size()) return false;
    if (s[p] == ')') { ++p; return true; }
    out.kids.emplace_back();
    if (!parse(s, p, nid, out.kids.back())) return false;
  }
}
}  // namespace

int main() {
  std::string line;
  while (std::getline(std::cin, line)) {
    size_t bar = line.find('|');
    if (bar == std::string::npos) { puts("bad-op"); continue; }
    size_t md = strtoul(line.substr(0, bar).c_str(), nullptr, 10);
    Node root; size_t p = 0; int nid = 0; std::string t = line.substr(bar + 1);
    if (!parse(t, p, nid, root)) { puts("bad-op"); continue; }
    Env e(md, nid);
    e.start(&root);
    // the outermost start() has returned
    for (int i = 0; i < nid; ++i) if (e.ran[i] != 1) e.monitors.push_back("item " + std::to_string(i) + " ran " + std::to_string(e.ran[i]) + " times when the outermost start() returned");
#ifndef USE_INLINE
    if ((size_t)e.max_nest > (md > 1 ? md : 1)) e.monitors.push_back("nesting " + std::to_string(e.max_nest) + " exceeds the maximum depth");
#endif
    for (auto& m : e.monitors) printf("MONITOR %s\n", m.c_str());
    printf("%s\n", e.log.c_str());
  }
  return 0;
}
