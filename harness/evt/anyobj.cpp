// anyobj.cpp — sequential correspondence harness for unifex::basic_any_object / any_unique (C18).
// Reads cases on stdin, drives the REAL wrappers (several instantiations) holding TRACKED payloads
// through the scripted operation sequence and prints, per operation, every payload construction /
// move / copy / destruction and every allocation / deallocation that happened during it, followed by
// the operation's result.  The same case lines go to the Lean driver (`ask anyobj run | <case>`,
// model: lean/UnifexModel/Proto/AnyObject.lean).
//
//   case <id> | <cfg> | op op op ...
//   cfg := dflt | small | throw | al64 | tiny | wide | unique
//   ops (colon separated fields, every number 1..6 decimal digits, anything else is `=bad`):
//     C:j:cls:v:mode   construct slot j from a fresh payload   cls := sn | st | lg | oa
//                      mode := i (in_place_type) | c (converting) | aiN (allocator_arg N) | acN
//     M:j:i   slot j := W(std::move(slot i))          A:i:j   slot i = std::move(slot j)
//     V:i:cls:v   slot i = Payload(v)                 S:i:j   swap (any_unique only)
//     I:i   get_val(slot i)     T:i   boom(slot i)    D:i   destroy slot i     R   arm the throwing move
//
//   output: <id> | <events> =<res> | ... | <events> =end       (last entry: scope exit of the 3 slots)
//     events: cN:cls:v (payload N constructed)  mN<S (N move-constructed from S)  kN<S (copy)
//             dN (destroyed)  aA (allocation via allocator A; 0 = global operator new)  fA (deallocation)
//     res:    =ok  =vN (value)  =xN (exception carrying N)  =threw (the armed move threw)  =bad
//   monitors (independent of the model): "!!" items — double destruction, copy, misaligned payload,
//   use after destruction, deallocation with the wrong allocator / size / of an unknown block,
//   payloads or blocks alive after all wrappers are gone.
#include <unifex/any_object.hpp>
#include <unifex/any_unique.hpp>
#include <unifex/overload.hpp>
#include <unifex/tag_invoke.hpp>
#include <unifex/this.hpp>

#include <cstddef>
#include <cstdint>
#include <cstdio>
#include <cstdlib>
#include <cstring>
#include <iostream>
#include <memory>
#include <new>
#include <optional>
#include <sstream>
#include <string>
#include <vector>

// ---------------------------------------------------------------- event log (never allocates)
struct Ev { char kind; int a, b, c; const char* txt; };
static Ev g_ev[512];
static int g_nev = 0;
static void ev(char kind, int a = 0, int b = 0, int c = 0, const char* txt = nullptr) {
  if (g_nev < 512) g_ev[g_nev++] = Ev{kind, a, b, c, txt};
}
static void monitor(const char* what, int a = -1) { ev('!', a, 0, 0, what); }

// ---------------------------------------------------------------- block registry (allocations)
struct Block { void* p; int alloc; std::size_t bytes; bool live; };
static Block g_blocks[512];
static int g_nblocks = 0;
static bool g_track = false;   // inside a library call of the current case

static void block_born(void* p, int alloc, std::size_t bytes) {
  if (g_nblocks < 512) g_blocks[g_nblocks++] = Block{p, alloc, bytes, true};
  ev('a', alloc);
}
// returns false if p is not a tracked live block
static bool block_died(void* p, int alloc, std::size_t bytes, bool checkSize) {
  for (int i = g_nblocks - 1; i >= 0; --i) {
    if (g_blocks[i].p == p && g_blocks[i].live) {
      g_blocks[i].live = false;
      if (g_blocks[i].alloc != alloc) monitor("wrong-alloc", g_blocks[i].alloc);
      if (checkSize && g_blocks[i].bytes != bytes) monitor("wrong-size", (int)bytes);
      ev('f', alloc);
      return true;
    }
  }
  return false;
}

static void* raw_alloc(std::size_t n, std::size_t al) {
  if (n == 0) n = 1;
  void* p = nullptr;
  if (al <= alignof(std::max_align_t)) p = std::malloc(n);
  else if (posix_memalign(&p, al, n) != 0) p = nullptr;
  if (!p) throw std::bad_alloc();
  return p;
}
static void* g_new(std::size_t n, std::size_t al) {
  void* p = raw_alloc(n, al);
  if (g_track) block_born(p, 0, n);
  return p;
}
static void g_delete(void* p) noexcept {
  if (!p) return;
  block_died(p, 0, 0, false);   // untracked blocks (the harness's own) are simply freed
  std::free(p);
}
void* operator new(std::size_t n) { return g_new(n, 1); }
void* operator new[](std::size_t n) { return g_new(n, 1); }
void* operator new(std::size_t n, std::align_val_t a) { return g_new(n, (std::size_t)a); }
void* operator new[](std::size_t n, std::align_val_t a) { return g_new(n, (std::size_t)a); }
void operator delete(void* p) noexcept { g_delete(p); }
void operator delete[](void* p) noexcept { g_delete(p); }
void operator delete(void* p, std::size_t) noexcept { g_delete(p); }
void operator delete[](void* p, std::size_t) noexcept { g_delete(p); }
void operator delete(void* p, std::align_val_t) noexcept { g_delete(p); }
void operator delete[](void* p, std::align_val_t) noexcept { g_delete(p); }
void operator delete(void* p, std::size_t, std::align_val_t) noexcept { g_delete(p); }
void operator delete[](void* p, std::size_t, std::align_val_t) noexcept { g_delete(p); }

template <typename T>
struct CountAlloc {
  using value_type = T;
  int id;
  CountAlloc() noexcept : id(1) {}
  explicit CountAlloc(int id) noexcept : id(id) {}
  template <typename U>
  CountAlloc(const CountAlloc<U>& o) noexcept : id(o.id) {}
  T* allocate(std::size_t n) {
    void* p = raw_alloc(n * sizeof(T), alignof(T));
    if ((reinterpret_cast<std::uintptr_t>(p) % alignof(T)) != 0) monitor("misaligned-block");
    block_born(p, id, n * sizeof(T));
    return static_cast<T*>(p);
  }
  void deallocate(T* p, std::size_t n) noexcept {
    if (!block_died(p, id, n * sizeof(T), true)) { monitor("bad-free"); return; }
    std::free(p);
  }
  template <typename U> bool operator==(const CountAlloc<U>& o) const noexcept { return id == o.id; }
  template <typename U> bool operator!=(const CountAlloc<U>& o) const noexcept { return id != o.id; }
};

// ---------------------------------------------------------------- tracked payloads
static int g_next = 0;            // next payload id
static char g_state[8192];        // 0 never, 1 live, 2 destroyed
static bool g_armed = false;
static int g_live = 0;
static bool is_live(int id) { return id >= 0 && id < (int)sizeof g_state && g_state[id] == 1; }

struct Boom { int v; };
static const char* cls_name(int c) { static const char* n[] = {"sn", "st", "lg", "oa"}; return n[c]; }

// The CPOs come in two flavours: `const this_&` (any_object) and `this_&` (any_unique: its
// allocator-aware storage `_concrete_impl::base` only offers get_wrapped_object(base&), so a
// `const this_&` CPO does not compile with any_unique(allocator_arg, ...) — see the C18 report).
template <bool Const>
struct get_val_cpo_t {
  using this_t = std::conditional_t<Const, const unifex::this_&, unifex::this_&>;
  using type_erased_signature_t = int(this_t) noexcept;
  template <typename T>
  auto operator()(T&& x) const noexcept -> unifex::tag_invoke_result_t<get_val_cpo_t, T&&> {
    return unifex::tag_invoke(*this, (T&&)x);
  }
};
template <bool Const>
struct boom_cpo_t {
  using this_t = std::conditional_t<Const, const unifex::this_&, unifex::this_&>;
  using type_erased_signature_t = void(this_t);
  template <typename T>
  auto operator()(T&& x) const -> unifex::tag_invoke_result_t<boom_cpo_t, T&&> {
    return unifex::tag_invoke(*this, (T&&)x);
  }
};
inline constexpr get_val_cpo_t<true> get_val{};
inline constexpr boom_cpo_t<true> boom{};
inline constexpr get_val_cpo_t<false> get_val_mut{};
inline constexpr boom_cpo_t<false> boom_mut{};

template <std::size_t N> struct Pad { char pad[N]; };
template <> struct Pad<0> {};

template <int Cls, bool NothrowMove, std::size_t PadBytes, std::size_t Align>
struct alignas(Align) Payload : Pad<PadBytes> {
  int id;
  int val;
  void born() {
    if ((reinterpret_cast<std::uintptr_t>(this) % Align) != 0) monitor("misaligned", id);
    if (id >= 0 && id < (int)sizeof g_state) g_state[id] = 1;
    ++g_live;
  }
  explicit Payload(int v) : id(g_next++), val(v) { born(); ev('c', id, Cls, v); }
  Payload(const Payload& o) : id(g_next++), val(o.val) { born(); ev('k', id, o.id); monitor("copy", id); }
  Payload(Payload&& o) noexcept(NothrowMove) : id(-1), val(0) {
    if constexpr (!NothrowMove) { if (g_armed) { g_armed = false; throw Boom{-1}; } }
    if (!is_live(o.id)) monitor("move-from-dead", o.id);
    id = g_next++; val = o.val; o.val = 0;
    born(); ev('m', id, o.id);
  }
  Payload& operator=(const Payload&) = delete;
  ~Payload() {
    if (!is_live(id)) monitor("double-dtor", id);
    else { g_state[id] = 2; --g_live; }
    ev('d', id);
  }
  template <bool C>
  friend int tag_invoke(get_val_cpo_t<C>, const Payload& p) noexcept {
    if (!is_live(p.id)) monitor("use-after-dtor", p.id);
    return p.val;
  }
  template <bool C>
  friend void tag_invoke(boom_cpo_t<C>, const Payload& p) { throw Boom{p.val}; }
};

using SN = Payload<0, true, 0, 4>;
using ST = Payload<1, false, 0, 4>;
using LG = Payload<2, true, 64, 4>;
using OA = Payload<3, true, 0, 64>;
// the Lean model's Cls.size / Cls.align table
static_assert(sizeof(SN) == 8 && alignof(SN) == 4);
static_assert(sizeof(ST) == 8 && alignof(ST) == 4);
static_assert(sizeof(LG) == 72 && alignof(LG) == 4);
static_assert(sizeof(OA) == 64 && alignof(OA) == 64);
static_assert(std::is_nothrow_move_constructible_v<SN> && !std::is_nothrow_move_constructible_v<ST>);
static_assert(sizeof(void*) == 8);

// ---------------------------------------------------------------- the instantiations (names = Lean configs)
using CA = CountAlloc<std::byte>;
using WDflt = unifex::any_object_t<get_val, boom>;
using WSmall = unifex::basic_any_object_t<8, 8, true, CA, get_val, boom>;
using WThrow = unifex::basic_any_object_t<16, 8, false, CA, get_val, boom>;
using WAl64 = unifex::basic_any_object_t<64, 64, true, CA, get_val, boom>;
using WTiny = unifex::basic_any_object_t<1, 1, true, CA, get_val, boom>;
using WWide = unifex::basic_any_object_t<64, 8, true, CA, get_val, boom>;
using WUnique = unifex::any_unique_t<get_val_mut, boom_mut>;

// ---------------------------------------------------------------- parsing (same rules as the Lean driver)
static bool num(const std::string& s, int& out) {
  if (s.empty() || s.size() > 6) return false;
  for (char c : s) if (c < '0' || c > '9') return false;
  out = atoi(s.c_str());
  return true;
}
static std::vector<std::string> split(const std::string& s, char d) {
  std::vector<std::string> r; std::string cur;
  for (char c : s) { if (c == d) { r.push_back(cur); cur.clear(); } else cur += c; }
  r.push_back(cur);
  return r;
}
static int parse_cls(const std::string& s) {
  if (s == "sn") return 0; if (s == "st") return 1; if (s == "lg") return 2; if (s == "oa") return 3;
  return -1;
}
struct ModeP { char kind; int alloc; };   // kind: i c a(allocIn) b(allocConv)
static bool parse_mode(const std::string& s, ModeP& m) {
  if (s == "i") { m = {'i', 0}; return true; }
  if (s == "c") { m = {'c', 0}; return true; }
  if (s.size() > 2 && s[0] == 'a' && (s[1] == 'i' || s[1] == 'c')) {
    int a; if (!num(s.substr(2), a)) return false;
    m = {s[1] == 'i' ? 'a' : 'b', a}; return true;
  }
  return false;
}

// ---------------------------------------------------------------- the runner
template <typename W, bool Unique>
struct Runner {
  std::optional<W> slot[3];
  bool nullish[3] = {false, false, false};   // wrapper known to hold no payload (pointer moved away / invalid)

  static std::string flush(const std::string& res) {
    std::string s;
    for (int i = 0; i < g_nev; ++i) {
      const Ev& e = g_ev[i];
      if (!s.empty()) s += " ";
      switch (e.kind) {
        case 'c': s += "c" + std::to_string(e.a) + ":" + cls_name(e.b) + ":" + std::to_string(e.c); break;
        case 'm': s += "m" + std::to_string(e.a) + "<" + std::to_string(e.b); break;
        case 'k': s += "k" + std::to_string(e.a) + "<" + std::to_string(e.b); break;
        case 'd': s += "d" + std::to_string(e.a); break;
        case 'a': s += "a" + std::to_string(e.a); break;
        case 'f': s += "f" + std::to_string(e.a); break;
        default: s += std::string("!!") + e.txt + (e.a >= 0 ? ":" + std::to_string(e.a) : ""); break;
      }
    }
    g_nev = 0;
    if (!s.empty()) s += " ";
    return s + res;
  }
  static int moves() { int n = 0; for (int i = 0; i < g_nev; ++i) if (g_ev[i].kind == 'm') ++n; return n; }

  bool ok_slot(int i) const { return i >= 0 && i < 3; }
  bool engaged(int i) const { return ok_slot(i) && slot[i].has_value(); }
  bool vacant(int i) const { return ok_slot(i) && !slot[i].has_value(); }

  template <typename P>
  void construct(int j, int v, ModeP m) {
    switch (m.kind) {
      case 'i': slot[j].emplace(std::in_place_type<P>, v); break;
      case 'c': { P tmp(v); slot[j].emplace(std::move(tmp)); break; }
      case 'a': slot[j].emplace(std::allocator_arg, CA(m.alloc), std::in_place_type<P>, v); break;
      default: {
        P tmp(v);
        if constexpr (Unique) slot[j].emplace(std::move(tmp), CA(m.alloc));
        else slot[j].emplace(std::allocator_arg, CA(m.alloc), std::move(tmp));
        break;
      }
    }
  }
  template <typename P>
  void assign_value(int i, int v) {
    if constexpr (!Unique) { P tmp(v); *slot[i] = std::move(tmp); }
  }

  // returns the result token of one op
  std::string one(const std::string& tok) {
    auto f = split(tok, ':');
    const std::string& k = f[0];
    int a = 0, b = 0, v = 0;
    try {
      if (k == "C" && f.size() == 5) {
        int c = parse_cls(f[2]); ModeP m;
        if (!num(f[1], a) || c < 0 || !num(f[3], v) || !parse_mode(f[4], m) || !vacant(a)) return "=bad";
        g_track = true;
        switch (c) {
          case 0: construct<SN>(a, v, m); break;
          case 1: construct<ST>(a, v, m); break;
          case 2: construct<LG>(a, v, m); break;
          default: construct<OA>(a, v, m); break;
        }
        g_track = false;
        nullish[a] = false;
        return "=ok";
      }
      if (k == "M" && f.size() == 3) {
        if (!num(f[1], a) || !num(f[2], b) || !vacant(a) || !engaged(b)) return "=bad";
        g_track = true;
        slot[a].emplace(std::move(*slot[b]));
        g_track = false;
        if (moves() > 0) nullish[a] = false; else { nullish[a] = nullish[b]; nullish[b] = true; }
        return "=ok";
      }
      if (k == "A" && f.size() == 3) {
        if (!num(f[1], a) || !num(f[2], b) || !engaged(a) || !engaged(b)) return "=bad";
        g_track = true;
        *slot[a] = std::move(*slot[b]);
        g_track = false;
        if (a != b) { if (moves() > 0) nullish[a] = false; else { nullish[a] = nullish[b]; nullish[b] = true; } }
        return "=ok";
      }
      if (k == "V" && f.size() == 4) {
        int c = parse_cls(f[2]);
        if (!num(f[1], a) || c < 0 || !num(f[3], v) || Unique || !engaged(a)) return "=bad";
        g_track = true;
        switch (c) {
          case 0: assign_value<SN>(a, v); break;
          case 1: assign_value<ST>(a, v); break;
          case 2: assign_value<LG>(a, v); break;
          default: assign_value<OA>(a, v); break;
        }
        g_track = false;
        nullish[a] = false;
        return "=ok";
      }
      if (k == "S" && f.size() == 3) {
        if (!num(f[1], a) || !num(f[2], b) || !Unique || !engaged(a) || !engaged(b)) return "=bad";
        if constexpr (Unique) { g_track = true; swap(*slot[a], *slot[b]); g_track = false; }
        std::swap(nullish[a], nullish[b]);
        return "=ok";
      }
      if ((k == "I" || k == "T") && f.size() == 2) {
        if (!num(f[1], a) || !engaged(a) || nullish[a]) return "=bad";
        g_track = true;
        if (k == "I") {
          int r;
          if constexpr (Unique) r = get_val_mut(*slot[a]); else r = get_val(*slot[a]);
          g_track = false;
          return "=v" + std::to_string(r);
        }
        if constexpr (Unique) boom_mut(*slot[a]); else boom(*slot[a]);
        g_track = false;
        return "=!!no-exception";
      }
      if (k == "D" && f.size() == 2) {
        if (!num(f[1], a) || !engaged(a)) return "=bad";
        g_track = true; slot[a].reset(); g_track = false;
        nullish[a] = false;
        return "=ok";
      }
      if (k == "R" && f.size() == 1) { g_armed = true; return "=ok"; }
      return "=bad";
    } catch (const Boom& bm) {
      g_track = false;
      if (k == "T") return "=x" + std::to_string(bm.v);
      // the armed move threw: an assignment leaves the target without a payload
      if (k == "A" || k == "V") nullish[a] = true;
      return "=threw";
    }
  }

  std::string run(const std::string& id, const std::string& ops) {
    std::string res = id;
    std::stringstream ss(ops); std::string tok;
    while (ss >> tok) { std::string r = one(tok); res += " | " + flush(r); }
    g_track = true;
    for (auto& s : slot) s.reset();
    g_track = false;
    res += " | " + flush("=end");
    return res;
  }
};

static std::string trim(const std::string& s) {
  size_t a = s.find_first_not_of(" \t\r\n"), b = s.find_last_not_of(" \t\r\n");
  return a == std::string::npos ? "" : s.substr(a, b - a + 1);
}

static std::string run_case(const std::string& line) {
  auto parts = split(line, '|');
  if (parts.size() != 3) return "bad-op";
  std::string id = trim(parts[0]), cfg = trim(parts[1]);
  g_next = 0; g_nev = 0; g_nblocks = 0; g_armed = false; g_live = 0;
  std::memset(g_state, 0, sizeof g_state);
  std::string res;
  if (cfg == "dflt") res = Runner<WDflt, false>{}.run(id, parts[2]);
  else if (cfg == "small") res = Runner<WSmall, false>{}.run(id, parts[2]);
  else if (cfg == "throw") res = Runner<WThrow, false>{}.run(id, parts[2]);
  else if (cfg == "al64") res = Runner<WAl64, false>{}.run(id, parts[2]);
  else if (cfg == "tiny") res = Runner<WTiny, false>{}.run(id, parts[2]);
  else if (cfg == "wide") res = Runner<WWide, false>{}.run(id, parts[2]);
  else if (cfg == "unique") res = Runner<WUnique, true>{}.run(id, parts[2]);
  else return "bad-op config";
  int liveBlocks = 0;
  for (int i = 0; i < g_nblocks; ++i) if (g_blocks[i].live) ++liveBlocks;
  if (g_live != 0) res += " !!leak-obj=" + std::to_string(g_live);
  if (liveBlocks != 0) res += " !!leak-alloc=" + std::to_string(liveBlocks);
  return res;
}

int main() {
  std::string line;
  std::cout << std::unitbuf;
  while (std::getline(std::cin, line)) {
    if (line.empty()) continue;
    std::string s;
    try { s = run_case(line.substr(line.find(' ') + 1)); }
    catch (const std::exception& e) { s = std::string("bad-op ") + e.what(); }
    std::cout << s << "\n";
  }
  return 0;
}
