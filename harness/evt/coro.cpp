// coro.cpp — event-level correspondence harness for coroutine tasks (property C10), C++20.
// Reads cases on stdin; ONE interpreter coroutine `unifex::task<int> interp(...)` walks a run-time
// program, so generated programs need no recompilation.  The root task is connected (as a sender,
// through connect_awaitable + inject_stop_request_thunk) to a counting root receiver that exposes an
// inplace_stop_token and a manual scheduler; scripted external events drive it.  The same case lines
// go to the Lean machine (`ask coro run | <case>`), outputs must be equal token for token.
//
//   case <id> | <inl|man>[:u|:w] | <prog> | <leaf specs> | <events>
//
//   prog   := ( stmt* )
//   stmt   := (aw I)      acc += co_await leaf I
//             (taw I)     try { acc += co_await leaf I } catch (Err e) { acc += e + 100 }
//             (task prog) acc += co_await interp(prog)           (a nested task<int>)
//             (ttask prog) the same inside try/catch
//             (ax A L)    co_await at_coroutine_exit(cleanup A)  (L>0: the cleanup awaits leaf L)
//             (ret V)     co_return acc + V
//             (thr E)     throw Err{E}
//             (sir)       co_await stop_if_requested()
//             (sirs)      co_await then(stop_if_requested(), f)   (the SENDER route of stop_if_requested)
//             (pw I) (tpw I)  acc += co_await <plain awaitable I> (not a sender; tpw: inside try/catch)
//             (rs K)      co_await schedule(scheduler K)      (the task moves to scheduler K; source/task.cpp)
//   specs  := I=i:O | I=ia:O | I=p:ign | I=p:O | I=pa:ign | I=pa:O    O := vN | eN | d
//             i = completes inside start(), p = stays pending (O = how it completes when it gets a
//             stop notification, ign = ignores it); a = the sender declares is_always_scheduler_affine
//             (otherwise task<> wraps it: finally(leaf, unstoppable(schedule(sched))) — a hop)
//             plain awaitables: I=r:O ready | I=b0:O bool await_suspend returns false | I=h0:O handle-returning
//             await_suspend returns the awaiting coroutine (these complete inline with O = vN | eN);
//             I=b1:ign | I=h1:ign | I=vd:ign really suspend (bool true / noop_coroutine / void) until cI:O
//   events := start | stop | run | cI:O | c?:O   run = the manual scheduler executes its oldest item;
//             c?:O completes whatever leaf is pending (a cleanup leaf always with v0)
//   inl|man: the schedulers complete schedule() inline / queue it until `run` (one FIFO for all of them);
//            :u the receiver has no stop token (task<> connects without the stop-request thunk; `stop` events
//            do nothing), :w its stop token has a foreign type (adapted by inplace_stop_token_adapter)
//
// After the scripted events the case is drained (queued scheduler items first, then the lowest
// pending leaf: done for a body leaf, v0 for a cleanup leaf), then the operation state is destroyed
// (last event result).  Output: `<id> | <event result> | ...`; an event result is the comma
// separated list of observations IN EMISSION ORDER (or `-`):
//   fsF body of frame F started (its tracked local constructed)     rgF:A cleanup A registered
//   lsI:S leaf I started, S = stop already requested on its token   lpI leaf I got a stop notification
//   ldF locals of frame F destroyed    clF:A cleanup A of frame F ran    fdF frame F destroyed
//   cqK the cleanup action that just started sees scheduler K through its receiver
//   psI plain awaitable I was awaited (await_ready called)
//   cbN (:w mode) N callbacks are registered on the receiver's stop token — printed just before R=… and after
//       the operation state was destroyed
//   sqK a schedule() operation of scheduler K was started (K = 0: the receiver's scheduler)
//   scK a schedule() operation of scheduler K saw a stop request on its receiver's token and completed with done
//       (the schedulers are cancellable; the library's internal hops must be unstoppable)
//   R=vN / R=eN / R=d root receiver completed       !!… monitors
#include <unifex/at_coroutine_exit.hpp>
#include <unifex/inplace_stop_token.hpp>
#include <unifex/just.hpp>
#include <unifex/stop_if_requested.hpp>
#include <unifex/task.hpp>
#include <unifex/then.hpp>

#include <cstdio>
#include <cstdlib>
#include <deque>
#include <iostream>
#include <map>
#include <memory>
#include <optional>
#include <sstream>
#include <string>
#include <vector>

using namespace unifex;

// ---------------------------------------------------------------- allocation accounting
static long g_live = 0;
void* operator new(std::size_t n) { ++g_live; void* p = std::malloc(n ? n : 1); if (!p) throw std::bad_alloc(); return p; }
void operator delete(void* p) noexcept { if (p) { --g_live; std::free(p); } }
void operator delete(void* p, std::size_t) noexcept { if (p) { --g_live; std::free(p); } }

struct Err { int code; };
static std::exception_ptr mkerr(int c) { return std::make_exception_ptr(Err{c}); }
static int errcode(std::exception_ptr e) {
  try { std::rethrow_exception(e); } catch (const Err& x) { return x.code; } catch (...) { return -1; }
}

// ---------------------------------------------------------------- world
struct LeafOpBase { virtual void complete(char chan, int val) = 0; virtual ~LeafOpBase() = default; };
struct SchedOpBase { virtual void run() = 0; virtual ~SchedOpBase() = default; };

struct Spec { bool inline_ = true; bool affine = false; char chan = 'v'; int val = 0; bool reacts = false;
              char plain = 0; };   // plain awaitable: 'r' ready, 'b' bool await_suspend, 'h' handle-returning, 'v' void

struct World {
  std::map<int, Spec> specs;
  std::map<int, LeafOpBase*> running;      // pending leaves
  std::map<int, bool> inCleanup;           // pending leaf belongs to a cleanup action
  std::deque<SchedOpBase*> queue;          // manual scheduler
  bool inlineSched = true;
  std::vector<std::string> out;
  int rootCompletions = 0;
  bool started = false;
  int nextFrame = 0;
  std::map<int, int> frameDestroyed;
  std::map<int, bool> isPlain;             // pending item is a plain awaitable (cannot complete with done)
  std::map<int, int> sirState;             // per frame: 1 = a stop_if_requested statement is in flight and must continue, 2 = must cancel
  std::shared_ptr<int> tokRegs;            // :w mode: callbacks currently registered on the receiver's (counting) stop token
  void emit(std::string s) { out.push_back(std::move(s)); }
};

// ---------------------------------------------------------------- manual scheduler
struct ManualScheduler {
  World* w; int tag = 0;
  struct Sender {
    template <template <typename...> class Variant, template <typename...> class Tuple>
    using value_types = Variant<Tuple<>>;
    template <template <typename...> class Variant>
    using error_types = Variant<std::exception_ptr>;
    static constexpr bool sends_done = true;
    World* w; int tag;
    template <typename R>
    struct Op final : SchedOpBase {
      struct Cb { Op* op; void operator()() noexcept { op->on_stop(); } };
      World* w; int tag; R r;
      std::optional<typename stop_token_type_t<R&>::template callback_type<Cb>> cb;
      Op(World* w, int tag, R&& r) : w(w), tag(tag), r(std::move(r)) {}
      void start() noexcept {
        w->emit("sq" + std::to_string(tag));
        auto st = get_stop_token(r);
        // a cancellable scheduler: a schedule() whose receiver's token has a stop request completes with done
        if (st.stop_requested()) { w->emit("sc" + std::to_string(tag)); unifex::set_done(std::move(r)); return; }
        if (w->inlineSched) { unifex::set_value(std::move(r)); return; }
        w->queue.push_back(this);
        cb.emplace(st, Cb{this});
      }
      void on_stop() noexcept {
        w->emit("sc" + std::to_string(tag));
        for (auto it = w->queue.begin(); it != w->queue.end(); ++it) if (*it == this) { w->queue.erase(it); break; }
        cb.reset();
        unifex::set_done(std::move(r));
      }
      void run() override { cb.reset(); unifex::set_value(std::move(r)); }
    };
    template <typename R>
    friend Op<remove_cvref_t<R>> tag_invoke(tag_t<connect>, Sender s, R&& r) {
      return Op<remove_cvref_t<R>>{s.w, s.tag, (R&&)r};
    }
  };
  Sender schedule() const noexcept { return Sender{w, tag}; }
  friend bool operator==(const ManualScheduler& a, const ManualScheduler& b) noexcept { return a.w == b.w && a.tag == b.tag; }
  friend bool operator!=(const ManualScheduler& a, const ManualScheduler& b) noexcept { return !(a == b); }
};

// ---------------------------------------------------------------- manual leaf sender
template <bool Affine>
struct LeafSender {
  template <template <typename...> class Variant, template <typename...> class Tuple>
  using value_types = Variant<Tuple<int>>;
  template <template <typename...> class Variant>
  using error_types = Variant<std::exception_ptr>;
  static constexpr bool sends_done = true;
  static constexpr bool is_always_scheduler_affine = Affine;

  World* w; int id; bool cleanup;

  template <typename R>
  struct Op final : LeafOpBase {
    struct Cb { Op* op; void operator()() noexcept { op->on_stop(); } };
    World* w; int id; bool cleanup; R r;
    std::optional<typename stop_token_type_t<R&>::template callback_type<Cb>> cb;
    bool inCtor = false, completeAfterCtor = false;
    Op(World* w, int id, bool cleanup, R&& r) : w(w), id(id), cleanup(cleanup), r(std::move(r)) {}
    void start() noexcept {
      if (cleanup) {
        // the scheduler a cleanup action sees (the task's scheduler when the cleanup was registered)
        if constexpr (std::is_invocable_v<tag_t<get_scheduler>, const R&>) {
          int tag = -1;
          auto sch = get_scheduler(std::as_const(r));
          for (int k = 0; k < 4; ++k) if (sch == any_scheduler{ManualScheduler{w, k}}) tag = k;
          w->emit("cq" + std::to_string(tag));
        } else w->emit("cq?");
      }
      if (cleanup && id <= 0) { unifex::set_value(std::move(r), 0); return; }   // cleanup without a leaf
      Spec sp = w->specs.count(id) ? w->specs[id] : Spec{};
      auto st = get_stop_token(r);
      w->emit("ls" + std::to_string(id) + ":" + (st.stop_requested() ? "1" : "0"));
      if (sp.inline_) { deliver(sp.chan, sp.val); return; }
      w->running[id] = this;
      w->inCleanup[id] = cleanup;
      inCtor = true;
      cb.emplace(st, Cb{this});
      inCtor = false;
      if (completeAfterCtor) { Spec s2 = w->specs[id]; complete(s2.chan, s2.val); }
    }
    void on_stop() noexcept {
      w->emit("lp" + std::to_string(id));
      Spec sp = w->specs[id];
      if (sp.reacts) { if (inCtor) completeAfterCtor = true; else complete(sp.chan, sp.val); }
    }
    void complete(char chan, int val) override {
      w->running.erase(id);
      w->inCleanup.erase(id);
      cb.reset();
      deliver(chan, val);
    }
    void deliver(char chan, int val) noexcept {
      if (chan == 'v') unifex::set_value(std::move(r), (int)val);
      else if (chan == 'e') unifex::set_error(std::move(r), mkerr(val));
      else unifex::set_done(std::move(r));
    }
  };
  template <typename R>
  friend Op<remove_cvref_t<R>> tag_invoke(tag_t<connect>, LeafSender s, R&& r) {
    return Op<remove_cvref_t<R>>{s.w, s.id, s.cleanup, (R&&)r};
  }
};

// ---------------------------------------------------------------- plain awaitables (NOT senders)
// awaited inside task<> they go await_transform -> (awaitable_wrapper when async stacks are on) ->
// with_scheduler_affinity -> as_sender/connect_awaitable -> finally(…, unstoppable(schedule(sched)))
struct PlainBase : LeafOpBase {
  World* w; int id; Spec sp; coro::coroutine_handle<> h{}; char chan = 'v'; int val = 0;
  PlainBase(World* w, int id) : w(w), id(id), sp(w->specs.count(id) ? w->specs[id] : Spec{}) { chan = sp.chan; val = sp.val; }
  bool ready() { w->emit("ps" + std::to_string(id)); return sp.plain == 'r'; }
  void park(coro::coroutine_handle<> hh) { h = hh; w->running[id] = this; w->inCleanup[id] = false; w->isPlain[id] = true; }
  void complete(char c, int v) override {
    w->running.erase(id); w->inCleanup.erase(id); w->isPlain.erase(id);
    if (c == 'd') { c = 'v'; v = 0; }      // a plain awaitable has no done channel
    chan = c; val = v;
    h.resume();
  }
  int result() { if (chan == 'e') throw Err{val}; return val; }
};
struct PlainB : PlainBase {   // bool await_suspend: false = "did not need to suspend after all"
  using PlainBase::PlainBase;
  bool await_ready() { return ready(); }
  bool await_suspend(coro::coroutine_handle<> hh) { if (sp.inline_) return false; park(hh); return true; }
  int await_resume() { return result(); }
};
struct PlainH : PlainBase {   // handle-returning await_suspend: the awaiting coroutine itself = do not suspend
  using PlainBase::PlainBase;
  bool await_ready() { return ready(); }
  coro::coroutine_handle<> await_suspend(coro::coroutine_handle<> hh) { if (sp.inline_) return hh; park(hh); return coro::noop_coroutine(); }
  int await_resume() { return result(); }
};
struct PlainV : PlainBase {   // void await_suspend: always suspends
  using PlainBase::PlainBase;
  bool await_ready() { return ready(); }
  void await_suspend(coro::coroutine_handle<> hh) { park(hh); }
  int await_resume() { return result(); }
};

// silent probe: what does the task's stop token say right now?  (monitor for stop_if_requested, model-independent)
struct TokProbe {
  template <template <typename...> class Variant, template <typename...> class Tuple>
  using value_types = Variant<Tuple<bool>>;
  template <template <typename...> class Variant>
  using error_types = Variant<std::exception_ptr>;
  static constexpr bool sends_done = false;
  static constexpr bool is_always_scheduler_affine = true;
  template <typename R>
  struct Op { R r; void start() noexcept { bool b = get_stop_token(r).stop_requested(); unifex::set_value(std::move(r), (bool)b); } };
  template <typename R>
  friend Op<remove_cvref_t<R>> tag_invoke(tag_t<connect>, TokProbe, R&& r) { return Op<remove_cvref_t<R>>{(R&&)r}; }
};

// ---------------------------------------------------------------- programs
struct Stmt;
using Prog = std::vector<Stmt>;
struct Stmt { std::string k; int a = 0, b = 0; std::shared_ptr<Prog> sub; };

struct Parser {
  std::vector<std::string> t; size_t p = 0;
  explicit Parser(const std::string& s) {
    std::string cur;
    for (char c : s) {
      if (c == '(' || c == ')') { if (!cur.empty()) { t.push_back(cur); cur.clear(); } t.push_back(std::string(1, c)); }
      else if (isspace((unsigned char)c)) { if (!cur.empty()) { t.push_back(cur); cur.clear(); } }
      else cur += c;
    }
    if (!cur.empty()) t.push_back(cur);
  }
  Prog prog() {
    Prog r;
    if (t.at(p) != "(") throw std::runtime_error("expected (");
    ++p;
    while (t.at(p) != ")") r.push_back(stmt());
    ++p;
    return r;
  }
  Stmt stmt() {
    Stmt s;
    if (t.at(p) != "(") throw std::runtime_error("expected ( stmt");
    ++p; s.k = t.at(p++);
    if (s.k == "task" || s.k == "ttask") s.sub = std::make_shared<Prog>(prog());
    else {
      std::vector<int> n;
      while (t.at(p) != ")") n.push_back(atoi(t[p++].c_str()));
      if (n.size() > 0) s.a = n[0];
      if (n.size() > 1) s.b = n[1];
    }
    if (t.at(p) != ")") throw std::runtime_error("expected )");
    ++p;
    return s;
  }
};

// ---------------------------------------------------------------- tracked objects
struct FrameTag {   // by-value coroutine parameter: destroyed exactly when the coroutine frame is
  World* w; int id; bool live;
  FrameTag(World* w, int id) : w(w), id(id), live(true) {}
  FrameTag(FrameTag&& o) noexcept : w(o.w), id(o.id), live(std::exchange(o.live, false)) {}
  FrameTag(const FrameTag&) = delete;
  ~FrameTag() {
    if (live) {
      if (++w->frameDestroyed[id] > 1) w->emit("!!frame-destroyed-twice");
      w->emit("fd" + std::to_string(id));
    }
  }
};
struct Local {      // a local variable of the coroutine body
  World* w; int id;
  Local(World* w, int id) : w(w), id(id) { w->emit("fs" + std::to_string(id)); }
  Local(const Local&) = delete;
  ~Local() { w->emit("ld" + std::to_string(id)); }
};

static int catchVal(int e) { return e + 100; }

// cleanup action: logs when it runs, then (optionally) awaits a leaf
struct CleanupAction {
  auto operator()(World* w, int frame, int a, int leaf) const {
    w->emit("cl" + std::to_string(frame) + ":" + std::to_string(a));
    return LeafSender<true>{w, leaf, true};
  }
};

// ---------------------------------------------------------------- THE interpreter coroutine
static task<int> interp(World* w, std::shared_ptr<Prog> prog, FrameTag tag) {
  Local local{w, tag.id};
  int acc = 0;
  const int me = tag.id;
  for (size_t pc = 0; pc < prog->size(); ++pc) {
    const Stmt& s = (*prog)[pc];
    auto affine = [&](int i) { return w->specs.count(i) ? w->specs[i].affine : false; };
    if (s.k == "aw") {
      if (affine(s.a)) acc += co_await LeafSender<true>{w, s.a, false};
      else acc += co_await LeafSender<false>{w, s.a, false};
    } else if (s.k == "taw") {
      try {
        if (affine(s.a)) acc += co_await LeafSender<true>{w, s.a, false};
        else acc += co_await LeafSender<false>{w, s.a, false};
      } catch (const Err& e) { acc += catchVal(e.code); }
    } else if (s.k == "task") {
      acc += co_await interp(w, s.sub, FrameTag{w, w->nextFrame++});
    } else if (s.k == "ttask") {
      try {
        acc += co_await interp(w, s.sub, FrameTag{w, w->nextFrame++});
      } catch (const Err& e) { acc += catchVal(e.code); }
    } else if (s.k == "ax") {
      co_await at_coroutine_exit(CleanupAction{}, w, me, s.a, s.b);
      w->emit("rg" + std::to_string(me) + ":" + std::to_string(s.a));
    } else if (s.k == "ret") {
      co_return acc + s.a;
    } else if (s.k == "thr") {
      throw Err{s.a};
    } else if (s.k == "sir" || s.k == "sirs") {
      // both routes of stop_if_requested(): its awaiter (direct co_await) and its sender operation (composed
      // with a sender algorithm first); monitor: it continues iff the task's token has no stop request
      bool req = co_await TokProbe{};
      w->sirState[me] = req ? 2 : 1;
      if (s.k == "sir") co_await stop_if_requested();
      else co_await then(stop_if_requested(), []() noexcept {});
      if (req) w->emit("!!sir-continued-although-stop-requested");
      w->sirState[me] = 0;
    } else if (s.k == "pw" || s.k == "tpw") {
      char kind = w->specs.count(s.a) ? w->specs[s.a].plain : 'r';
      if (s.k == "pw") {
        if (kind == 'h') acc += co_await PlainH{w, s.a};
        else if (kind == 'v') acc += co_await PlainV{w, s.a};
        else acc += co_await PlainB{w, s.a};
      } else {
        try {
          if (kind == 'h') acc += co_await PlainH{w, s.a};
          else if (kind == 'v') acc += co_await PlainV{w, s.a};
          else acc += co_await PlainB{w, s.a};
        } catch (const Err& e) { acc += catchVal(e.code); }
      }
    } else if (s.k == "rs") {
      co_await schedule(ManualScheduler{w, s.a});
    }
  }
  co_return acc;
}

// ---------------------------------------------------------------- root receivers
struct RootBase {
  World* w; inplace_stop_source* src;
  void record(const std::string& s, bool done) {
    if (!w->started) w->emit("!!completion-before-start");
    if (++w->rootCompletions > 1) w->emit("!!root-completed-twice");
    if (w->tokRegs) {
      // :w mode — nothing may be left registered on the receiver's stop token when the task has produced a
      // value or an exception (on the done path the awaiter releases it when it is destroyed)
      w->emit("cb" + std::to_string(*w->tokRegs));
      if (!done && *w->tokRegs != 0) w->emit("!!cbreg=" + std::to_string(*w->tokRegs));
    }
    w->emit(s);
  }
  void set_value(int v) noexcept { record("R=v" + std::to_string(v), false); }
  void set_error(std::exception_ptr e) noexcept { record("R=e" + std::to_string(errcode(e)), false); }
  void set_done() noexcept { record("R=d", true); }
};
// (default) the receiver exposes an inplace_stop_token: task<> interposes the stop-request thunk
struct RootReceiver : RootBase {
  friend inplace_stop_token tag_invoke(tag_t<get_stop_token>, const RootReceiver& r) noexcept { return r.src->get_token(); }
  friend ManualScheduler tag_invoke(tag_t<get_scheduler>, const RootReceiver& r) noexcept { return ManualScheduler{r.w, 0}; }
};
// `:u` the receiver has no stop token (unstoppable_token): task<> connects as sa_task, no thunk
struct RootReceiverU : RootBase {
  friend ManualScheduler tag_invoke(tag_t<get_scheduler>, const RootReceiverU& r) noexcept { return ManualScheduler{r.w, 0}; }
};
// `:w` the receiver exposes a stop token of a foreign type: the awaiter adapts it (inplace_stop_token_adapter).
// The token COUNTS the callbacks registered on it (+1 at construction, -1 when invoked or destroyed).
struct CountTok {
  inplace_stop_token t;
  std::shared_ptr<int> n;
  bool stop_requested() const noexcept { return t.stop_requested(); }
  bool stop_possible() const noexcept { return t.stop_possible(); }
  template <typename F>
  struct callback_type {
    struct Fire { callback_type* self; void operator()() noexcept { std::move(self->f)(); } };
    F f; std::shared_ptr<int> n;
    inplace_stop_callback<Fire> cb;
    template <typename F2>
    callback_type(CountTok tok, F2&& f2) : f((F2&&)f2), n((++*tok.n, std::move(tok.n))), cb(tok.t, Fire{this}) {}
    ~callback_type() { --*n; }
  };
};
struct RootReceiverW : RootBase {
  friend CountTok tag_invoke(tag_t<get_stop_token>, const RootReceiverW& r) noexcept { return CountTok{r.src->get_token(), r.w->tokRegs}; }
  friend ManualScheduler tag_invoke(tag_t<get_scheduler>, const RootReceiverW& r) noexcept { return ManualScheduler{r.w, 0}; }
};

static std::string flush(World& w) {
  std::string s;
  for (size_t i = 0; i < w.out.size(); ++i) { if (i) s += ","; s += w.out[i]; }
  w.out.clear();
  return s.empty() ? "-" : s;
}
static std::vector<std::string> split(const std::string& s, char d) {
  std::vector<std::string> r; std::stringstream ss(s); std::string it;
  while (std::getline(ss, it, d)) r.push_back(it);
  return r;
}
static std::string trim(const std::string& s) {
  size_t a = s.find_first_not_of(" \t\r\n"), b = s.find_last_not_of(" \t\r\n");
  return a == std::string::npos ? "" : s.substr(a, b - a + 1);
}
static void parse_outcome(const std::string& o, char& chan, int& val) {
  chan = o.empty() ? 'v' : o[0];
  val = o.size() > 1 ? atoi(o.c_str() + 1) : 0;
}

template <typename Rcv>
static std::string run_case_impl(const std::string& line) {
  auto parts = split(line, '|');
  if (parts.size() == 4) parts.push_back("");
  if (parts.size() < 5) return "bad-op";
  std::string id = trim(parts[0]);
  World w;
  w.inlineSched = trim(parts[1]).rfind("man", 0) != 0;
  if constexpr (std::is_same_v<Rcv, RootReceiverW>) w.tokRegs = std::make_shared<int>(0);
  {
    std::stringstream ss(parts[3]); std::string tok;
    while (ss >> tok) {
      auto eq = tok.find('=');
      int i = atoi(tok.substr(0, eq).c_str());
      std::string v = tok.substr(eq + 1);
      auto col = v.find(':');
      std::string kind = v.substr(0, col), arg = v.substr(col + 1);
      Spec sp;
      sp.inline_ = kind[0] == 'i';
      sp.affine = kind.size() > 1 && kind[1] == 'a';
      // plain awaitables: r ready | b0 bool false | h0 handle self  (complete inline) ; b1 | h1 | vd (suspend)
      if (kind == "r" || kind == "b0" || kind == "h0") { sp.plain = kind[0]; sp.inline_ = true; }
      if (kind == "b1" || kind == "h1" || kind == "vd") { sp.plain = kind[0]; sp.inline_ = false; }
      if (arg == "ign") sp.reacts = false;
      else { sp.reacts = !sp.inline_; parse_outcome(arg, sp.chan, sp.val); }
      w.specs[i] = sp;
    }
  }
  Parser ps(parts[2]);
  auto prog = std::make_shared<Prog>(ps.prog());
  inplace_stop_source src;
  std::string res = id;
  {
    using OpT = connect_result_t<task<int>, Rcv>;   // not movable when async stacks are on: construct in place
    std::unique_ptr<OpT> op(new OpT(unifex::connect(interp(&w, prog, FrameTag{&w, w.nextFrame++}), Rcv{{&w, &src}})));
    w.out.clear();
    std::stringstream es(parts[4]); std::string ev;
    auto one = [&](const std::string& ev) {
      if (ev == "start") { if (!w.started) { w.started = true; unifex::start(*op); } else w.emit("!!bad-op"); }
      else if (ev == "stop") { src.request_stop(); }
      else if (ev == "run") {
        if (w.queue.empty()) w.emit("!!bad-op");
        else { auto* o = w.queue.front(); w.queue.pop_front(); o->run(); }
      }
      else if (ev.rfind("c?:", 0) == 0) {
        // complete whatever leaf is pending (a cleanup leaf always with a value)
        if (w.running.empty()) w.emit("!!bad-op");
        else {
          int i = w.running.begin()->first;
          char ch; int v; parse_outcome(ev.substr(3), ch, v);
          if (w.inCleanup[i]) { ch = 'v'; v = 0; }
          if (w.isPlain.count(i) && ch == 'd') { ch = 'v'; v = 0; }
          w.running.begin()->second->complete(ch, v);
        }
      }
      else if (ev[0] == 'c') {
        auto col = ev.find(':');
        int i = atoi(ev.substr(1, col - 1).c_str());
        char ch; int v; parse_outcome(ev.substr(col + 1), ch, v);
        auto it = w.running.find(i);
        if (it == w.running.end()) w.emit("!!bad-op");
        else it->second->complete(ch, v);
      }
      res += " | " + flush(w);
    };
    while (es >> ev) one(ev);
    // drain
    while (!w.queue.empty() || !w.running.empty()) {
      if (!w.queue.empty()) one("run");
      else {
        int i = w.running.begin()->first;
        one("c" + std::to_string(i) + (w.inCleanup[i] || w.isPlain.count(i) ? ":v0" : ":d"));
      }
    }
    if (w.started && w.rootCompletions != 1) res += " | !!root-completions=" + std::to_string(w.rootCompletions);
    for (auto& kv : w.sirState)
      if (kv.second == 1) res += " | !!sir-cancelled-without-stop-request";
    op.reset();
    if (w.tokRegs) {
      w.emit("cb" + std::to_string(*w.tokRegs));
      if (*w.tokRegs != 0) w.emit("!!cbreg-after-destroy=" + std::to_string(*w.tokRegs));
    }
    // a late stop request, after the operation state is gone: nothing may be left behind to receive it (ASan).
    // (skipped when the counting token has already reported a leftover registration, so that report survives)
    if (!(w.tokRegs && *w.tokRegs != 0)) src.request_stop();
    res += " | " + flush(w);
  }
  for (int f = 0; f < w.nextFrame; ++f)
    if (w.frameDestroyed[f] != 1) res += " | !!frame" + std::to_string(f) + "-destroyed=" + std::to_string(w.frameDestroyed[f]);
  return res;
}

static std::string run_case(const std::string& line) {
  auto parts = split(line, '|');
  std::string mode = parts.size() > 1 ? trim(parts[1]) : "";
  if (mode.size() > 2 && mode.substr(mode.size() - 2) == ":u") return run_case_impl<RootReceiverU>(line);
  if (mode.size() > 2 && mode.substr(mode.size() - 2) == ":w") return run_case_impl<RootReceiverW>(line);
  return run_case_impl<RootReceiver>(line);
}

int main() {
  std::string line;
  std::cout << std::unitbuf;
  while (std::getline(std::cin, line)) {
    if (line.empty()) continue;
    long before = g_live;
    try {
      std::string s = run_case(line.substr(line.find(' ') + 1));
      std::cout << s;
      std::string().swap(s);
    }
    catch (const std::exception& e) { std::cout << "bad-op " << e.what(); }
    if (g_live != before) std::cout << " | !!leak=" << (g_live - before);
    std::cout << "\n";
  }
  return 0;
}
