// fusedprobe.cpp — operation sequences on the REAL unifex::fused_stop_source<inplace_stop_token x3> (C03/C04).
// stdin:  <mask> | op op ...     mask: 3 characters, 1 = the upstream token has a source, 0 = default-constructed token
//                                 ops:  R register_callbacks   D deregister_callbacks   S<i> request_stop on source i
// stdout: one 0/1 per op = fused.stop_requested() after it  (compared with `ask fused run | …` of the Lean model)
#include <unifex/fused_stop_source.hpp>
#include <unifex/inplace_stop_token.hpp>

#include <iostream>
#include <sstream>
#include <string>

using namespace unifex;

int main() {
  std::string line;
  while (std::getline(std::cin, line)) {
    auto bar = line.find('|');
    if (bar == std::string::npos) { std::cout << "bad-op\n"; continue; }
    std::string mask = line.substr(0, bar), ops = line.substr(bar + 1);
    while (!mask.empty() && mask.back() == ' ') mask.pop_back();
    inplace_stop_source src[3];
    auto tok = [&](int i) { return (i < (int)mask.size() && mask[i] == '1') ? src[i].get_token() : inplace_stop_token{}; };
    std::string out;
    {
      fused_stop_source<inplace_stop_token, inplace_stop_token, inplace_stop_token> fused;
      bool reg = false;
      std::stringstream ss(ops); std::string op;
      while (ss >> op) {
        if (op == "R") { if (!reg) { fused.register_callbacks(tok(0), tok(1), tok(2)); reg = true; } }
        else if (op == "D") { fused.deregister_callbacks(); reg = false; }
        else if (op[0] == 'S') { int i = op[1] - '0'; if (i >= 0 && i < 3) src[i].request_stop(); }
        else { out += "bad-op "; continue; }
        out += fused.stop_requested() ? "1 " : "0 ";
      }
      if (reg) fused.deregister_callbacks();
    }
    if (!out.empty()) out.pop_back();
    std::cout << out << "\n";
  }
  return 0;
}
