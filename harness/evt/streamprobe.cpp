// C13 model-independent probe: scheduler-hopping stream adaptors (on_stream / via_stream over inline_scheduler and
// trampoline_scheduler) above a hand-written tracked source stream, consumed by for_each / reduce_stream, with a stop
// request at every position.  Single-threaded, deterministic; one line per case, judged by tools/checks/c13_probe.py.
#include <unifex/blocking.hpp>
#include <unifex/for_each.hpp>
#include <unifex/get_stop_token.hpp>
#include <unifex/inline_scheduler.hpp>
#include <unifex/inplace_stop_token.hpp>
#include <unifex/on_stream.hpp>
#include <unifex/receiver_concepts.hpp>
#include <unifex/reduce_stream.hpp>
#include <unifex/sender_concepts.hpp>
#include <unifex/stream_concepts.hpp>
#include <unifex/trampoline_scheduler.hpp>
#include <unifex/via_stream.hpp>

#include <cstdio>
#include <exception>
#include <string>
#include <utility>
#include <vector>

using namespace unifex;

struct Counters {
  int next_started = 0, next_completed = 0, cleanup_started = 0, cleanup_completed = 0;
  bool cleanup_during_next = false;
};

struct Src;

template <typename R>
struct NextOp {
  Src& s_;
  R r_;
  void start() noexcept;
};

struct NextSender {
  Src& s_;
  template <template <typename...> class Variant, template <typename...> class Tuple>
  using value_types = Variant<Tuple<int>>;
  template <template <typename...> class Variant>
  using error_types = Variant<>;
  static constexpr bool sends_done = true;
  template <typename R>
  NextOp<remove_cvref_t<R>> connect(R&& r) && {
    return NextOp<remove_cvref_t<R>>{s_, (R &&) r};
  }
};

template <typename R>
struct CleanupOp {
  Src& s_;
  R r_;
  void start() noexcept;
};

struct CleanupSender {
  Src& s_;
  template <template <typename...> class Variant, template <typename...> class Tuple>
  using value_types = Variant<>;
  template <template <typename...> class Variant>
  using error_types = Variant<>;
  static constexpr bool sends_done = true;
  template <typename R>
  CleanupOp<remove_cvref_t<R>> connect(R&& r) && {
    return CleanupOp<remove_cvref_t<R>>{s_, (R &&) r};
  }
};

struct Src {
  Counters* c_;
  int next_;
  int n_;
  friend NextSender tag_invoke(tag_t<next>, Src& s) noexcept { return NextSender{s}; }
  friend CleanupSender tag_invoke(tag_t<cleanup>, Src& s) noexcept { return CleanupSender{s}; }
};

template <typename R>
void NextOp<R>::start() noexcept {
  Counters& c = *s_.c_;
  c.next_started++;
  bool stopped = get_stop_token(r_).stop_requested();
  if (!stopped && s_.next_ < s_.n_) {
    int v = s_.next_++;
    c.next_completed++;
    unifex::set_value(std::move(r_), static_cast<int>(v));  // prvalue, as range_stream does
  } else {
    c.next_completed++;
    unifex::set_done(std::move(r_));
  }
}

template <typename R>
void CleanupOp<R>::start() noexcept {
  Counters& c = *s_.c_;
  c.cleanup_started++;
  if (c.next_started != c.next_completed)
    c.cleanup_during_next = true;
  c.cleanup_completed++;
  unifex::set_done(std::move(r_));
}

struct Outcome {
  int completions = 0;
  std::string result = "none";
  long fold = -1;
  bool result_before_cleanup = false;
};

struct Recv {
  Outcome* o_;
  Counters* c_;
  inplace_stop_source* ss_;
  void done(const char* what) noexcept {
    o_->completions++;
    o_->result = what;
    if (c_->cleanup_started != c_->cleanup_completed || (c_->next_started > 0 && c_->cleanup_completed == 0))
      o_->result_before_cleanup = true;
  }
  void set_value() && noexcept { done("value"); }
  void set_value(long v) && noexcept {
    o_->fold = v;
    done("value");
  }
  template <typename E>
  void set_error(E&&) && noexcept {
    done("error");
  }
  void set_done() && noexcept { done("done"); }
  friend inplace_stop_token tag_invoke(tag_t<get_stop_token>, const Recv& r) noexcept { return r.ss_->get_token(); }
};

// stop: -2 = none, -1 = pre (before start), k>=0 = from inside the callback on element k
template <typename Make>
void run_case(const char* config, Make make, bool reduce, int n, int stop) {
  Counters c;
  Outcome o;
  inplace_stop_source ss;
  std::vector<int> elems;
  auto on_elem = [&](int v) {
    elems.push_back(v);
    if (v == stop)
      ss.request_stop();
  };
  if (stop == -1)
    ss.request_stop();
  if (reduce) {
    auto s = reduce_stream(make(Src{&c, 0, n}), 0L, [&](long st, int v) {
      on_elem(v);
      return st * 31 + v + 1;
    });
    auto op = unifex::connect(std::move(s), Recv{&o, &c, &ss});
    unifex::start(op);
  } else {
    auto s = for_each(make(Src{&c, 0, n}), [&](int v) { on_elem(v); });
    auto op = unifex::connect(std::move(s), Recv{&o, &c, &ss});
    unifex::start(op);
  }
  std::string es;
  for (size_t i = 0; i < elems.size(); ++i)
    es += (i ? "," : "") + std::to_string(elems[i]);
  std::string st = stop == -2 ? "none" : stop == -1 ? "pre" : std::to_string(stop);
  std::printf(
      "%s consumer=%s n=%d stop=%s : result=%s elems=%s nexts=%d/%d cleanups=%d/%d cleanup_during_next=%d "
      "result_before_cleanup=%d completions=%d fold=%ld\n",
      config, reduce ? "reduce_stream" : "for_each", n, st.c_str(), o.result.c_str(), es.c_str(), c.next_started,
      c.next_completed, c.cleanup_started, c.cleanup_completed, (int)c.cleanup_during_next,
      (int)o.result_before_cleanup, o.completions, o.fold);
  std::fflush(stdout);
}

template <typename Make>
void run_config(const char* config, Make make) {
  for (int reduce = 0; reduce < 2; ++reduce)
    for (int n : {0, 1, 4})
      for (int stop = -2; stop <= n; ++stop)
        run_case(config, make, reduce != 0, n, stop);
}

int main() {
  run_config("bare", [](Src s) { return s; });
  run_config("on_stream(inline)", [](Src s) { return on_stream(inline_scheduler{}, std::move(s)); });
  run_config("via_stream(inline)", [](Src s) { return via_stream(inline_scheduler{}, std::move(s)); });
  run_config("on_stream(inline,via_stream(inline))", [](Src s) {
    return on_stream(inline_scheduler{}, via_stream(inline_scheduler{}, std::move(s)));
  });
  run_config("on_stream(trampoline)", [](Src s) { return on_stream(trampoline_scheduler{}, std::move(s)); });
  run_config("via_stream(trampoline)", [](Src s) { return via_stream(trampoline_scheduler{}, std::move(s)); });
  run_config("on_stream(trampoline,via_stream(trampoline))", [](Src s) {
    return on_stream(trampoline_scheduler{2}, via_stream(trampoline_scheduler{2}, std::move(s)));
  });
  return 0;
}
