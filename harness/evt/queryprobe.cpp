// queryprobe.cpp — receiver-query plumbing probes (C12) for algorithms that are OUTSIDE the sender calculus
// (retry_when, when_all_range, repeat_effect_until, repeat_effect) and, as controls, a few that are inside it.
// A probe leaf is put in every child position; when started it records what its receiver answers to
//   get_tag (noexcept custom query), get_label (custom query that is NOT noexcept and returns a std::string),
//   get_allocator, get_stop_token().stop_possible()
// The root receiver answers tag=42 label=root alloc=9 with a stoppable token, so every position must print exactly that.
// Both custom CPOs have a default (-1 / "<default>"), so a dropped forwarding overload shows as a wrong value, not as
// a build break.  Model-independent: the expectation is the C12 statement.
#include <unifex/finally.hpp>
#include <unifex/get_allocator.hpp>
#include <unifex/inplace_stop_token.hpp>
#include <unifex/just.hpp>
#include <unifex/let_done.hpp>
#include <unifex/let_error.hpp>
#include <unifex/materialize.hpp>
#include <unifex/dematerialize.hpp>
#include <unifex/repeat_effect_until.hpp>
#include <unifex/retry_when.hpp>
#include <unifex/sequence.hpp>
#include <unifex/stop_when.hpp>
#include <unifex/then.hpp>
#include <unifex/when_all.hpp>
#include <unifex/when_all_range.hpp>

#include <cstdio>
#include <map>
#include <memory>
#include <string>
#include <vector>

using namespace unifex;

inline constexpr struct get_tag_fn {
  template <typename R>
  int operator()(const R& r) const noexcept {
    if constexpr (is_tag_invocable_v<get_tag_fn, const R&>) return tag_invoke(*this, r); else return -1;
  }
} get_tag{};
inline constexpr struct get_label_fn {
  template <typename R>
  std::string operator()(const R& r) const {   // deliberately not noexcept
    if constexpr (is_tag_invocable_v<get_label_fn, const R&>) return tag_invoke(*this, r); else return "<default>";
  }
} get_label{};

template <typename T>
struct IdAlloc {
  using value_type = T;
  int id = 0;
  IdAlloc() = default;
  explicit IdAlloc(int i) noexcept : id(i) {}
  template <typename U> IdAlloc(const IdAlloc<U>& o) noexcept : id(o.id) {}
  T* allocate(std::size_t n) { return static_cast<T*>(::operator new(n * sizeof(T))); }
  void deallocate(T* p, std::size_t) noexcept { ::operator delete(p); }
  template <typename U> bool operator==(const IdAlloc<U>& o) const noexcept { return id == o.id; }
  template <typename U> bool operator!=(const IdAlloc<U>& o) const noexcept { return id != o.id; }
};

static std::map<std::string, int> g_starts;
static std::vector<std::string> g_lines;

struct Probe {
  template <template <typename...> class V, template <typename...> class T> using value_types = V<T<int>>;
  template <template <typename...> class V> using error_types = V<std::exception_ptr>;
  static constexpr bool sends_done = true;
  std::string name; char mode;   // 'v' value, 'e' error on the first start then value, 'd' done
  template <typename R>
  struct Op {
    std::string name; char mode; R r;
    void start() noexcept {
      int n = ++g_starts[name];
      int alloc = -1;
      auto a = get_allocator(std::as_const(r));
      if constexpr (std::is_same_v<decltype(a), IdAlloc<std::byte>>) alloc = a.id;
      std::string label;
      try { label = get_label(std::as_const(r)); } catch (...) { label = "<threw>"; }
      g_lines.push_back(name + "#" + std::to_string(n) + " tag=" + std::to_string(get_tag(std::as_const(r))) + " label=" + label +
                        " alloc=" + std::to_string(alloc) + " stoppable=" + (get_stop_token(std::as_const(r)).stop_possible() ? "1" : "0"));
      if (mode == 'd') unifex::set_done(std::move(r));
      else if (mode == 'e' && n == 1) unifex::set_error(std::move(r), std::make_exception_ptr(1));
      else unifex::set_value(std::move(r), 1);
    }
  };
  template <typename R>
  friend Op<remove_cvref_t<R>> tag_invoke(tag_t<connect>, Probe p, R&& r) { return Op<remove_cvref_t<R>>{p.name, p.mode, (R&&)r}; }
};

struct Root {
  inplace_stop_source* src;
  template <typename... Vs> void set_value(Vs&&...) && noexcept {}
  template <typename E> void set_error(E&&) && noexcept {}
  void set_done() && noexcept {}
  friend inplace_stop_token tag_invoke(tag_t<get_stop_token>, const Root& r) noexcept { return r.src->get_token(); }
  friend int tag_invoke(get_tag_fn, const Root&) noexcept { return 42; }
  friend std::string tag_invoke(get_label_fn, const Root&) { return "root"; }
  friend IdAlloc<std::byte> tag_invoke(tag_t<get_allocator>, const Root&) noexcept { return IdAlloc<std::byte>{9}; }
};

template <typename S>
static void run(S&& s) {
  inplace_stop_source src;
  auto op = connect((S&&)s, Root{&src});
  start(op);
}

static auto discard(Probe p) { return then(std::move(p), [](int) noexcept {}); }

int main() {
  run(retry_when(Probe{"retry_when.source", 'e'}, [](std::exception_ptr) { return discard(Probe{"retry_when.trigger", 'v'}); }));
  { std::vector<Probe> v; v.push_back(Probe{"when_all_range.elem0", 'v'}); v.push_back(Probe{"when_all_range.elem1", 'v'}); run(when_all_range(std::move(v))); }
  { int n = 0; run(repeat_effect_until(discard(Probe{"repeat_effect_until.source", 'v'}), [&n]() noexcept { return ++n >= 2; })); }
  // controls (inside the calculus as well)
  run(let_error(Probe{"let_error.source", 'e'}, [](std::exception_ptr) { return Probe{"let_error.handler", 'v'}; }));
  run(let_done(Probe{"let_done.source", 'd'}, [] { return Probe{"let_done.handler", 'v'}; }));
  run(finally(Probe{"finally.source", 'v'}, discard(Probe{"finally.completion", 'v'})));
  run(sequence(discard(Probe{"sequence.first", 'v'}), Probe{"sequence.second", 'v'}));
  run(stop_when(Probe{"stop_when.source", 'v'}, discard(Probe{"stop_when.trigger", 'v'})));
  run(dematerialize(materialize(Probe{"materialize.child", 'v'})));
  for (auto& l : g_lines) std::printf("%s\n", l.c_str());
  return 0;
}
