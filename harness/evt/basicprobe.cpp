// C19 probe for create_basic_sender (model-independent; the oracle is the C19 statement itself):
// however a natural completion, a stop request and the return of start() interleave, exactly one of them completes
// the receiver; the user's stop hook runs at most once, only for an operation that was started and not yet completed;
// after the winner has completed no code touches the operation state - late safe callbacks are no-ops.
//
// Single-threaded, deterministic.  One line per scenario:
//   stop=<where> hook=<what> complete=<how> : values=N dones=N errors=N hook_runs=N hook_after_completion=B
//        hook_before_start=B late_cb_ran=B [nocomplete-expected]
// The receiver destroys the operation state from inside its completion, fills the storage with 0xA5 and poisons it
// for ASan, so any later touch of the operation state aborts the process.
#include <unifex/create_basic_sender.hpp>
#include <unifex/inplace_stop_token.hpp>
#include <unifex/receiver_concepts.hpp>
#include <unifex/sender_concepts.hpp>

#include <cstdio>
#include <cstring>
#include <exception>
#include <functional>
#include <new>
#include <unistd.h>

#if defined(__SANITIZE_ADDRESS__)
#  include <sanitizer/asan_interface.h>
#  define POISON(p, n) __asan_poison_memory_region((p), (n))
#  define UNPOISON(p, n) __asan_unpoison_memory_region((p), (n))
#else
#  define POISON(p, n) ((void)0)
#  define UNPOISON(p, n) ((void)0)
#endif

using namespace unifex;

enum Stop { S_NEVER, S_BEFORE, S_INSTART, S_INCALLBACK, S_AFTERSTART, S_LATE, S_N };
enum Hook { H_NOTHING, H_DONE, H_NESTED, H_N };
enum Comp { C_START, C_CALLBACK, C_UCALLBACK, C_NEVER, C_N };
static const char* stopN[] = {"never", "before", "instart", "incallback", "afterstart", "late"};
static const char* hookN[] = {"nothing", "done", "nested"};
static const char* compN[] = {"start", "callback", "ucallback", "never"};

enum Kind { K_COMPLETE = 1, K_STOP = 2, K_NESTED = 3, K_LATE = 4 };

struct Ctx {
  int stop, hook, comp;
  inplace_stop_source src;
  int values = 0, dones = 0, errors = 0, hook_runs = 0;
  bool hook_after_completion = false, hook_before_start = false, late_cb_ran = false;
  bool start_entered = false, completed = false;
  void* buf = nullptr;
  size_t size = 0;
  void (*destroy)(void*) = nullptr;
  std::function<void(int)> cb;       // the callback used for natural completion / stop-in-callback
  std::function<void(int)> late_cb;  // a safe callback, invoked after completion

  void on_complete() {
    if (completed)
      return;  // double completion: counted by the caller, the state is already gone
    completed = true;
    destroy(buf);
    std::memset(buf, 0xA5, size);
    POISON(buf, size);
  }
};

struct Rcv {
  Ctx* c;
  void set_value(int) && noexcept {
    Ctx* k = c;
    ++k->values;
    k->on_complete();
  }
  void set_error(std::exception_ptr) && noexcept {
    Ctx* k = c;
    ++k->errors;
    k->on_complete();
  }
  void set_done() && noexcept {
    Ctx* k = c;
    ++k->dones;
    k->on_complete();
  }
  friend inplace_stop_token tag_invoke(tag_t<get_stop_token>, const Rcv& r) noexcept {
    return r.c->src.get_token();
  }
};

static auto make_sender(Ctx* c) {
  return create_basic_sender<int>([c](auto event, auto& op, auto... args) noexcept {
    if constexpr (event.is_start) {
      c->start_entered = true;
      if (c->comp == C_UCALLBACK)
        c->cb = unsafe_callback<int>(op);
      else
        c->cb = safe_callback<int>(op);
      c->late_cb = safe_callback<int>(op);
      if (c->stop == S_INSTART)
        c->src.request_stop();
      if (c->comp == C_START)
        op.set_value(1);
    } else if constexpr (event.is_callback) {
      int kind = (args, ...);
      switch (kind) {
        case K_COMPLETE: op.set_value(2); break;
        case K_STOP:
          c->src.request_stop();
          if (c->comp == C_CALLBACK || c->comp == C_UCALLBACK)
            op.set_value(3);  // natural completion in the same frame, after the stop request
          break;
        case K_NESTED: op.set_done(); break;
        case K_LATE: c->late_cb_ran = true; break;
      }
    } else if constexpr (event.is_stop) {
      ++c->hook_runs;
      if (c->completed)
        c->hook_after_completion = true;
      if (!c->start_entered)
        c->hook_before_start = true;
      if (c->hook == H_DONE)
        op.set_done();
      else if (c->hook == H_NESTED)
        safe_callback<int>(op)(K_NESTED);
    }
  });
}

static void run(int stop, int hook, int comp) {
  // stop hook never runs without a stop request: one representative is enough
  if (stop == S_NEVER && hook != H_NOTHING)
    return;
  // "late" stop needs a completion to be late to
  if (stop == S_LATE && comp == C_NEVER)
    return;
  // does anything complete it?
  bool stop_reaches_started_op = stop == S_INSTART || stop == S_INCALLBACK || stop == S_AFTERSTART;
  bool expect_complete = comp != C_NEVER || stop == S_BEFORE || (stop_reaches_started_op && hook != H_NOTHING);

  Ctx ctx{stop, hook, comp};
  using S = decltype(make_sender(&ctx));
  using Op = connect_result_t<S, Rcv>;
  ctx.size = sizeof(Op);
  ctx.buf = ::operator new(sizeof(Op), std::align_val_t(alignof(Op)));
  ctx.destroy = [](void* p) { static_cast<Op*>(p)->~Op(); };
  Op* op = ::new (ctx.buf) Op(connect(make_sender(&ctx), Rcv{&ctx}));

  if (stop == S_BEFORE)
    ctx.src.request_stop();
  start(*op);
  if (stop == S_AFTERSTART)
    ctx.src.request_stop();
  auto call = [&](int kind) {
    if (!ctx.cb)
      return;  // start handler never ran (stopped before start)
    if (comp == C_UCALLBACK && ctx.completed)
      return;  // an unsafe callback must not be invoked after completion (caller's contract)
    ctx.cb(kind);
  };
  if (stop == S_INCALLBACK)
    call(K_STOP);
  else if (comp == C_CALLBACK || comp == C_UCALLBACK)
    call(K_COMPLETE);
  if (stop == S_LATE)
    ctx.src.request_stop();
  if (ctx.completed && ctx.late_cb) {
    ctx.late_cb(K_LATE);  // late safe callback: must be a no-op
    ctx.late_cb(K_COMPLETE);
  }

  std::printf(
      "stop=%s hook=%s complete=%s : values=%d dones=%d errors=%d hook_runs=%d hook_after_completion=%d "
      "hook_before_start=%d late_cb_ran=%d%s\n",
      stopN[stop], hookN[hook], compN[comp], ctx.values, ctx.dones, ctx.errors, ctx.hook_runs,
      (int)ctx.hook_after_completion, (int)ctx.hook_before_start, (int)ctx.late_cb_ran,
      expect_complete ? "" : " nocomplete-expected");
  std::fflush(stdout);

  ctx.cb = nullptr;
  ctx.late_cb = nullptr;
  if (!ctx.completed) {
    op->~Op();
  } else {
    UNPOISON(ctx.buf, ctx.size);
  }
  ::operator delete(ctx.buf, std::align_val_t(alignof(Op)));
}

int main() {
  alarm(60);  // a hang (e.g. a lock taken on a dead operation state) must not block the run
  for (int s = 0; s < S_N; ++s)
    for (int h = 0; h < H_N; ++h)
      for (int c = 0; c < C_N; ++c)
        run(s, h, c);
  return 0;
}
