// loopprobe.cpp — scripted runs of the REAL repeat_effect_until and retry_when (C05, C02), see Driver/Entries/Loops.lean.
// stdin lines:   rep | v:n v:n v:t3        ret | e1:v e2:v:c5 v7
// stdout: =vN | =eN | =d | =pending   followed by monitors:  !!completions=N  !!src-ops=constructed/destroyed
// (every source operation state that was constructed is destroyed exactly once, none that was not constructed)
#include <unifex/just.hpp>
#include <unifex/repeat_effect_until.hpp>
#include <unifex/retry_when.hpp>
#include <unifex/then.hpp>

#include <iostream>
#include <sstream>
#include <string>
#include <vector>

using namespace unifex;

struct Err { int code; };
static int errcode(std::exception_ptr e) { try { std::rethrow_exception(e); } catch (const Err& x) { return x.code; } catch (...) { return -1; } }

struct Outc { char k = 'v'; int n = 0; };
static Outc parse_out(const std::string& s) { Outc o; o.k = s[0]; o.n = s.size() > 1 ? atoi(s.c_str() + 1) : 0; return o; }
static std::vector<std::string> split(const std::string& s, char d) { std::vector<std::string> r; std::stringstream ss(s); std::string it; while (std::getline(ss, it, d)) r.push_back(it); return r; }

struct Step { Outc src, trig; int connectThrows = -1; char pred = 'n'; int predErr = 0; };
struct Script { std::vector<Step> steps; size_t next = 0; int ctor = 0, dtor = 0, badDtor = 0; };

template <typename... Vs>
struct Scripted {   // source: consumes one step per connect
  template <template <typename...> class V, template <typename...> class T> using value_types = V<T<Vs...>>;
  template <template <typename...> class V> using error_types = V<std::exception_ptr>;
  static constexpr bool sends_done = true;
  Script* sc;
  template <typename R>
  struct Op {
    Script* sc; Outc o; R r; bool alive = true;
    Op(Script* s, Outc o, R&& r) : sc(s), o(o), r(std::move(r)) { ++sc->ctor; }
    Op(Op&&) = delete;
    ~Op() { if (alive) { alive = false; ++sc->dtor; } else ++sc->badDtor; }
    void start() noexcept {
      if (o.k == 'p') return;   // script exhausted: stays pending
      if (o.k == 'e') unifex::set_error(std::move(r), std::make_exception_ptr(Err{o.n}));
      else if (o.k == 'd') unifex::set_done(std::move(r));
      else if constexpr (sizeof...(Vs) == 0) unifex::set_value(std::move(r)); else unifex::set_value(std::move(r), (int)o.n);
    }
  };
  template <typename R>
  friend Op<remove_cvref_t<R>> tag_invoke(tag_t<connect>, const Scripted& s, R&& r) {
    Script* sc = s.sc;
    if (sc->next >= sc->steps.size()) return Op<remove_cvref_t<R>>{sc, Outc{'p', 0}, (R&&)r};
    Step st = sc->steps[sc->next++];
    if (st.connectThrows >= 0) throw Err{st.connectThrows};
    return Op<remove_cvref_t<R>>{sc, st.src, (R&&)r};
  }
};

struct TrigSender {   // trigger of retry_when: outcome of the step whose source just failed
  template <template <typename...> class V, template <typename...> class T> using value_types = V<T<>>;
  template <template <typename...> class V> using error_types = V<std::exception_ptr>;
  static constexpr bool sends_done = true;
  Outc o;
  template <typename R> struct Op { Outc o; R r; void start() noexcept {
      if (o.k == 'e') unifex::set_error(std::move(r), std::make_exception_ptr(Err{o.n})); else if (o.k == 'd') unifex::set_done(std::move(r)); else unifex::set_value(std::move(r)); } };
  template <typename R> friend Op<remove_cvref_t<R>> tag_invoke(tag_t<connect>, TrigSender s, R&& r) { return Op<remove_cvref_t<R>>{s.o, (R&&)r}; }
};

struct Root {
  std::string* out; int* n;
  template <typename... Vs> void set_value(Vs&&... vs) && noexcept { ++*n; if constexpr (sizeof...(Vs) == 0) *out = "=v0"; else *out = "=v" + std::to_string((vs, ...)); }
  void set_error(std::exception_ptr e) && noexcept { ++*n; *out = "=e" + std::to_string(errcode(e)); }
  void set_done() && noexcept { ++*n; *out = "=d"; }
};

int main() {
  std::string line;
  while (std::getline(std::cin, line)) {
    auto parts = split(line, '|');
    if (parts.size() != 2) { std::cout << "bad-op\n"; continue; }
    std::string kind = parts[0]; kind.erase(kind.find_last_not_of(' ') + 1);
    Script sc; std::stringstream ss(parts[1]); std::string tok;
    while (ss >> tok) {
      auto f = split(tok, ':'); Step st; st.src = parse_out(f[0]);
      if (kind == "rep") { st.pred = f.at(1)[0]; st.predErr = f[1].size() > 1 ? atoi(f[1].c_str() + 1) : 0; }
      else { st.trig = f.size() > 1 ? parse_out(f[1]) : Outc{'d', 0}; if (f.size() > 2) st.connectThrows = atoi(f[2].c_str() + 1); }
      sc.steps.push_back(st);
    }
    std::string out = "=pending"; int completions = 0;
    try {
      if (kind == "rep") {
        auto pred2 = [&sc]() -> bool { Step& st = sc.steps.at(sc.next - 1); if (st.pred == 't') throw Err{st.predErr}; return st.pred == 'y'; };
        auto op = connect(repeat_effect_until(Scripted<>{&sc}, pred2), Root{&out, &completions});
        start(op);
      } else {
        auto func = [&sc](std::exception_ptr) { return TrigSender{sc.steps.at(sc.next - 1).trig}; };
        auto op = connect(retry_when(Scripted<int>{&sc}, func), Root{&out, &completions});
        start(op);
      }
    } catch (const Err& e) { out = "threw e" + std::to_string(e.code); }
    if (out == "=pending" ? completions != 0 : completions != 1) out += " !!completions=" + std::to_string(completions);
    if (sc.ctor != sc.dtor || sc.badDtor) out += " !!src-ops=" + std::to_string(sc.ctor) + "/" + std::to_string(sc.dtor) + (sc.badDtor ? "+bad" + std::to_string(sc.badDtor) : "");
    std::cout << out << "\n";
  }
  return 0;
}
