// allocprobe.cpp — allocator plumbing probes (C12): every library entry point that takes an allocator, or
// takes it from the receiver, must (a) allocate from exactly that allocator and give the memory back to it,
// and (b) answer get_allocator(receiver) with it for the work it starts.  One line per probe:
//   <probe> given=<id> seen=<id seen by the started leaf> from_given=<n> from_other=<n> live=<n>
// The driver (tools/checks/c12.py) compares with the expected line; the expectations are the C12 statement,
// not a transcription of the code.
#include <unifex/allocate.hpp>
#include <unifex/get_allocator.hpp>
#include <unifex/just.hpp>
#include <unifex/spawn_detached.hpp>
#include <unifex/spawn_future.hpp>
#include <unifex/sync_wait.hpp>
#include <unifex/then.hpp>
#include <unifex/v1/async_scope.hpp>
#include <unifex/v2/async_scope.hpp>
#include <unifex/with_allocator.hpp>

#include <cstdio>
#include <cstdlib>
#include <memory>

using namespace unifex;

static long g_from[16], g_live = 0;
template <typename T>
struct IdAlloc {
  using value_type = T;
  int id = 0;
  IdAlloc() = default;
  explicit IdAlloc(int i) noexcept : id(i) {}
  template <typename U> IdAlloc(const IdAlloc<U>& o) noexcept : id(o.id) {}
  T* allocate(std::size_t n) { ++g_from[id & 15]; ++g_live; return static_cast<T*>(::operator new(n * sizeof(T))); }
  void deallocate(T* p, std::size_t) noexcept { --g_live; ::operator delete(p); }
  // like std::pmr::polymorphic_allocator: a copy made for a new container is NOT this allocator
  IdAlloc select_on_container_copy_construction() const noexcept { return IdAlloc{0}; }
  template <typename U> bool operator==(const IdAlloc<U>& o) const noexcept { return id == o.id; }
  template <typename U> bool operator!=(const IdAlloc<U>& o) const noexcept { return id != o.id; }
};

// a leaf that records which allocator its receiver answers with
struct Probe {
  template <template <typename...> class V, template <typename...> class T> using value_types = V<T<>>;
  template <template <typename...> class V> using error_types = V<std::exception_ptr>;
  static constexpr bool sends_done = false;
  int* seen;
  template <typename R>
  struct Op {
    int* seen; R r;
    void start() noexcept {
      auto a = get_allocator(std::as_const(r));
      if constexpr (std::is_same_v<decltype(a), IdAlloc<std::byte>>) *seen = a.id;
      else { typename std::allocator_traits<decltype(a)>::template rebind_alloc<std::byte> b(a);
             if constexpr (std::is_same_v<decltype(b), IdAlloc<std::byte>>) *seen = b.id; else *seen = -1; }
      unifex::set_value(std::move(r));
    }
  };
  template <typename R>
  friend Op<remove_cvref_t<R>> tag_invoke(tag_t<connect>, Probe p, R&& r) { return Op<remove_cvref_t<R>>{p.seen, (R&&)r}; }
};

static void report(const char* name, int given, int seen) {
  long other = 0; for (int i = 0; i < 16; ++i) if (i != given) other += g_from[i];
  std::printf("%s given=%d seen=%d from_given=%ld from_other=%ld live=%ld\n", name, given, seen, g_from[given], other, g_live);
  for (auto& x : g_from) x = 0;
}

int main() {
  { int seen = -2; { v2::async_scope sc; spawn_detached(Probe{&seen}, sc, IdAlloc<int>{3}); sync_wait(sc.join()); }
    report("spawn_detached_direct_v2", 3, seen); }
  { int seen = -2; { v2::async_scope sc; Probe{&seen} | spawn_detached(sc, IdAlloc<int>{4}); sync_wait(sc.join()); }
    report("spawn_detached_piped_v2", 4, seen); }
  { int seen = -2; { v1::async_scope sc; spawn_detached(Probe{&seen}, sc, IdAlloc<int>{6}); sync_wait(sc.complete()); }
    report("spawn_detached_direct_v1", 6, seen); }
  { int seen = -2; { v2::async_scope sc; auto f = spawn_future(Probe{&seen}, sc, IdAlloc<int>{7}); sync_wait(std::move(f)); sync_wait(sc.join()); }
    report("spawn_future_direct_v2", 7, seen); }
  { int seen = -2; { v2::async_scope sc; auto f = Probe{&seen} | spawn_future(sc, IdAlloc<int>{8}); sync_wait(std::move(f)); sync_wait(sc.join()); }
    report("spawn_future_piped_v2", 8, seen); }
  { int seen = -2; sync_wait(with_allocator(allocate(Probe{&seen}), IdAlloc<std::byte>{9}));
    report("allocate_under_with_allocator", 9, seen); }
  { int seen = -2; sync_wait(with_allocator(then(allocate(then(Probe{&seen}, [] {})), [] {}), IdAlloc<std::byte>{10}));
    report("allocate_nested_under_with_allocator", 10, seen); }
  { int seen = -2; sync_wait(Probe{&seen} | allocate() | with_allocator(IdAlloc<std::byte>{11}));
    report("allocate_piped", 11, seen); }
  return 0;
}
