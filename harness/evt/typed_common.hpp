// typed_common.hpp — runtime of the TYPED corpus (tools/gen_typed.py): every generated expression is
// a concrete (non-erased) sender type; for each one the program can print
//   t <id>  ->  T <id> b=<sender_traits<S>::blocking> a=<is_always_scheduler_affine> d=<sends_done>
//   b <id>  ->  B <id> rb=<blocking(s)>                       (the run-time CPO)
//   d <id>  ->  D <id> | <observation per event> # inl=<completed inside start()> ctx=<context> chan=<v|e|d>
// (run: start on context 0 by a receiver whose scheduler is the manual scheduler of context 0, then
// drain like harness/evt/ctx.cpp).  One command per stdin line, one answer line per command.
#pragma once
#include "ctx_common.hpp"
#include <functional>

static World* g_w = nullptr;

static inline auto Z() { return []() noexcept { return 0; }; }
static inline auto DISC() { return [](auto&&...) noexcept {}; }
static inline auto WAC() {
  return [](auto&& a, auto&& b) noexcept {
    return (int)(((long long)std::get<0>(std::get<0>(a)) * 1000 + std::get<0>(std::get<0>(b))) % 1000003);
  };
}
static inline ManualScheduler M(int k, int j) { return ManualScheduler{g_w, k, j}; }
static inline auto SCUR(int j) { return then(TagSender<decltype(schedule())>{j, schedule()}, Z()); }

static const char* bk_name(blocking_kind b) {
  switch (b()) {
    case blocking_kind::always_inline: return "always_inline";
    case blocking_kind::always: return "always";
    case blocking_kind::maybe: return "maybe";
    default: return "never";
  }
}

// RB: whether `blocking(s)` is instantiated for this expression (tools/gen_typed.py: rb_mode)
template <bool RB, typename F>
static void typed_case(int id, char cmd, F make) {
  using S = remove_cvref_t<decltype(make())>;
  if (cmd == 't') {
    constexpr blocking_kind b = sender_traits<S>::blocking;
    std::cout << "T " << id << " b=" << bk_name(b) << " a=" << (sender_traits<S>::is_always_scheduler_affine ? 1 : 0)
              << " d=" << (sender_traits<S>::sends_done ? 1 : 0) << "\n";
  } else if (cmd == 'b') {
    World w; g_w = &w;
    if constexpr (RB) {
      auto s = make();
      blocking_kind b = blocking(s);
      std::cout << "B " << id << " rb=" << bk_name(b) << "\n";
    } else {
      std::cout << "B " << id << " rb=skipped\n";
    }
    g_w = nullptr;
  } else {
    World w; g_w = &w;
    inplace_stop_source src;
    const ManualScheduler rootSched{&w, 0, -1};
    g_ctx = -1; g_tag = -1;
    std::string res;
    {
      auto op = connect(make(), RootReceiver{&w, &src, &rootSched});
      res = run_events(w, src, op, "s@0");
    }
    std::cout << "D " << id << res << " # inl=" << (w.completedInStart ? 1 : 0) << " ctx=" << w.completionCtx
              << " chan=" << w.completionChan << "\n";
    g_w = nullptr;
  }
}

using CaseFn = void (*)(char);
struct CaseEntry { int id; CaseFn fn; };
extern const CaseEntry g_cases[];
extern const int g_ncases;

int main() {
  std::string line;
  std::cout << std::unitbuf;
  while (std::getline(std::cin, line)) {
    if (line.size() < 3) continue;
    char cmd = line[0];
    int id = atoi(line.c_str() + 2);
    bool found = false;
    for (int i = 0; i < g_ncases; ++i)
      if (g_cases[i].id == id) { found = true; g_cases[i].fn(cmd); break; }
    if (!found) std::cout << "skip " << id << "\n";
  }
  return 0;
}
