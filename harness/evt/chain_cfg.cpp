// chain_cfg.cpp — second translation unit of the C20 harness (harness/evt/evt_cfg.cpp): `chain <name>`.
// Fixed, UN-ERASED sender / coroutine expressions on the real library.  A probe leaf and a probe root
// receiver print what a debugger would see at that moment:
//   as:<label>:roots=<number of AsyncStackRoots on this thread>:chain=<length of the parentFrame chain
//      from the current root's topFrame>:vis=<entries of async_trace(receiver)>:vispath=<trace is a simple
//      path 0-1-2-…>:visroot=<last trace entry is the root receiver (1/0), -1 when visitation is compiled out>
// `roots`/`chain` are compared with the Lean model's prediction for the same scenario
// (`umdriver ask asyncstack <name>`, Proto/AsyncStack.lean `scenarios`); `vis*` are checked by monitors in
// tools/c20.py.  "!!…" items are property monitors independent of the model.
#include <unifex/any_sender_of.hpp>
#include <unifex/async_trace.hpp>
#include <unifex/inline_scheduler.hpp>
#include <unifex/inplace_stop_token.hpp>
#include <unifex/just.hpp>
#include <unifex/let_value.hpp>
#include <unifex/scheduler_concepts.hpp>
#include <unifex/sync_wait.hpp>
#include <unifex/then.hpp>
#include <unifex/tracing/async_stack.hpp>
#include <unifex/tracing/get_async_stack_frame.hpp>
#include <unifex/when_all.hpp>
#include <unifex/with_query_value.hpp>
#include <unifex/config.hpp>
#if !UNIFEX_NO_COROUTINES
#  include <unifex/task.hpp>
#endif

#include <algorithm>
#include <exception>
#include <functional>
#include <map>
#include <string>
#include <vector>

using namespace unifex;

namespace {

struct PLeafBase { virtual void complete(char chan, int v) = 0; virtual ~PLeafBase() = default; };

struct PWorld {
  std::vector<std::string> out;
  std::map<int, PLeafBase*> running;
  std::map<int, bool> inline_;     // leaf id -> completes inline with value 5
  int rootCompletions = 0;
  void emit(std::string s) { out.push_back(std::move(s)); }
};

struct PRoot;

template <typename Receiver>
static void as_probe(PWorld* w, const std::string& label, const Receiver& r) {
  long roots = 0, chain = 0;
  // counted in EVERY build: sync_wait installs its initial root + frame even when async stacks are compiled out
  AsyncStackRoot* root = tryGetCurrentAsyncStackRoot();
  if (!root) {
#if !UNIFEX_NO_ASYNC_STACKS
    w->emit("!!asroot-missing@" + label);
#endif
  } else {
    for (const AsyncStackRoot* q = root; q; q = q->getNextRoot()) if (++roots > 100000) { w->emit("!!asroot-cycle@" + label); break; }
    AsyncStackFrame* f = root->getTopFrame();
    if (!f) w->emit("!!asframe-missing@" + label);
    else {
      if (f->getStackRoot() != root) w->emit("!!asframe-root-mismatch@" + label);
      for (AsyncStackFrame* p = f; p; p = p->getParentFrame()) if (++chain > 100000) { w->emit("!!aschain-cycle@" + label); break; }
    }
  }
  auto trace = async_trace(r);
  bool path = true;
  for (size_t i = 0; i < trace.size(); ++i) if (trace[i].depth != i || (i > 0 && trace[i].parentIndex != i - 1)) path = false;
  int endsAtRoot = -1;
#if UNIFEX_ENABLE_CONTINUATION_VISITATIONS
  endsAtRoot = trace.back().continuation.type() == type_id<PRoot>() ? 1 : 0;
#endif
  w->emit("as:" + label + ":roots=" + std::to_string(roots) + ":chain=" + std::to_string(chain) + ":vis=" + std::to_string(trace.size()) +
          ":vispath=" + (path ? "1" : "0") + ":visroot=" + std::to_string(endsAtRoot));
}

struct PLeaf {
  template <template <typename...> class Variant, template <typename...> class Tuple>
  using value_types = Variant<Tuple<int>>;
  template <template <typename...> class Variant>
  using error_types = Variant<std::exception_ptr>;
  static constexpr bool sends_done = true;
  PWorld* w; int id;
  template <typename R>
  struct Op final : PLeafBase {
    PWorld* w; int id; R r;
    Op(PWorld* w, int id, R&& r) : w(w), id(id), r(std::move(r)) {}
    void start() noexcept {
      as_probe(w, "leaf" + std::to_string(id), std::as_const(r));
      if (w->inline_[id]) { unifex::set_value(std::move(r), 5); return; }
      w->running[id] = this;
    }
    void complete(char chan, int v) override {
      w->running.erase(id);
      if (chan == 'v') unifex::set_value(std::move(r), (int)v); else unifex::set_done(std::move(r));
    }
  };
  template <typename R>
  friend Op<remove_cvref_t<R>> tag_invoke(tag_t<connect>, PLeaf s, R&& r) { return Op<remove_cvref_t<R>>{s.w, s.id, (R&&)r}; }
};

struct PRoot {
  PWorld* w;
  void rec(const char* what) { ++w->rootCompletions; as_probe(w, "root", *this); w->emit(what); }
  void set_value(int) noexcept { rec("R=v"); }
  void set_error(std::exception_ptr) noexcept { rec("R=e"); }
  void set_done() noexcept { rec("R=d"); }
  friend inline_scheduler tag_invoke(tag_t<get_scheduler>, const PRoot&) noexcept { return {}; }
};

static std::string flush(PWorld& w) {
  // keep emission order (labels are distinct; the comparison in tools/c20.py is order independent anyway)
  std::string s;
  for (size_t i = 0; i < w.out.size(); ++i) { if (i) s += ","; s += w.out[i]; }
  w.out.clear();
  return s.empty() ? "-" : s;
}

template <typename S>
static std::string chain_run(PWorld& w, S&& s, const std::vector<std::string>& evs) {
  std::string res;
  {
    auto op = connect((S&&)s, PRoot{&w});
    for (auto& ev : evs) {
      AsyncStackRoot* before = tryGetCurrentAsyncStackRoot();
      if (ev == "start") unifex::start(op);
      else {
        auto col = ev.find(':');
        int i = atoi(ev.substr(1, col - 1).c_str());
        auto it = w.running.find(i);
        if (it == w.running.end()) w.emit("!!bad-op"); else it->second->complete(ev[col + 1], 1);
      }
      if (tryGetCurrentAsyncStackRoot() != before) w.emit("!!asroot-not-restored");
      res += " | " + flush(w);
    }
  }
  if (!w.running.empty()) res += " | !!chain-scenario-left-pending-leaves";
  if (w.rootCompletions != 1) res += " | !!root-completions=" + std::to_string(w.rootCompletions);
  if (tryGetCurrentAsyncStackRoot() != nullptr) res += " | !!asroot-not-null-at-end";
  return res;
}

#if !UNIFEX_NO_COROUTINES
static task<int> co_await_leaf(PWorld* w) { int v = co_await PLeaf{w, 1}; co_return v + 1; }
static task<int> co_nested(PWorld* w) { int v = co_await co_await_leaf(w); co_return v + 1; }
#endif

}  // namespace

std::string run_chain(const std::string& name) {
  PWorld w;
  auto inc = [](int x) noexcept { return x + 1; };
  std::string res = name;
  if (name == "then3_pending") {
    res += chain_run(w, then(then(then(PLeaf{&w, 1}, inc), inc), inc), {"start", "c1:v"});
  } else if (name == "then3_inline") {
    w.inline_[1] = true;
    res += chain_run(w, then(then(then(PLeaf{&w, 1}, inc), inc), inc), {"start"});
  } else if (name == "then1_done") {
    res += chain_run(w, then(PLeaf{&w, 1}, inc), {"start", "c1:d"});
  } else if (name == "let_inline") {
    PWorld* pw = &w;
    res += chain_run(w, let_value(just(1), [pw](int&) { return PLeaf{pw, 1}; }), {"start", "c1:v"});
  } else if (name == "let_pending") {
    PWorld* pw = &w;
    res += chain_run(w, let_value(PLeaf{&w, 1}, [pw](int&) { return then(PLeaf{pw, 2}, [](int x) noexcept { return x; }); }), {"start", "c1:v", "c2:v"});
  } else if (name == "when_all2") {
    res += chain_run(w, then(when_all(PLeaf{&w, 1}, then(PLeaf{&w, 2}, inc)), [](auto&&, auto&&) noexcept { return 0; }), {"start", "c1:v", "c2:v"});
  } else if (name == "erased") {
    res += chain_run(w, then(any_sender_of<int>{then(PLeaf{&w, 1}, inc)}, inc), {"start", "c1:v"});
  } else if (name == "sync_wait") {
    w.inline_[1] = true;
    // sync_wait installs its own initial root + frame; the root "receiver" is sync_wait's
    auto r = sync_wait(then(then(PLeaf{&w, 1}, inc), inc));
    res += " | " + flush(w) + (r ? " | value=" + std::to_string(*r) : " | no-value");
    if (tryGetCurrentAsyncStackRoot() != nullptr) res += " | !!asroot-not-null-at-end";
#if !UNIFEX_NO_COROUTINES
  } else if (name == "task_await") {
    res += chain_run(w, co_await_leaf(&w), {"start", "c1:v"});
  } else if (name == "task_await_inline") {
    w.inline_[1] = true;
    res += chain_run(w, co_await_leaf(&w), {"start"});
  } else if (name == "task_await_done") {
    res += chain_run(w, co_await_leaf(&w), {"start", "c1:d"});
  } else if (name == "task_nested") {
    res += chain_run(w, co_nested(&w), {"start", "c1:v"});
#endif
  } else res += " | unsupported";
  return res;
}
