// anysched.cpp — small direct tests for C18: the remaining type-erased wrappers give the answers of
// the objects they wrap.
//   * any_scheduler / any_scheduler_ref: operator== / != equals "same wrapped type and wrapped
//     schedulers compare equal" for all pairs over two harness scheduler types x ids (+ inline_scheduler);
//     copies compare equal to their source; type() is the wrapped type; schedule() through the
//     wrapper runs the WRAPPED scheduler (it logs its identity).  any_scheduler_ref: operator== is
//     shallow by design (same referenced object), equal_to() is the deep comparison.
//   * type_erased_stream: for_each over type_erase<int>(S) sees the values / done / error of S
//     (S = range_stream, transform_stream with a function that throws at a scripted position).
// argv: <seed> <iterations>.  Output: `ok <fact>` / `FAIL <fact> <detail>` lines and `N <evaluations>`.
#include <unifex/any_scheduler.hpp>
#include <unifex/for_each.hpp>
#include <unifex/inline_scheduler.hpp>
#include <unifex/range_stream.hpp>
#include <unifex/sync_wait.hpp>
#include <unifex/then.hpp>
#include <unifex/transform_stream.hpp>
#include <unifex/type_erased_stream.hpp>

#include <cstdio>
#include <cstdlib>
#include <random>
#include <string>
#include <vector>

using namespace unifex;

static std::vector<std::string> g_log;

template <int Tag>
struct IdSched {
  int id;
  struct sender {
    template <template <typename...> class Variant, template <typename...> class Tuple>
    using value_types = Variant<Tuple<>>;
    template <template <typename...> class Variant>
    using error_types = Variant<std::exception_ptr>;
    static constexpr bool sends_done = false;
    int id;
    template <typename R>
    struct op {
      int id; R r;
      void start() & noexcept {
        g_log.push_back("run " + std::to_string(Tag) + ":" + std::to_string(id));
        unifex::set_value(std::move(r));
      }
    };
    template <typename R>
    friend op<remove_cvref_t<R>> tag_invoke(tag_t<connect>, sender s, R&& r) {
      return op<remove_cvref_t<R>>{s.id, (R&&)r};
    }
  };
  sender schedule() const noexcept { return sender{id}; }
  friend bool operator==(IdSched a, IdSched b) noexcept { return a.id == b.id; }
  friend bool operator!=(IdSched a, IdSched b) noexcept { return a.id != b.id; }
};

struct Desc { int tag; int id; };   // tag 0: inline_scheduler, 1: IdSched<1>, 2: IdSched<2>

static any_scheduler make(Desc d) {
  if (d.tag == 0) return any_scheduler{inline_scheduler{}};
  if (d.tag == 1) return any_scheduler{IdSched<1>{d.id}};
  return any_scheduler{IdSched<2>{d.id}};
}
static bool wrapped_equal(Desc a, Desc b) { return a.tag == b.tag && (a.tag == 0 || a.id == b.id); }

static long g_n = 0;
static int g_fail = 0;
static void fact(bool ok, const std::string& name, const std::string& detail = "") {
  ++g_n;
  if (!ok && g_fail++ < 20) std::printf("FAIL %s %s\n", name.c_str(), detail.c_str());
}

struct Err { int code; };

template <typename Stream>
static std::string drain(Stream s) {
  std::string out;
  try {
    auto r = sync_wait(for_each(std::move(s), [&](int v) { out += std::to_string(v) + ","; }));
    out += r ? "value" : "done";
  } catch (const Err& e) {
    out += "error" + std::to_string(e.code);
  } catch (...) {
    out += "error?";
  }
  return out;
}

int main(int argc, char** argv) {
  unsigned seed = argc > 1 ? (unsigned)atoi(argv[1]) : 1;
  int iters = argc > 2 ? atoi(argv[2]) : 400;
  std::mt19937 rng(seed * 2654435761u + 18);

  // ---- any_scheduler equality: exhaustive over a small universe, then random copies
  std::vector<Desc> U;
  U.push_back({0, 0});
  for (int id = 0; id < 3; ++id) { U.push_back({1, id}); U.push_back({2, id}); }
  for (Desc a : U) for (Desc b : U) {
    any_scheduler x = make(a), y = make(b);
    std::string d = std::to_string(a.tag) + ":" + std::to_string(a.id) + " vs " + std::to_string(b.tag) + ":" + std::to_string(b.id);
    fact((x == y) == wrapped_equal(a, b), "equality_matches_wrapped", d);
    fact((x != y) == !wrapped_equal(a, b), "inequality_matches_wrapped", d);
    any_scheduler xc = x;                       // copy through _copy_as
    fact(xc == x && x == xc, "copy_equals_source", d);
    fact((xc == y) == wrapped_equal(a, b), "copy_equality_matches_wrapped", d);
    any_scheduler xm = std::move(xc);           // move: pointer transfer
    fact((xm == y) == wrapped_equal(a, b), "moved_equality_matches_wrapped", d);
    y = x;                                      // copy assignment
    fact(y == x, "copy_assign_equals_source", d);
  }
  {
    any_scheduler a = make({1, 7});
    fact(a.type() == type_id<IdSched<1>>(), "type_is_wrapped_type");
    fact(make({0, 0}).type() == type_id<inline_scheduler>(), "type_is_wrapped_type_inline");
  }
  // any_scheduler_ref
  {
    IdSched<1> s1{1}, s1b{1}, s2{2}; IdSched<2> t1{1};
    any_scheduler_ref r1 = s1, r1b = s1b, r2 = s2, rt = t1;
    // any_scheduler_ref::operator== is SHALLOW by design ("for regularity": same referenced object);
    // equal_to() is the deep comparison that must match the wrapped schedulers
    fact(r1.equal_to(r1b) && r1b.equal_to(r1), "ref_equal_to_matches_wrapped", "same id, different objects");
    fact(!r1.equal_to(r2), "ref_equal_to_matches_wrapped", "different id");
    fact(!r1.equal_to(rt) && !rt.equal_to(r1), "ref_equal_to_matches_wrapped", "different type");
    fact(!(r1 == r1b) && r1 != r1b, "ref_shallow_equality_is_identity", "same id, different objects");
    fact(!(r1 == r2) && !(r1 == rt), "ref_shallow_equality_is_identity", "different objects");
    any_scheduler_ref rc = r1;
    fact(rc == r1 && rc.equal_to(r1), "ref_copy_equals_source");
  }
  // schedule() through the wrapper runs the wrapped scheduler
  for (int i = 0; i < iters; ++i) {
    Desc d{1 + (int)(rng() % 2), (int)(rng() % 100)};
    any_scheduler s = make(d);
    any_scheduler c = s;
    g_log.clear();
    int got = 0;
    sync_wait(then(schedule(c), [&] { got = 1; }));
    std::string want = "run " + std::to_string(d.tag) + ":" + std::to_string(d.id);
    fact(got == 1 && g_log.size() == 1 && g_log[0] == want, "schedule_runs_wrapped_scheduler", want);
    if (d.tag == 1) {
      IdSched<1> raw{d.id};
      any_scheduler_ref r = raw;
      g_log.clear();
      sync_wait(then(schedule(r), [&] { got = 2; }));
      fact(got == 2 && g_log.size() == 1 && g_log[0] == want, "ref_schedule_runs_wrapped_scheduler", want);
    }
  }

  // ---- type_erased_stream
  for (int i = 0; i < iters; ++i) {
    int a = (int)(rng() % 6), b = a + (int)(rng() % 7);
    int k = (int)(rng() % 12), e = 1 + (int)(rng() % 9);
    std::string d = std::to_string(a) + ".." + std::to_string(b) + " throw@" + std::to_string(k);
    std::string plain = drain(range_stream{a, b});
    std::string erased = drain(type_erase<int>(range_stream{a, b}));
    fact(plain == erased, "stream_values_match_wrapped", d + " plain=" + plain + " erased=" + erased);
    auto f = [k, e](int x) { if (x == k) throw Err{e}; return x * 2 + 1; };
    std::string plainT = drain(transform_stream(range_stream{a, b}, f));
    std::string erasedT = drain(type_erase<int>(transform_stream(range_stream{a, b}, f)));
    fact(plainT == erasedT, "stream_error_matches_wrapped", d + " plain=" + plainT + " erased=" + erasedT);
    std::string erased2 = drain(type_erase<int>(type_erase<int>(transform_stream(range_stream{a, b}, f))));
    fact(plainT == erased2, "stream_double_erasure_matches_wrapped", d + " plain=" + plainT + " erased=" + erased2);
  }

  if (g_fail == 0) {
    for (const char* n : {"equality_matches_wrapped", "copy_equals_source", "ref_equal_to_matches_wrapped", "ref_shallow_equality_is_identity", "schedule_runs_wrapped_scheduler",
                          "stream_values_match_wrapped", "stream_error_matches_wrapped", "stream_double_erasure_matches_wrapped"})
      std::printf("ok %s\n", n);
  }
  std::printf("N %ld\n", g_n);
  return 0;
}
