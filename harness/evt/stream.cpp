// stream.cpp — event-level correspondence harness for the STREAM algorithms (property C13).
// Reads cases on stdin, builds the REAL stream pipeline at run time, executes the scripted external
// events and prints the canonical observation of each event.  The same case lines go to the Lean
// driver (`ask stream run | <case>`, lean/UnifexModel/Calc/StreamParse.lean).
//
//   case <id> | <consumer> | <stream> | <source specs> | <events>
//
//   consumer := red:INIT:MUL[:C:E]   reduce_stream(s, INIT, (acc,x) -> (acc*MUL+x) % 1000003 ; throws E when x==C)
//             | fe[:C:E]             for_each(s, f)  (f throws E when x==C)
//             | man                  manual driver: events `next` / `cleanup` connect+start next(s) / cleanup(s)
//   stream   := (range LO HI) (single V) (never) (src I)
//             | (tf FN S) transform_stream | (na FN S) next_adapt_stream(then) | (fi PRED S) filter_stream
//             | (si S) stop_immediately<int> | (te S) type_erase<int> | (ca KIND S) cleanup_adapt_stream
//             | (ad FN KIND S) adapt_stream(next adaptor, cleanup adaptor) | (tu S T) take_until(S, trigger stream T)
//             | (situ S T) take_until(stop_immediately<int>(S), T) built WITHOUT an erasure in between
//             | (tffi FN PRED S) transform_stream(filter_stream(S)) built WITHOUT an erasure in between
//   FN       := add:K | thr:E | tie:C:E:K          PRED := even | ne:C | lt:C | tie:C:E      KIND := sw | mk:T
//   specs    := I=<entry>,<entry>,.../<clean>   entry := (i|p|q)(vN|eN|d)   i = completes inside start(),
//               p = pending (completed by event nI) ignoring stop, q = pending, completes with done on stop
//               clean := (i|p)(d|eN)
//   events   := start | stop | nI | kI | next | cleanup
//
// Every composite node's child is either a harness source (src I, used CONCRETELY so that the library
// adaptor manages the tracked next/cleanup operation objects directly) or the child pipeline behind the
// harness's own transparent eraser AnyS (virtual dispatch; forwards the very same stop token, results
// unchanged).  `(te S)` is the LIBRARY's type_erased_stream.
//
// Observation tokens (sorted within one event): nsI:S (next of source I started; S = stop already
// requested), npI (stop notification delivered to the pending next of I), ndI (next of I completed),
// ksI / kdI (cleanup of I started / completed), mT (cleanup-adaptor mark), eV (element delivered to
// the consumer), R=vN R=u R=eN R=d (consumer result), N=vN N=d N=eN / C=d C=eN (manual driver).
// Monitors (independent of the model) start with "!!".
#include <unifex/adapt_stream.hpp>
#include <unifex/cleanup_adapt_stream.hpp>
#include <unifex/filter_stream.hpp>
#include <unifex/for_each.hpp>
#include <unifex/inline_scheduler.hpp>
#include <unifex/inplace_stop_token.hpp>
#include <unifex/just.hpp>
#include <unifex/just_done.hpp>
#include <unifex/let_done.hpp>
#include <unifex/let_error.hpp>
#include <unifex/never.hpp>
#include <unifex/next_adapt_stream.hpp>
#include <unifex/range_stream.hpp>
#include <unifex/reduce_stream.hpp>
#include <unifex/single.hpp>
#include <unifex/stop_immediately.hpp>
#include <unifex/take_until.hpp>
#include <unifex/then.hpp>
#include <unifex/transform_stream.hpp>
#include <unifex/type_erased_stream.hpp>

#include <algorithm>
#include <csetjmp>
#include <cstdio>
#include <cstdlib>
#include <cstring>
#include <functional>
#include <iostream>
#include <map>
#include <memory>
#include <optional>
#include <sstream>
#include <string>
#include <vector>

using namespace unifex;

// ---------------------------------------------------------------- allocation accounting (leak monitor)
static long g_live = 0;
void* operator new(std::size_t n) { ++g_live; void* p = std::malloc(n ? n : 1); if (!p) throw std::bad_alloc(); return p; }
void operator delete(void* p) noexcept { if (p) { --g_live; std::free(p); } }
void operator delete(void* p, std::size_t) noexcept { if (p) { --g_live; std::free(p); } }

struct Err { int code; };
static std::exception_ptr mkerr(int c) { return std::make_exception_ptr(Err{c}); }
static int errcode(std::exception_ptr e) {
  try { std::rethrow_exception(e); } catch (const Err& x) { return x.code; } catch (...) { return -1; }
}
static std::string S(int x) { return std::to_string(x); }

// ---------------------------------------------------------------- world
// When a RUNNING operation object is destroyed the real code has left defined behaviour (whatever is
// still on the call stack may touch the dead object): the case is abandoned on the spot (longjmp to
// main, nothing of the case is destructed) after recording the monitor.
static std::jmp_buf g_abandon;
static std::string g_res;          // observation segments of the current case so far
struct World;
static void abandon_case(World& w);
struct PendBase { virtual void complete() = 0; };

struct Entry { char mode = 'i'; char chan = 'd'; int val = 0; };       // mode i/p/q
struct SrcSpec { std::vector<Entry> nexts; char cmode = 'i'; int cerr = -1; };
struct SrcState {
  int k = 0;                 // next() operations started so far
  bool nextRunning = false;
  int cleanStarts = 0;
  bool cleanRunning = false, cleanDone = false;
};
struct LiveOp { int id; char kind; bool running; };

struct World {
  std::map<int, SrcSpec> specs;
  std::map<int, SrcState> st;
  std::map<int, PendBase*> pendN, pendK;
  std::map<const void*, LiveOp> live;     // tracked operation objects, by address
  std::vector<std::string> out;
  int results = 0;
  bool ub = false;          // a running operation object was destroyed: the case is abandoned (no further events)
  void emit(std::string s) { out.push_back(std::move(s)); }

  void op_constructed(const void* p, int id, char kind) {
    if (live.count(p)) emit(std::string("!!op-constructed-over-live-op:") + kind + S(id));
    live[p] = LiveOp{id, kind, false};
  }
  void op_destroyed(const void* p, int id, char kind) {
    auto it = live.find(p);
    if (it == live.end()) { emit(std::string("!!op-destroyed-twice:") + kind); return; }
    if (it->second.running) {
      emit(std::string("!!op-destroyed-while-running:") + it->second.kind);
      ub = true;
      abandon_case(*this);
      // the object is gone: it can no longer be completed by the environment
      if (it->second.kind == 'n') { pendN.erase(it->second.id); }
      if (it->second.kind == 'k') { pendK.erase(it->second.id); }
    }
    (void)id; (void)kind;
    live.erase(it);
  }
  void set_running(const void* p, bool r) { auto it = live.find(p); if (it != live.end()) it->second.running = r; }
  // the consumer's result is being delivered: every source whose next() was ever started must be cleaned up
  void result_monitor() {
    for (auto& [i, s] : st) {
      if (s.nextRunning) emit("!!result-while-next-running:" + S(i));
      if (s.cleanRunning) emit("!!result-while-cleanup-running:" + S(i));
      if (s.k > 0 && !s.cleanDone) emit("!!result-before-cleanup:" + S(i));
    }
  }
};

// tracked operation object: construction / destruction registered by address, memory marked dead
struct Tracked {
  World* w; int id; char kind; volatile unsigned magic;
  Tracked(World* w, int id, char kind) : w(w), id(id), kind(kind), magic(0xA11CE5u) { w->op_constructed(this, id, kind); }
  Tracked(const Tracked&) = delete;
  ~Tracked() { w->op_destroyed(this, id, kind); magic = 0xDDDDDDDDu; }
  bool alive() const { return magic == 0xA11CE5u; }
};

// ---------------------------------------------------------------- harness source stream
template <typename R>
struct HNextOp final : PendBase {
  struct Cb { HNextOp* op; void operator()() noexcept { op->on_stop(); } };
  Tracked tr;
  World* w; int id; R r;
  Entry ent;
  std::optional<typename stop_token_type_t<R&>::template callback_type<Cb>> cb;
  bool inCtor = false, completeAfterCtor = false;
  HNextOp(World* w, int id, R&& r) : tr(w, id, 'n'), w(w), id(id), r(std::move(r)) {}
  HNextOp(HNextOp&&) = delete;
  void start() noexcept {
    SrcState& s = w->st[id];
    if (s.nextRunning) w->emit("!!next-while-next-running:" + S(id));
    if (s.cleanStarts > 0) w->emit("!!next-after-cleanup:" + S(id));
    auto tok = get_stop_token(r);
    bool stopped = tok.stop_requested();
    w->emit("ns" + S(id) + ":" + (stopped ? "1" : "0"));
    const SrcSpec& sp = w->specs[id];
    ent = (size_t)s.k < sp.nexts.size() ? sp.nexts[s.k] : Entry{};
    ++s.k;
    s.nextRunning = true;
    w->set_running(&tr, true);
    if (ent.mode == 'i') { finish(ent.chan, ent.val); return; }
    w->pendN[id] = this;
    inCtor = true;
    cb.emplace(tok, Cb{this});
    inCtor = false;
    if (completeAfterCtor) { w->pendN.erase(id); cb.reset(); finish('d', 0); }
  }
  void on_stop() noexcept {
    w->emit("np" + S(id));
    if (ent.mode == 'q') {
      if (inCtor) completeAfterCtor = true;
      else { w->pendN.erase(id); cb.reset(); finish('d', 0); }
    }
  }
  void complete() override {      // external event nI
    if (!tr.alive()) { w->emit("!!use-after-destroy:n"); w->pendN.erase(id); return; }
    w->pendN.erase(id);
    cb.reset();
    finish(ent.chan, ent.val);
  }
  void finish(char chan, int val) noexcept {
    w->st[id].nextRunning = false;
    w->set_running(&tr, false);
    w->emit("nd" + S(id));
    if (chan == 'v') unifex::set_value(std::move(r), (int)val);
    else if (chan == 'e') unifex::set_error(std::move(r), mkerr(val));
    else unifex::set_done(std::move(r));
  }
};

template <typename R>
struct HCleanOp final : PendBase {
  Tracked tr;
  World* w; int id; R r;
  HCleanOp(World* w, int id, R&& r) : tr(w, id, 'k'), w(w), id(id), r(std::move(r)) {}
  HCleanOp(HCleanOp&&) = delete;
  void start() noexcept {
    SrcState& s = w->st[id];
    if (s.nextRunning) w->emit("!!cleanup-while-next-running:" + S(id));
    if (s.cleanStarts > 0) w->emit("!!cleanup-twice:" + S(id));
    ++s.cleanStarts;
    s.cleanRunning = true;
    w->set_running(&tr, true);
    w->emit("ks" + S(id));
    const SrcSpec& sp = w->specs[id];
    if (sp.cmode == 'i') { finish(); return; }
    w->pendK[id] = this;
  }
  void complete() override {      // external event kI
    if (!tr.alive()) { w->emit("!!use-after-destroy:k"); w->pendK.erase(id); return; }
    w->pendK.erase(id);
    finish();
  }
  void finish() noexcept {
    SrcState& s = w->st[id];
    s.cleanRunning = false; s.cleanDone = true;
    w->set_running(&tr, false);
    w->emit("kd" + S(id));
    int e = w->specs[id].cerr;
    if (e >= 0) unifex::set_error(std::move(r), mkerr(e));
    else unifex::set_done(std::move(r));
  }
};

struct HNextSender {
  template <template <typename...> class Variant, template <typename...> class Tuple>
  using value_types = Variant<Tuple<int>>;
  template <template <typename...> class Variant>
  using error_types = Variant<std::exception_ptr>;
  static constexpr bool sends_done = true;
  World* w; int id;
  template <typename R>
  friend HNextOp<remove_cvref_t<R>> tag_invoke(tag_t<connect>, HNextSender s, R&& r) {
    return HNextOp<remove_cvref_t<R>>{s.w, s.id, (R&&)r};
  }
};
struct HCleanSender {
  template <template <typename...> class Variant, template <typename...> class Tuple>
  using value_types = Variant<>;
  template <template <typename...> class Variant>
  using error_types = Variant<std::exception_ptr>;
  static constexpr bool sends_done = true;
  World* w; int id;
  template <typename R>
  friend HCleanOp<remove_cvref_t<R>> tag_invoke(tag_t<connect>, HCleanSender s, R&& r) {
    return HCleanOp<remove_cvref_t<R>>{s.w, s.id, (R&&)r};
  }
};
struct HStream {
  World* w; int id;
  friend HNextSender tag_invoke(tag_t<next>, HStream& s) noexcept { return {s.w, s.id}; }
  friend HCleanSender tag_invoke(tag_t<cleanup>, HStream& s) noexcept { return {s.w, s.id}; }
};

// ---------------------------------------------------------------- the harness's own transparent stream eraser
// (its operation objects are tracked as well: kind 'N' / 'K', id 0)
struct World;
static World* g_world = nullptr;
struct NextRxBase {
  virtual void v(int) noexcept = 0;
  virtual void e(std::exception_ptr) noexcept = 0;
  virtual void d() noexcept = 0;
  inplace_stop_token tok;
};
struct NextRx {
  NextRxBase* b;
  void set_value(int x) && noexcept { b->v(x); }
  void set_error(std::exception_ptr e) && noexcept { b->e(std::move(e)); }
  void set_done() && noexcept { b->d(); }
  friend inplace_stop_token tag_invoke(tag_t<get_stop_token>, const NextRx& r) noexcept { return r.b->tok; }
  friend inline_scheduler tag_invoke(tag_t<get_scheduler>, const NextRx&) noexcept { return {}; }
};
struct CleanRxBase {
  virtual void e(std::exception_ptr) noexcept = 0;
  virtual void d() noexcept = 0;
};
struct CleanRx {
  CleanRxBase* b;
  void set_error(std::exception_ptr e) && noexcept { b->e(std::move(e)); }
  void set_done() && noexcept { b->d(); }
  friend inline_scheduler tag_invoke(tag_t<get_scheduler>, const CleanRx&) noexcept { return {}; }
};
struct InnerOp { virtual void start() noexcept = 0; virtual ~InnerOp() = default; };
template <typename Op>
struct InnerOpT final : InnerOp {
  Op op;
  template <typename F> explicit InnerOpT(F&& f) : op(f()) {}
  void start() noexcept override { unifex::start(op); }
};
struct StreamHolder {
  virtual std::unique_ptr<InnerOp> connect_next(NextRx r) = 0;
  virtual std::unique_ptr<InnerOp> connect_cleanup(CleanRx r) = 0;
  virtual ~StreamHolder() = default;
};
template <typename St>
struct HolderT final : StreamHolder {
  St s;
  explicit HolderT(St&& s) : s(std::move(s)) {}
  std::unique_ptr<InnerOp> connect_next(NextRx r) override {
    using Op = connect_result_t<next_sender_t<St>, NextRx>;
    return std::make_unique<InnerOpT<Op>>([&] { return unifex::connect(unifex::next(s), std::move(r)); });
  }
  std::unique_ptr<InnerOp> connect_cleanup(CleanRx r) override {
    using Op = connect_result_t<cleanup_sender_t<St>, CleanRx>;
    return std::make_unique<InnerOpT<Op>>([&] { return unifex::connect(unifex::cleanup(s), std::move(r)); });
  }
};
struct AnyS {
  std::unique_ptr<StreamHolder> h;
  template <typename St> static AnyS make(St&& s) { return AnyS{std::make_unique<HolderT<remove_cvref_t<St>>>(std::move(s))}; }

  template <typename R>
  struct NOp final : NextRxBase {
    Tracked tr;
    StreamHolder* h; R r; std::unique_ptr<InnerOp> inner;
    NOp(StreamHolder* h, R&& r) : tr(g_world, 0, 'N'), h(h), r(std::move(r)) {}
    NOp(NOp&&) = delete;
    ~NOp() { if (!tr.alive()) (void)inner.release(); }   // second destruction: do not free twice, ~Tracked reports it
    void start() noexcept {
      static_assert(std::is_same_v<remove_cvref_t<stop_token_type_t<R&>>, inplace_stop_token>, "AnyS forwards inplace_stop_token only");
      tok = get_stop_token(r);
      tr.w->set_running(&tr, true);
      inner = h->connect_next(NextRx{this});
      inner->start();
    }
    void v(int x) noexcept override { tr.w->set_running(&tr, false); unifex::set_value(std::move(r), (int)x); }
    void e(std::exception_ptr ex) noexcept override { tr.w->set_running(&tr, false); unifex::set_error(std::move(r), std::move(ex)); }
    void d() noexcept override { tr.w->set_running(&tr, false); unifex::set_done(std::move(r)); }
  };
  template <typename R>
  struct COp final : CleanRxBase {
    Tracked tr;
    StreamHolder* h; R r; std::unique_ptr<InnerOp> inner;
    COp(StreamHolder* h, R&& r) : tr(g_world, 0, 'K'), h(h), r(std::move(r)) {}
    COp(COp&&) = delete;
    ~COp() { if (!tr.alive()) (void)inner.release(); }
    void start() noexcept { tr.w->set_running(&tr, true); inner = h->connect_cleanup(CleanRx{this}); inner->start(); }
    void e(std::exception_ptr ex) noexcept override { tr.w->set_running(&tr, false); unifex::set_error(std::move(r), std::move(ex)); }
    void d() noexcept override { tr.w->set_running(&tr, false); unifex::set_done(std::move(r)); }
  };
  struct NSnd {
    template <template <typename...> class Variant, template <typename...> class Tuple>
    using value_types = Variant<Tuple<int>>;
    template <template <typename...> class Variant>
    using error_types = Variant<std::exception_ptr>;
    static constexpr bool sends_done = true;
    StreamHolder* h;
    template <typename R>
    friend NOp<remove_cvref_t<R>> tag_invoke(tag_t<connect>, NSnd s, R&& r) { return NOp<remove_cvref_t<R>>{s.h, (R&&)r}; }
  };
  struct CSnd {
    template <template <typename...> class Variant, template <typename...> class Tuple>
    using value_types = Variant<>;
    template <template <typename...> class Variant>
    using error_types = Variant<std::exception_ptr>;
    static constexpr bool sends_done = true;
    StreamHolder* h;
    template <typename R>
    friend COp<remove_cvref_t<R>> tag_invoke(tag_t<connect>, CSnd s, R&& r) { return COp<remove_cvref_t<R>>{s.h, (R&&)r}; }
  };
  friend NSnd tag_invoke(tag_t<next>, AnyS& s) noexcept { return {s.h.get()}; }
  friend CSnd tag_invoke(tag_t<cleanup>, AnyS& s) noexcept { return {s.h.get()}; }
};

// ---------------------------------------------------------------- parser
struct Node { std::string k; std::vector<std::string> args; std::vector<Node> ch; };
struct Parser {
  std::vector<std::string> t; size_t p = 0;
  explicit Parser(const std::string& s) {
    std::string cur;
    for (char c : s) {
      if (c == '(' || c == ')') { if (!cur.empty()) { t.push_back(cur); cur.clear(); } t.push_back(std::string(1, c)); }
      else if (isspace((unsigned char)c)) { if (!cur.empty()) { t.push_back(cur); cur.clear(); } }
      else cur += c;
    }
    if (!cur.empty()) t.push_back(cur);
  }
  Node parse() {
    Node n;
    if (t.at(p) != "(") throw std::runtime_error("expected (");
    ++p; n.k = t.at(p++);
    while (t.at(p) != ")") { if (t[p] == "(") n.ch.push_back(parse()); else n.args.push_back(t[p++]); }
    ++p; return n;
  }
};
static std::vector<std::string> split(const std::string& s, char d) {
  std::vector<std::string> r; std::stringstream ss(s); std::string it;
  while (std::getline(ss, it, d)) r.push_back(it);
  return r;
}
static std::string trim(const std::string& s) {
  size_t a = s.find_first_not_of(" \t\r\n"), b = s.find_last_not_of(" \t\r\n");
  return a == std::string::npos ? "" : s.substr(a, b - a + 1);
}

struct Fn {
  int kind = 0, c = 0, e = 0, k = 0;   // 0 add, 1 throw always, 2 throw if eq
  int operator()(int x) const { if (kind == 1 || (kind == 2 && x == c)) throw Err{e}; return x + k; }
};
static Fn parse_fn(const std::string& s) {
  Fn f; auto p = split(s, ':');
  if (p[0] == "add") { f.kind = 0; f.k = atoi(p[1].c_str()); }
  else if (p[0] == "thr") { f.kind = 1; f.e = atoi(p[1].c_str()); }
  else { f.kind = 2; f.c = atoi(p[1].c_str()); f.e = atoi(p[2].c_str()); f.k = atoi(p[3].c_str()); }
  return f;
}
struct Pred {
  int kind = 0, c = 0, e = 0;          // 0 even, 1 != c, 2 < c, 3 throw e if == c else keep
  bool operator()(int x) const {
    switch (kind) {
      case 0: return x % 2 == 0;
      case 1: return x != c;
      case 2: return x < c;
      default: if (x == c) throw Err{e}; return true;
    }
  }
};
static Pred parse_pred(const std::string& s) {
  Pred p; auto v = split(s, ':');
  if (v[0] == "even") p.kind = 0;
  else if (v[0] == "ne") { p.kind = 1; p.c = atoi(v[1].c_str()); }
  else if (v[0] == "lt") { p.kind = 2; p.c = atoi(v[1].c_str()); }
  else { p.kind = 3; p.c = atoi(v[1].c_str()); p.e = atoi(v[2].c_str()); }
  return p;
}
// sender adaptors handed to next_adapt_stream / cleanup_adapt_stream / adapt_stream
struct NextAd {
  Fn f;
  template <typename Snd> auto operator()(Snd&& s) const { return then((Snd&&)s, f); }
};
struct CleanAd {
  World* w; int kind; int tag;         // 0 swallow errors (let_error -> just_done), 1 mark on done (let_done -> emit, just_done)
  template <typename Snd> auto operator()(Snd&& s) const {
    World* ww = w; int t = tag; int k = kind;
    return let_done(
        let_error((Snd&&)s, [k](std::exception_ptr& e) {
          // kind 0 swallows the error; kind 1 rethrows it unchanged
          if (k != 0) std::rethrow_exception(e);
          return just_done();
        }),
        [ww, t, k]() { if (k == 1) ww->emit("m" + S(t)); return just_done(); });
  }
};
static CleanAd parse_cad(World* w, const std::string& s) {
  auto v = split(s, ':');
  if (v[0] == "sw") return CleanAd{w, 0, 0};
  return CleanAd{w, 1, atoi(v[1].c_str())};
}

// ---------------------------------------------------------------- builder
static AnyS build(World* w, const Node& n);

// apply `f` to the child pipeline: a harness source is used concretely, anything else behind AnyS
template <typename F>
static AnyS with_child(World* w, const Node& c, F&& f) {
  if (c.k == "src") return f(HStream{w, atoi(c.args.at(0).c_str())});
  return f(build(w, c));
}

static AnyS build(World* w, const Node& n) {
  const std::string& k = n.k;
  auto num = [&](size_t i) { return atoi(n.args.at(i).c_str()); };
  if (k == "range") return AnyS::make(range_stream{num(0), num(1)});
  if (k == "single") return AnyS::make(single(just(num(0))));
  if (k == "never") return AnyS::make(never_stream{});
  if (k == "src") return AnyS::make(HStream{w, num(0)});
  if (k == "tf") { Fn f = parse_fn(n.args.at(0)); return with_child(w, n.ch.at(0), [&](auto s) { return AnyS::make(transform_stream(std::move(s), f)); }); }
  if (k == "na") { Fn f = parse_fn(n.args.at(0)); return with_child(w, n.ch.at(0), [&](auto s) { return AnyS::make(next_adapt_stream(std::move(s), NextAd{f})); }); }
  if (k == "fi") { Pred p = parse_pred(n.args.at(0)); return with_child(w, n.ch.at(0), [&](auto s) { return AnyS::make(filter_stream(std::move(s), p)); }); }
  if (k == "si") return with_child(w, n.ch.at(0), [&](auto s) { return AnyS::make(stop_immediately<int>(std::move(s))); });
  if (k == "te") return with_child(w, n.ch.at(0), [&](auto s) { return AnyS::make(type_erase<int>(std::move(s))); });
  if (k == "ca") { CleanAd c = parse_cad(w, n.args.at(0)); return with_child(w, n.ch.at(0), [&](auto s) { return AnyS::make(cleanup_adapt_stream(std::move(s), c)); }); }
  if (k == "ad") {
    Fn f = parse_fn(n.args.at(0)); CleanAd c = parse_cad(w, n.args.at(1));
    return with_child(w, n.ch.at(0), [&](auto s) { return AnyS::make(adapt_stream(std::move(s), NextAd{f}, c)); });
  }
  if (k == "tu") {
    return with_child(w, n.ch.at(0), [&](auto s) {
      return with_child(w, n.ch.at(1), [&](auto t) { return AnyS::make(take_until(std::move(s), std::move(t))); });
    });
  }
  if (k == "situ") {
    return with_child(w, n.ch.at(0), [&](auto s) {
      return with_child(w, n.ch.at(1), [&](auto t) { return AnyS::make(take_until(stop_immediately<int>(std::move(s)), std::move(t))); });
    });
  }
  if (k == "tffi") {
    Fn f = parse_fn(n.args.at(0)); Pred p = parse_pred(n.args.at(1));
    return with_child(w, n.ch.at(0), [&](auto s) { return AnyS::make(transform_stream(filter_stream(std::move(s), p), f)); });
  }
  throw std::runtime_error("unknown node " + k);
}

// ---------------------------------------------------------------- consumers
struct Ctx {
  World* w;
  inplace_stop_source src;
  bool stopped = false;
  char kind = 'r';           // r reduce, f for_each, m manual
  int init = 0, mul = 1; bool thr = false; int thrC = 0, thrE = 0;
  bool started = false, finished = false;
  // manual driver
  bool nexting = false, cleaning = false, ended = false;
  std::function<void()> do_start, do_next, do_cleanup;
};

struct RootReceiver {
  Ctx* c;
  void record(const std::string& s) {
    World* w = c->w;
    if (!c->started) w->emit("!!completion-before-start");
    if (++w->results > 1) w->emit("!!result-delivered-twice");
    w->result_monitor();
    c->finished = true;
    w->emit(s);
  }
  void set_value(int v) noexcept { record("R=v" + S(v)); }
  void set_value() noexcept { record("R=u"); }
  void set_error(std::exception_ptr e) noexcept { record("R=e" + S(errcode(e))); }
  void set_done() noexcept { record("R=d"); }
  friend inplace_stop_token tag_invoke(tag_t<get_stop_token>, const RootReceiver& r) noexcept { return r.c->src.get_token(); }
  friend inline_scheduler tag_invoke(tag_t<get_scheduler>, const RootReceiver&) noexcept { return {}; }
};

static std::string flush(World& w) {
  std::sort(w.out.begin(), w.out.end());
  std::string s;
  for (size_t i = 0; i < w.out.size(); ++i) { if (i) s += ","; s += w.out[i]; }
  w.out.clear();
  return s.empty() ? "-" : s;
}

static void abandon_case(World& w) {
  g_res += " | " + flush(w);
  std::longjmp(g_abandon, 1);
}

static bool one_event(World& w, Ctx& c, const std::string& ev) {
  if (w.ub) return false;
  if (ev == "start") {
    if (c.kind == 'm' || c.started) { w.emit("bad"); return true; }
    c.started = true; c.do_start();
  } else if (ev == "stop") {
    if (!c.stopped) { c.stopped = true; c.src.request_stop(); }
  } else if (ev == "next") {
    if (c.kind != 'm' || c.nexting || c.cleaning || c.ended || c.finished) { w.emit("bad"); return true; }
    c.nexting = true; c.do_next();
  } else if (ev == "cleanup") {
    if (c.kind != 'm' || c.nexting || c.cleaning || c.finished) { w.emit("bad"); return true; }
    c.cleaning = true; c.do_cleanup();
  } else if (ev[0] == 'n' || ev[0] == 'k') {
    int i = atoi(ev.c_str() + 1);
    auto& m = ev[0] == 'n' ? w.pendN : w.pendK;
    auto it = m.find(i);
    if (it == m.end()) { w.emit("bad"); return true; }
    it->second->complete();
  } else {
    w.emit("bad");
  }
  return true;
}

static std::string event_loop(World& w, Ctx& c, const std::string& events) {
  std::string& res = g_res;
  std::stringstream es(events); std::string ev;
  auto one = [&](const std::string& e) { one_event(w, c, e); res += " | " + flush(w); };
  while (es >> ev) one(ev);
  // drain: complete whatever is pending (smallest source first, next before cleanup); then make the
  // consumer finish (start / stop for reduce and for_each; cleanup / stop for the manual driver)
  for (int guard = 0; guard < 400 && !w.ub; ++guard) {
    int bn = w.pendN.empty() ? 1 << 30 : w.pendN.begin()->first;
    int bk = w.pendK.empty() ? 1 << 30 : w.pendK.begin()->first;
    if (bn != 1 << 30 || bk != 1 << 30) { one(bn <= bk ? "n" + S(bn) : "k" + S(bk)); continue; }
    if (c.finished) break;
    if (c.kind == 'm') {
      if (!c.nexting && !c.cleaning) { one("cleanup"); continue; }
      if (c.nexting && !c.stopped) { one("stop"); continue; }
      res += " | stuck"; break;
    }
    if (!c.started) { one("start"); continue; }
    if (!c.stopped) { one("stop"); continue; }
    res += " | stuck"; break;
  }
  return std::string();
}

// manual driver: the harness itself plays the consumer, one next()/cleanup() at a time
template <typename St> struct ManDrv;
template <typename St>
struct ManNRx {
  ManDrv<St>* d;
  void set_value(int v) && noexcept { d->on_next('v', v); }
  void set_error(std::exception_ptr e) && noexcept { d->on_next('e', errcode(e)); }
  void set_done() && noexcept { d->on_next('d', 0); }
  friend inplace_stop_token tag_invoke(tag_t<get_stop_token>, const ManNRx& r) noexcept { return r.d->c->src.get_token(); }
  friend inline_scheduler tag_invoke(tag_t<get_scheduler>, const ManNRx&) noexcept { return {}; }
};
template <typename St>
struct ManCRx {
  ManDrv<St>* d;
  void set_error(std::exception_ptr e) && noexcept { d->on_clean(errcode(e)); }
  void set_done() && noexcept { d->on_clean(-1); }
  friend inline_scheduler tag_invoke(tag_t<get_scheduler>, const ManCRx&) noexcept { return {}; }
};
template <typename St>
struct ManDrv {
  World* w; Ctx* c; St s;
  manual_lifetime<connect_result_t<next_sender_t<St>, ManNRx<St>>> nop;
  manual_lifetime<connect_result_t<cleanup_sender_t<St>, ManCRx<St>>> cop;
  void on_next(char ch, int v) {
    nop.destruct();
    c->nexting = false;
    if (ch != 'v') c->ended = true;
    w->emit(ch == 'v' ? "N=v" + S(v) : ch == 'e' ? "N=e" + S(v) : "N=d");
  }
  void on_clean(int e) {
    cop.destruct();
    c->cleaning = false;
    if (++w->results > 1) w->emit("!!result-delivered-twice");
    w->result_monitor();
    c->finished = true;
    w->emit(e >= 0 ? "C=e" + S(e) : "C=d");
  }
};

template <typename St>
static std::string run_consumer(World& w, Ctx& c, St stream, const std::string& events) {
  World* pw = &w;
  if (c.kind == 'r') {
    int mul = c.mul; bool thr = c.thr; int tc = c.thrC, te = c.thrE;
    auto snd = reduce_stream(std::move(stream), (int)c.init, [pw, mul, thr, tc, te](int acc, int x) {
      pw->emit("e" + S(x));
      if (thr && x == tc) throw Err{te};
      return (int)(((long long)acc * mul + x) % 1000003);
    });
    auto op = unifex::connect(std::move(snd), RootReceiver{&c});
    c.do_start = [&] { unifex::start(op); };
    return event_loop(w, c, events);
  }
  if (c.kind == 'f') {
    bool thr = c.thr; int tc = c.thrC, te = c.thrE;
    auto snd = for_each(std::move(stream), [pw, thr, tc, te](int x) {
      pw->emit("e" + S(x));
      if (thr && x == tc) throw Err{te};
    });
    auto op = unifex::connect(std::move(snd), RootReceiver{&c});
    c.do_start = [&] { unifex::start(op); };
    return event_loop(w, c, events);
  }
  using Drv = ManDrv<St>; using NRx = ManNRx<St>; using CRx = ManCRx<St>;
  Drv d{&w, &c, std::move(stream), {}, {}};
  c.do_next = [&] { d.nop.construct_with([&] { return unifex::connect(unifex::next(d.s), NRx{&d}); }); unifex::start(d.nop.get()); };
  c.do_cleanup = [&] { d.cop.construct_with([&] { return unifex::connect(unifex::cleanup(d.s), CRx{&d}); }); unifex::start(d.cop.get()); };
  return event_loop(w, c, events);
}

static std::string run_case(const std::string& line) {
  auto parts = split(line, '|');
  if (parts.size() < 5) return "bad-case";
  std::string id = trim(parts[0]);
  World w;
  g_world = &w;
  Ctx c; c.w = &w;
  {
    auto cs = split(trim(parts[1]), ':');
    if (cs[0] == "red") { c.kind = 'r'; c.init = atoi(cs.at(1).c_str()); c.mul = atoi(cs.at(2).c_str()); if (cs.size() >= 5) { c.thr = true; c.thrC = atoi(cs[3].c_str()); c.thrE = atoi(cs[4].c_str()); } }
    else if (cs[0] == "fe") { c.kind = 'f'; if (cs.size() >= 3) { c.thr = true; c.thrC = atoi(cs[1].c_str()); c.thrE = atoi(cs[2].c_str()); } }
    else c.kind = 'm';
  }
  {
    std::stringstream ss(parts[3]); std::string tok;
    while (ss >> tok) {
      auto eq = tok.find('=');
      int i = atoi(tok.substr(0, eq).c_str());
      std::string v = tok.substr(eq + 1);
      auto sl = v.find('/');
      SrcSpec sp;
      for (auto& e : split(v.substr(0, sl), ',')) {
        if (e.empty()) continue;
        Entry en; en.mode = e[0]; en.chan = e[1]; en.val = e.size() > 2 ? atoi(e.c_str() + 2) : 0;
        sp.nexts.push_back(en);
      }
      std::string cl = v.substr(sl + 1);
      sp.cmode = cl[0]; sp.cerr = cl[1] == 'e' ? atoi(cl.c_str() + 2) : -1;
      w.specs[i] = sp;
    }
  }
  Parser ps(parts[2]);
  Node root = ps.parse();
  g_res = id;
  if (root.k == "src") run_consumer(w, c, HStream{&w, atoi(root.args.at(0).c_str())}, parts[4]);
  else run_consumer(w, c, build(&w, root), parts[4]);
  // everything (consumer operation, streams) is destroyed now: no tracked operation may be left
  for (auto& [p, lo] : w.live) { (void)p; g_res += std::string(" | !!op-never-destroyed:") + lo.kind; break; }
  return g_res;
}

int main() {
  std::string line;
  std::cout << std::unitbuf;
  while (std::getline(std::cin, line)) {
    if (line.empty()) continue;
    long before = g_live;
    if (setjmp(g_abandon) == 0) {
      try {
        std::string s = run_case(line.substr(line.find(' ') + 1));
        std::cout << s;
        std::string().swap(s);
      }
      catch (const std::exception& e) { std::cout << "bad-case " << e.what(); }
      std::string().swap(g_res);
      if (g_live != before) std::cout << " | !!leak=" << (g_live - before);
    } else {
      std::cout << g_res << " | abandoned";   // the case's objects are deliberately not destructed
      std::string().swap(g_res);
    }
    std::cout << "\n";
  }
  return 0;
}
