// ctx.cpp — event-level correspondence harness WITH EXECUTION CONTEXTS (property C11).
// Reads cases on stdin, builds the REAL sender tree at run time (every node erased with
// any_sender_of<int>), executes the scripted external events — each on a named context — and
// prints the canonical observation of each event.  The same case lines go to the Lean driver
// (`ask ctx run | <case>`, model: lean/UnifexModel/Calc/Ctx.lean).
//
//   case <id> | <expr> | <leaf specs> | <events>
//
//   expr   := (just N) (jerr N) (jdone) (leaf N) (sleaf N) (never) (sched S J) (scur J)
//             (then FN E) (uns E) (wq S E) (era E) (md E) (dao N E)
//             (lv A B) (seq A B) (fin A B) (wa A B) (sw A B)
//             (via S J E) (tvia S J E) (on S J E) (wsa S J E)
//   S      := i (inline_scheduler) | K (manual tagged scheduler of context K)
//   J      := tag of the queue item a schedule operation creates (names it in the queue)
//   FN     := add:K | thr:E | tie:C:E:K
//   specs  := I=i:vN | I=i:eN | I=i:d | I=p:ign | I=p:done
//   events := s@K (start) | x@K (request stop) | cI:vN@K cI:eN@K cI:d@K (complete leaf I)
//             | r@K (context K runs its queued item with the smallest tag) | R@K (largest tag)
//
// Contexts are manual run queues; g_ctx is "the context the current thread is" and is set by the
// event loop to the context named by the event.  Leaves, the scheduler and the root receiver record
// g_ctx in every observation:  lsI:S@C  lpI@C  qK:J@C (item J enqueued on context K, observed on C)
// R=vN@C / R=eN@C / R=d@C.  After the scripted events the harness drains: run the lowest non-empty
// context; else complete the lowest pending leaf with done on context 9; else, if the root has not
// completed and stop was not requested, request stop on context 0.
#include "ctx_common.hpp"

// ---------------------------------------------------------------- parser
struct Node { std::string k; std::vector<std::string> args; std::vector<Node> ch; };

struct Parser {
  std::vector<std::string> t; size_t p = 0;
  explicit Parser(const std::string& s) {
    std::string cur;
    for (char c : s) {
      if (c == '(' || c == ')') { if (!cur.empty()) { t.push_back(cur); cur.clear(); } t.push_back(std::string(1, c)); }
      else if (isspace((unsigned char)c)) { if (!cur.empty()) { t.push_back(cur); cur.clear(); } }
      else cur += c;
    }
    if (!cur.empty()) t.push_back(cur);
  }
  Node parse() {
    Node n;
    if (t.at(p) != "(") throw std::runtime_error("expected (");
    ++p; n.k = t.at(p++);
    while (t.at(p) != ")") {
      if (t[p] == "(") n.ch.push_back(parse()); else n.args.push_back(t[p++]);
    }
    ++p; return n;
  }
};

struct Fn {
  int kind = 0, c = 0, e = 0, k = 0;
  int operator()(int x) const { if (kind == 1 || (kind == 2 && x == c)) throw Err{e}; return x + k; }
};
static Fn parse_fn(const std::string& s) {
  Fn f; std::vector<std::string> parts; std::stringstream ss(s); std::string it;
  while (std::getline(ss, it, ':')) parts.push_back(it);
  if (parts[0] == "add") { f.kind = 0; f.k = atoi(parts[1].c_str()); }
  else if (parts[0] == "thr") { f.kind = 1; f.e = atoi(parts[1].c_str()); }
  else { f.kind = 2; f.c = atoi(parts[1].c_str()); f.e = atoi(parts[2].c_str()); f.k = atoi(parts[3].c_str()); }
  return f;
}

// ---------------------------------------------------------------- builder: Node -> real sender tree
static Any build(World* w, const Node& n);

static AnyVoid discard(Any a) { return AnyVoid{then(std::move(a), [](int) noexcept {})}; }
static auto zero() { return []() noexcept { return 0; }; }

// call f(scheduler) with the concrete scheduler named by S
template <typename F>
static Any with_sched(World* w, const std::string& s, int tag, F&& f) {
  if (s == "i") return f(inline_scheduler{});
  return f(ManualScheduler{w, atoi(s.c_str()), tag});
}

static Any build(World* w, const Node& n) {
  const std::string& k = n.k;
  auto num = [&](size_t i) { return atoi(n.args.at(i).c_str()); };
  if (k == "just") return Any{just(num(0))};
  if (k == "jerr") return Any{then(just_error(mkerr(num(0))), zero())};
  if (k == "jdone") return Any{then(just_done(), zero())};
  if (k == "leaf") return Any{LeafSender{w, num(0)}};
  if (k == "sleaf") return Any{SyncLeaf{w, num(0)}};
  if (k == "never") return Any{then(never_sender{}, zero())};
  if (k == "sched")
    return with_sched(w, n.args.at(0), num(1), [&](auto s) { return Any{then(schedule(s), zero())}; });
  if (k == "scur") return Any{then(TagSender<decltype(schedule())>{num(0), schedule()}, zero())};
  if (k == "then") { Fn f = parse_fn(n.args.at(0)); return Any{then(build(w, n.ch.at(0)), f)}; }
  if (k == "uns") return Any{unstoppable(build(w, n.ch.at(0)))};
  if (k == "wq")
    return with_sched(w, n.args.at(0), -1, [&](auto s) { return Any{with_query_value(build(w, n.ch.at(0)), get_scheduler, s)}; });
  if (k == "era") return Any{build(w, n.ch.at(0))};
  if (k == "md") return Any{dematerialize(materialize(build(w, n.ch.at(0))))};
  if (k == "dao") {
    int d = num(0);
    return Any{then(done_as_optional(build(w, n.ch.at(0))), [d](std::optional<int> o) noexcept { return o ? *o : d; })};
  }
  if (k == "lv") {
    const Node* s = &n.ch.at(1);
    return Any{let_value(build(w, n.ch.at(0)), [w, s](int&) { return build(w, *s); })};
  }
  if (k == "seq") return Any{sequence(discard(build(w, n.ch.at(0))), build(w, n.ch.at(1)))};
  if (k == "fin") return Any{finally(build(w, n.ch.at(0)), discard(build(w, n.ch.at(1))))};
  if (k == "wa") {
    return Any{then(when_all(build(w, n.ch.at(0)), build(w, n.ch.at(1))),
                    [](auto&& a, auto&& b) noexcept {
                      return (int)(((long long)std::get<0>(std::get<0>(a)) * 1000 + std::get<0>(std::get<0>(b))) % 1000003);
                    })};
  }
  if (k == "sw") return Any{stop_when(build(w, n.ch.at(0)), discard(build(w, n.ch.at(1))))};
  if (k == "via")
    return with_sched(w, n.args.at(0), num(1), [&](auto s) { return Any{via(build(w, n.ch.at(0)), s)}; });
  if (k == "tvia")
    return with_sched(w, n.args.at(0), num(1), [&](auto s) { return Any{typed_via(build(w, n.ch.at(0)), s)}; });
  if (k == "on")
    return with_sched(w, n.args.at(0), num(1), [&](auto s) { return Any{on(s, build(w, n.ch.at(0)))}; });
  if (k == "wsa")
    return with_sched(w, n.args.at(0), num(1), [&](auto s) { return Any{with_scheduler_affinity(build(w, n.ch.at(0)), s)}; });
  throw std::runtime_error("unknown node " + k);
}

static std::string run_case(const std::string& line) {
  auto parts = split(line, '|');
  if (parts.size() < 4) return "bad-op";
  std::string id = trim(parts[0]);
  World w;
  parse_specs(w, parts[2]);
  Parser ps(parts[1]);
  Node root = ps.parse();
  inplace_stop_source src;
  const ManualScheduler rootSched{&w, 0, -1};
  std::string res = id;
  g_ctx = -1; g_tag = -1;
  {
    Any s = build(&w, root);
    auto op = connect(std::move(s), RootReceiver{&w, &src, &rootSched});
    res += run_events(w, src, op, parts[3]);
  }
  return res;
}

int main() {
  std::string line;
  std::cout << std::unitbuf;
  while (std::getline(std::cin, line)) {
    if (line.empty()) continue;
    long before = g_live;
    try {
      std::string s = run_case(line.substr(line.find(' ') + 1));
      std::cout << s;
      std::string().swap(s);
    }
    catch (const std::exception& e) { std::cout << "bad-op " << e.what(); }
    if (g_live != before) std::cout << " | !!leak=" << (g_live - before);
    std::cout << "\n";
  }
  return 0;
}
