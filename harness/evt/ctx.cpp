// ctx.cpp — event-level correspondence harness WITH EXECUTION CONTEXTS (property C11).
// Reads cases on stdin, builds the REAL sender tree at run time (every node erased with
// any_sender_of<int>), executes the scripted external events — each on a named context — and
// prints the canonical observation of each event.  The same case lines go to the Lean driver
// (`ask ctx run | <case>`, model: lean/UnifexModel/Calc/Ctx.lean).
//
//   case <id> | <expr> | <leaf specs> | <events>
//
//   expr   := (just N) (jerr N) (jdone) (leaf N) (sleaf N) (never) (sched S J) (scur J)
//             (then FN E) (uns E) (wq S E) (era E) (md E) (dao N E)
//             (lv A B) (seq A B) (fin A B) (wa A B) (sw A B)
//             (via S J E) (tvia S J E) (on S J E) (wsa S J E)
//   S      := i (inline_scheduler) | K (manual tagged scheduler of context K)
//   J      := tag of the queue item a schedule operation creates (names it in the queue)
//   FN     := add:K | thr:E | tie:C:E:K
//   specs  := I=i:vN | I=i:eN | I=i:d | I=p:ign | I=p:done
//   events := s@K (start) | x@K (request stop) | cI:vN@K cI:eN@K cI:d@K (complete leaf I)
//             | r@K (context K runs its queued item with the smallest tag) | R@K (largest tag)
//
// Contexts are manual run queues; g_ctx is "the context the current thread is" and is set by the
// event loop to the context named by the event.  Leaves, the scheduler and the root receiver record
// g_ctx in every observation:  lsI:S@C  lpI@C  qK:J@C (item J enqueued on context K, observed on C)
// R=vN@C / R=eN@C / R=d@C.  After the scripted events the harness drains: run the lowest non-empty
// context; else complete the lowest pending leaf with done on context 9; else, if the root has not
// completed and stop was not requested, request stop on context 0.
#include <unifex/any_scheduler.hpp>
#include <unifex/any_sender_of.hpp>
#include <unifex/dematerialize.hpp>
#include <unifex/done_as_optional.hpp>
#include <unifex/finally.hpp>
#include <unifex/inline_scheduler.hpp>
#include <unifex/inplace_stop_token.hpp>
#include <unifex/just.hpp>
#include <unifex/just_done.hpp>
#include <unifex/just_error.hpp>
#include <unifex/let_value.hpp>
#include <unifex/materialize.hpp>
#include <unifex/never.hpp>
#include <unifex/on.hpp>
#include <unifex/scheduler_concepts.hpp>
#include <unifex/sequence.hpp>
#include <unifex/stop_when.hpp>
#include <unifex/then.hpp>
#include <unifex/typed_via.hpp>
#include <unifex/unstoppable.hpp>
#include <unifex/via.hpp>
#include <unifex/when_all.hpp>
#include <unifex/with_query_value.hpp>
#include <unifex/with_scheduler_affinity.hpp>

#include <algorithm>
#include <cstdio>
#include <cstdlib>
#include <cstring>
#include <iostream>
#include <map>
#include <memory>
#include <optional>
#include <sstream>
#include <string>
#include <vector>

using namespace unifex;

// ---------------------------------------------------------------- allocation accounting (leak monitor)
static long g_live = 0;
void* operator new(std::size_t n) { ++g_live; void* p = std::malloc(n ? n : 1); if (!p) throw std::bad_alloc(); return p; }
void operator delete(void* p) noexcept { if (p) { --g_live; std::free(p); } }
void operator delete(void* p, std::size_t) noexcept { if (p) { --g_live; std::free(p); } }

using Queries = with_receiver_queries<overload<any_scheduler_ref(const this_&) noexcept>(get_scheduler)>;
using Any = Queries::any_sender_of<int>;
using AnyVoid = Queries::any_sender_of<>;

struct Err { int code; };
static std::exception_ptr mkerr(int c) { return std::make_exception_ptr(Err{c}); }
static int errcode(std::exception_ptr e) {
  try { std::rethrow_exception(e); } catch (const Err& x) { return x.code; } catch (...) { return -1; }
}

// ---------------------------------------------------------------- world
static int g_ctx = -1;   // the context the (single) thread currently is
static int g_tag = -1;   // tag for the next manual schedule operation started (set by (scur J))

struct LeafOpBase { virtual void complete(char chan, int val) = 0; virtual ~LeafOpBase() = default; };
struct QItem { virtual void run() noexcept = 0; virtual ~QItem() = default; };
struct Spec { bool inline_ = true; char chan = 'v'; int val = 0; bool completeOnStop = false; };

struct World {
  std::map<int, Spec> specs;
  std::map<int, LeafOpBase*> running;
  std::map<int, std::vector<std::pair<int, QItem*>>> queues;   // context -> (tag, item)
  std::vector<std::string> out;
  int rootCompletions = 0;
  bool started = false, stopped = false;
  void emit(std::string s) { out.push_back(s + "@" + std::to_string(g_ctx)); }
  void emit_raw(std::string s) { out.push_back(std::move(s)); }
};

// ---------------------------------------------------------------- manual tagged scheduler
struct ManualScheduler {
  World* w; int k; int tag;

  struct schedule_sender {
    template <template <typename...> class Variant, template <typename...> class Tuple>
    using value_types = Variant<Tuple<>>;
    template <template <typename...> class Variant>
    using error_types = Variant<std::exception_ptr>;
    static constexpr bool sends_done = true;
    static constexpr blocking_kind blocking = blocking_kind::never;
    static constexpr bool is_always_scheduler_affine = false;

    World* w; int k; int tag;

    template <typename R>
    struct Op final : QItem {
      World* w; int k; int tag; R r;
      Op(World* w, int k, int tag, R&& r) : w(w), k(k), tag(tag), r(std::move(r)) {}
      void start() noexcept {
        int t = g_tag >= 0 ? g_tag : tag;
        g_tag = -1;
        tag = t;
        w->queues[k].push_back({t, this});
        w->emit("q" + std::to_string(k) + ":" + std::to_string(t));
      }
      void run() noexcept override {
        if (get_stop_token(r).stop_requested()) unifex::set_done(std::move(r));
        else unifex::set_value(std::move(r));
      }
    };
    template <typename R>
    friend Op<remove_cvref_t<R>> tag_invoke(tag_t<connect>, schedule_sender s, R&& r) {
      return Op<remove_cvref_t<R>>{s.w, s.k, s.tag, (R&&)r};
    }
  };

  schedule_sender schedule() const noexcept { return schedule_sender{w, k, tag}; }
  friend bool operator==(const ManualScheduler& a, const ManualScheduler& b) noexcept { return a.w == b.w && a.k == b.k; }
  friend bool operator!=(const ManualScheduler& a, const ManualScheduler& b) noexcept { return !(a == b); }
};

// sets the tag of the schedule operation that `inner` starts (used for schedule() on get_scheduler)
template <typename Inner>
struct TagSender {
  template <template <typename...> class Variant, template <typename...> class Tuple>
  using value_types = sender_value_types_t<Inner, Variant, Tuple>;
  template <template <typename...> class Variant>
  using error_types = sender_error_types_t<Inner, Variant>;
  static constexpr bool sends_done = sender_traits<Inner>::sends_done;
  static constexpr blocking_kind blocking = sender_traits<Inner>::blocking;
  static constexpr bool is_always_scheduler_affine = sender_traits<Inner>::is_always_scheduler_affine;

  int tag; Inner inner;

  // clears the pending tag when the inner operation completes without consuming it (inline_scheduler)
  template <typename R>
  struct Rcv {
    R r;
    template <typename... V> void set_value(V&&... v) && noexcept { g_tag = -1; unifex::set_value(std::move(r), (V&&)v...); }
    template <typename E> void set_error(E&& e) && noexcept { g_tag = -1; unifex::set_error(std::move(r), (E&&)e); }
    void set_done() && noexcept { g_tag = -1; unifex::set_done(std::move(r)); }
    template <typename CPO, typename Self>
      requires is_receiver_query_cpo_v<CPO> && std::is_same_v<Self, Rcv> && std::is_invocable_v<CPO, const R&>
    friend auto tag_invoke(CPO cpo, const Self& self) noexcept(std::is_nothrow_invocable_v<CPO, const R&>)
        -> std::invoke_result_t<CPO, const R&> { return static_cast<CPO&&>(cpo)(self.r); }
  };
  template <typename R>
  struct Op {
    int tag; connect_result_t<Inner, Rcv<R>> op;
    Op(int tag, Inner&& in, R&& r) : tag(tag), op(connect(std::move(in), Rcv<R>{std::move(r)})) {}
    void start() noexcept { g_tag = tag; unifex::start(op); }
  };
  template <typename R>
  friend Op<remove_cvref_t<R>> tag_invoke(tag_t<connect>, TagSender s, R&& r) {
    return Op<remove_cvref_t<R>>{s.tag, std::move(s.inner), (R&&)r};
  }
};

// ---------------------------------------------------------------- manual leaf sender
struct LeafSender {
  template <template <typename...> class Variant, template <typename...> class Tuple>
  using value_types = Variant<Tuple<int>>;
  template <template <typename...> class Variant>
  using error_types = Variant<std::exception_ptr>;
  static constexpr bool sends_done = true;

  World* w; int id;

  template <typename R>
  struct Op final : LeafOpBase {
    struct Cb { Op* op; void operator()() noexcept { op->on_stop(); } };
    World* w; int id; R r;
    std::optional<typename stop_token_type_t<R&>::template callback_type<Cb>> cb;
    bool inCtor = false, completeAfterCtor = false;
    Op(World* w, int id, R&& r) : w(w), id(id), r(std::move(r)) {}
    void start() noexcept {
      Spec sp = w->specs.count(id) ? w->specs[id] : Spec{};
      auto st = get_stop_token(r);
      w->emit("ls" + std::to_string(id) + ":" + (st.stop_requested() ? "1" : "0"));
      if (sp.inline_) { deliver(sp.chan, sp.val); return; }
      w->running[id] = this;
      inCtor = true;
      cb.emplace(st, Cb{this});
      inCtor = false;
      if (completeAfterCtor) complete('d', 0);
    }
    void on_stop() noexcept {
      w->emit("lp" + std::to_string(id));
      Spec sp = w->specs[id];
      if (sp.completeOnStop) { if (inCtor) completeAfterCtor = true; else complete('d', 0); }
    }
    void complete(char chan, int val) override {
      w->running.erase(id);
      cb.reset();
      deliver(chan, val);
    }
    void deliver(char chan, int val) noexcept {
      if (chan == 'v') unifex::set_value(std::move(r), (int)val);
      else if (chan == 'e') unifex::set_error(std::move(r), mkerr(val));
      else unifex::set_done(std::move(r));
    }
  };
  template <typename R>
  friend Op<remove_cvref_t<R>> tag_invoke(tag_t<connect>, LeafSender s, R&& r) {
    return Op<remove_cvref_t<R>>{s.w, s.id, (R&&)r};
  }
};

// synchronous leaf: completes with value <id> inside start(); declares blocking = always
struct SyncLeaf {
  template <template <typename...> class Variant, template <typename...> class Tuple>
  using value_types = Variant<Tuple<int>>;
  template <template <typename...> class Variant>
  using error_types = Variant<std::exception_ptr>;
  static constexpr bool sends_done = false;
  static constexpr blocking_kind blocking = blocking_kind::always;

  World* w; int id;

  template <typename R>
  struct Op {
    World* w; int id; R r;
    void start() noexcept {
      w->emit("ls" + std::to_string(id) + ":" + (get_stop_token(r).stop_requested() ? "1" : "0"));
      unifex::set_value(std::move(r), (int)id);
    }
  };
  template <typename R>
  friend Op<remove_cvref_t<R>> tag_invoke(tag_t<connect>, SyncLeaf s, R&& r) {
    return Op<remove_cvref_t<R>>{s.w, s.id, (R&&)r};
  }
};

// ---------------------------------------------------------------- parser
struct Node { std::string k; std::vector<std::string> args; std::vector<Node> ch; };

struct Parser {
  std::vector<std::string> t; size_t p = 0;
  explicit Parser(const std::string& s) {
    std::string cur;
    for (char c : s) {
      if (c == '(' || c == ')') { if (!cur.empty()) { t.push_back(cur); cur.clear(); } t.push_back(std::string(1, c)); }
      else if (isspace((unsigned char)c)) { if (!cur.empty()) { t.push_back(cur); cur.clear(); } }
      else cur += c;
    }
    if (!cur.empty()) t.push_back(cur);
  }
  Node parse() {
    Node n;
    if (t.at(p) != "(") throw std::runtime_error("expected (");
    ++p; n.k = t.at(p++);
    while (t.at(p) != ")") {
      if (t[p] == "(") n.ch.push_back(parse()); else n.args.push_back(t[p++]);
    }
    ++p; return n;
  }
};

struct Fn {
  int kind = 0, c = 0, e = 0, k = 0;
  int operator()(int x) const { if (kind == 1 || (kind == 2 && x == c)) throw Err{e}; return x + k; }
};
static Fn parse_fn(const std::string& s) {
  Fn f; std::vector<std::string> parts; std::stringstream ss(s); std::string it;
  while (std::getline(ss, it, ':')) parts.push_back(it);
  if (parts[0] == "add") { f.kind = 0; f.k = atoi(parts[1].c_str()); }
  else if (parts[0] == "thr") { f.kind = 1; f.e = atoi(parts[1].c_str()); }
  else { f.kind = 2; f.c = atoi(parts[1].c_str()); f.e = atoi(parts[2].c_str()); f.k = atoi(parts[3].c_str()); }
  return f;
}

// ---------------------------------------------------------------- builder: Node -> real sender tree
static Any build(World* w, const Node& n);

static AnyVoid discard(Any a) { return AnyVoid{then(std::move(a), [](int) noexcept {})}; }
static auto zero() { return []() noexcept { return 0; }; }

// call f(scheduler) with the concrete scheduler named by S
template <typename F>
static Any with_sched(World* w, const std::string& s, int tag, F&& f) {
  if (s == "i") return f(inline_scheduler{});
  return f(ManualScheduler{w, atoi(s.c_str()), tag});
}

static Any build(World* w, const Node& n) {
  const std::string& k = n.k;
  auto num = [&](size_t i) { return atoi(n.args.at(i).c_str()); };
  if (k == "just") return Any{just(num(0))};
  if (k == "jerr") return Any{then(just_error(mkerr(num(0))), zero())};
  if (k == "jdone") return Any{then(just_done(), zero())};
  if (k == "leaf") return Any{LeafSender{w, num(0)}};
  if (k == "sleaf") return Any{SyncLeaf{w, num(0)}};
  if (k == "never") return Any{then(never_sender{}, zero())};
  if (k == "sched")
    return with_sched(w, n.args.at(0), num(1), [&](auto s) { return Any{then(schedule(s), zero())}; });
  if (k == "scur") return Any{then(TagSender<decltype(schedule())>{num(0), schedule()}, zero())};
  if (k == "then") { Fn f = parse_fn(n.args.at(0)); return Any{then(build(w, n.ch.at(0)), f)}; }
  if (k == "uns") return Any{unstoppable(build(w, n.ch.at(0)))};
  if (k == "wq")
    return with_sched(w, n.args.at(0), -1, [&](auto s) { return Any{with_query_value(build(w, n.ch.at(0)), get_scheduler, s)}; });
  if (k == "era") return Any{build(w, n.ch.at(0))};
  if (k == "md") return Any{dematerialize(materialize(build(w, n.ch.at(0))))};
  if (k == "dao") {
    int d = num(0);
    return Any{then(done_as_optional(build(w, n.ch.at(0))), [d](std::optional<int> o) noexcept { return o ? *o : d; })};
  }
  if (k == "lv") {
    const Node* s = &n.ch.at(1);
    return Any{let_value(build(w, n.ch.at(0)), [w, s](int&) { return build(w, *s); })};
  }
  if (k == "seq") return Any{sequence(discard(build(w, n.ch.at(0))), build(w, n.ch.at(1)))};
  if (k == "fin") return Any{finally(build(w, n.ch.at(0)), discard(build(w, n.ch.at(1))))};
  if (k == "wa") {
    return Any{then(when_all(build(w, n.ch.at(0)), build(w, n.ch.at(1))),
                    [](auto&& a, auto&& b) noexcept {
                      return (int)(((long long)std::get<0>(std::get<0>(a)) * 1000 + std::get<0>(std::get<0>(b))) % 1000003);
                    })};
  }
  if (k == "sw") return Any{stop_when(build(w, n.ch.at(0)), discard(build(w, n.ch.at(1))))};
  if (k == "via")
    return with_sched(w, n.args.at(0), num(1), [&](auto s) { return Any{via(build(w, n.ch.at(0)), s)}; });
  if (k == "tvia")
    return with_sched(w, n.args.at(0), num(1), [&](auto s) { return Any{typed_via(build(w, n.ch.at(0)), s)}; });
  if (k == "on")
    return with_sched(w, n.args.at(0), num(1), [&](auto s) { return Any{on(s, build(w, n.ch.at(0)))}; });
  if (k == "wsa")
    return with_sched(w, n.args.at(0), num(1), [&](auto s) { return Any{with_scheduler_affinity(build(w, n.ch.at(0)), s)}; });
  throw std::runtime_error("unknown node " + k);
}

// ---------------------------------------------------------------- root receiver
struct RootReceiver {
  World* w; inplace_stop_source* src; const ManualScheduler* sched;
  void record(const std::string& s) {
    if (!w->started) w->emit_raw("!!completion-before-start");
    if (++w->rootCompletions > 1) w->emit_raw("!!root-completed-twice");
    w->emit(s);
  }
  void set_value(int v) noexcept { record("R=v" + std::to_string(v)); }
  void set_error(std::exception_ptr e) noexcept { record("R=e" + std::to_string(errcode(e))); }
  void set_done() noexcept { record("R=d"); }
  friend inplace_stop_token tag_invoke(tag_t<get_stop_token>, const RootReceiver& r) noexcept { return r.src->get_token(); }
  friend any_scheduler_ref tag_invoke(tag_t<get_scheduler>, const RootReceiver& r) noexcept {
    return any_scheduler_ref{*r.sched};
  }
};

static std::string flush(World& w) {
  std::sort(w.out.begin(), w.out.end());
  std::string s;
  for (size_t i = 0; i < w.out.size(); ++i) { if (i) s += ","; s += w.out[i]; }
  w.out.clear();
  return s.empty() ? "-" : s;
}

static std::vector<std::string> split(const std::string& s, char d) {
  std::vector<std::string> r; std::stringstream ss(s); std::string it;
  while (std::getline(ss, it, d)) r.push_back(it);
  return r;
}
static std::string trim(const std::string& s) {
  size_t a = s.find_first_not_of(" \t\r\n"), b = s.find_last_not_of(" \t\r\n");
  return a == std::string::npos ? "" : s.substr(a, b - a + 1);
}

static std::string run_case(const std::string& line) {
  auto parts = split(line, '|');
  if (parts.size() < 4) return "bad-op";
  std::string id = trim(parts[0]);
  World w;
  {
    std::stringstream ss(parts[2]); std::string tok;
    while (ss >> tok) {
      auto eq = tok.find('=');
      int i = atoi(tok.substr(0, eq).c_str());
      std::string v = tok.substr(eq + 1);
      Spec sp;
      if (v[0] == 'i') { sp.inline_ = true; sp.chan = v[2]; sp.val = v.size() > 3 ? atoi(v.c_str() + 3) : 0; }
      else { sp.inline_ = false; sp.completeOnStop = (v.substr(2) == "done"); }
      w.specs[i] = sp;
    }
  }
  Parser ps(parts[1]);
  Node root = ps.parse();
  inplace_stop_source src;
  const ManualScheduler rootSched{&w, 0, -1};
  std::string res = id;
  g_ctx = -1; g_tag = -1;
  {
    Any s = build(&w, root);
    auto op = connect(std::move(s), RootReceiver{&w, &src, &rootSched});
    std::stringstream es(parts[3]); std::string ev;
    auto one = [&](const std::string& evs) {
      auto at = evs.find('@');
      std::string e = evs.substr(0, at);
      g_ctx = atoi(evs.c_str() + at + 1);
      if (e == "s") { if (!w.started) { w.started = true; unifex::start(op); } else w.emit_raw("!!bad-op"); }
      else if (e == "x") { w.stopped = true; src.request_stop(); }
      else if (e == "r" || e == "R") {
        auto& q = w.queues[g_ctx];
        if (q.empty()) w.emit_raw("!!bad-op");
        else {
          size_t best = 0;
          for (size_t i = 1; i < q.size(); ++i)
            if (e == "r" ? q[i].first < q[best].first : q[i].first > q[best].first) best = i;
          QItem* it = q[best].second;
          q.erase(q.begin() + best);
          it->run();
        }
      }
      else if (e[0] == 'c') {
        auto col = e.find(':');
        int i = atoi(e.substr(1, col - 1).c_str());
        char ch = e[col + 1];
        int v = e.size() > col + 2 ? atoi(e.c_str() + col + 2) : 0;
        auto it = w.running.find(i);
        if (it == w.running.end()) w.emit_raw("!!bad-op");
        else it->second->complete(ch, v);
      }
      g_ctx = -1;
      res += " | " + flush(w);
    };
    while (es >> ev) one(ev);
    // drain
    for (int guard = 0; guard < 400; ++guard) {
      int k = -1;
      for (auto& kv : w.queues) if (!kv.second.empty()) { k = kv.first; break; }
      if (k >= 0) { one("r@" + std::to_string(k)); continue; }
      if (!w.running.empty()) { one("c" + std::to_string(w.running.begin()->first) + ":d@9"); continue; }
      if (w.started && w.rootCompletions == 0 && !w.stopped) { one("x@0"); continue; }
      break;
    }
    if (w.started && w.rootCompletions != 1) res += " | !!root-completions=" + std::to_string(w.rootCompletions);
  }
  return res;
}

int main() {
  std::string line;
  std::cout << std::unitbuf;
  while (std::getline(std::cin, line)) {
    if (line.empty()) continue;
    long before = g_live;
    try {
      std::string s = run_case(line.substr(line.find(' ') + 1));
      std::cout << s;
      std::string().swap(s);
    }
    catch (const std::exception& e) { std::cout << "bad-op " << e.what(); }
    if (g_live != before) std::cout << " | !!leak=" << (g_live - before);
    std::cout << "\n";
  }
  return 0;
}
