// evt_tv.cpp — the event-level harness (see evt.cpp) with a TRACKED value type instead of int (C02):
// every value that travels through the sender tree is a TV whose constructions/destructions are
// counted (live count must return to its starting point after each case) and whose K-th move can be
// made to throw (fault injection: `| throw=K`).
// Reads cases on stdin, builds the REAL sender tree at run time (every child erased with
// any_sender_of<int>), executes the scripted external events and prints the canonical observation
// of each event.  The same case lines go to the Lean driver (`ask calc run | <case>`).
//
//   case <id> | <expr> | <leaf specs> | <events> [| throw=K]     (K-th move of a tracked value throws)
//
//   expr   := (just N) (jerr N) (jdone) (argv N) (sir) (leaf N) (jfrom N) (jvod 0|1) (iv E) (dfr E) (alc E)
//             (then FN E) (uerr FN E) (udone FN E) (md E) (dao N E) (uns E) (tag N E) (src E) (era E) (rtk E) (lvt E)
//             (lv A B) (le A B) (ld A B) (seq A B) (fin A B) (wa A B) (sw A B) (any A B)
//   FN     := add:K | thr:E | tie:C:E:K
//   specs  := I=i:vN | I=i:eN | I=i:d | I=p:ign | I=p:done          (space separated)
//   events := start | stop | cI:vN | cI:eN | cI:d                   (space separated)
//
// After the scripted events every still-pending leaf is completed with done in ascending id order
// ("drain"), so every case ends quiescent.  Output: one line per case
//   case <id> | <event result> | <event result> | ...
//   event result := comma separated, sorted:  lsI:S:T (leaf I started, S = stop already requested,
//                   T = tag seen) | lpI (leaf I got a stop notification) | R=vN / R=eN / R=d (root completed)
//   plus monitors: "!!" items (root completed twice, completion before start, …)
#include <unifex/allocate.hpp>
#include <unifex/any_sender_of.hpp>
#include <unifex/defer.hpp>
#include <unifex/into_variant.hpp>
#include <unifex/just_from.hpp>
#include <unifex/just_void_or_done.hpp>
#include <unifex/dematerialize.hpp>
#include <unifex/done_as_optional.hpp>
#include <unifex/finally.hpp>
#include <unifex/inplace_stop_token.hpp>
#include <unifex/just.hpp>
#include <unifex/just_done.hpp>
#include <unifex/just_error.hpp>
#include <unifex/let_done.hpp>
#include <unifex/let_error.hpp>
#include <unifex/let_value.hpp>
#include <unifex/let_value_with_stop_source.hpp>
#include <unifex/let_value_with_stop_token.hpp>
#include <unifex/materialize.hpp>
#include <unifex/sequence.hpp>
#include <unifex/config.hpp>
#if !UNIFEX_NO_COROUTINES
#  include <unifex/stop_if_requested.hpp>
#endif
#include <unifex/stop_when.hpp>
#include <unifex/then.hpp>
#include <unifex/unstoppable.hpp>
#include <unifex/upon_done.hpp>
#include <unifex/upon_error.hpp>
#include <unifex/when_all.hpp>
#include <unifex/when_any.hpp>
#include <unifex/with_query_value.hpp>

#include <algorithm>
#include <cstdio>
#include <cstdlib>
#include <cstring>
#include <iostream>
#include <map>
#include <memory>
#include <optional>
#include <sstream>
#include <string>
#include <vector>

using namespace unifex;

// ---------------------------------------------------------------- allocation accounting (leak monitor)
static long g_live = 0;
void* operator new(std::size_t n) { ++g_live; void* p = std::malloc(n ? n : 1); if (!p) throw std::bad_alloc(); return p; }
void operator delete(void* p) noexcept { if (p) { --g_live; std::free(p); } }
void operator delete(void* p, std::size_t) noexcept { if (p) { --g_live; std::free(p); } }

// ---------------------------------------------------------------- custom receiver query
inline constexpr struct get_tag_fn {
  template <typename R>
  auto operator()(const R& r) const noexcept -> tag_invoke_result_t<get_tag_fn, const R&> {
    return tag_invoke(*this, r);
  }
} get_tag{};

// error payloads are tracked too: an exception_ptr an operation stored (let_error's error_, materialize, …) and never
// destructed keeps its Err alive past the end of the case (monitor !!errleak)
static long g_err_live = 0;
struct Err {
  int code;
  explicit Err(int c) noexcept : code(c) { ++g_err_live; }
  Err(const Err& o) noexcept : code(o.code) { ++g_err_live; }
  ~Err() { --g_err_live; }
};

// ---------------------------------------------------------------- tracked value (C02)
static long g_tv_live = 0, g_tv_moves = 0, g_tv_throw_at = 0;
struct TV {
  int v;
  TV() : v(0) { ++g_tv_live; }
  TV(int x) : v(x) { ++g_tv_live; }
  TV(const TV& o) : v(o.v) { ++g_tv_live; }
  TV(TV&& o) noexcept(false) : v(o.v) {
    ++g_tv_moves;
    if (g_tv_throw_at && g_tv_moves == g_tv_throw_at) throw Err{77};
    ++g_tv_live;
  }
  TV& operator=(const TV& o) { v = o.v; return *this; }
  TV& operator=(TV&& o) noexcept { v = o.v; return *this; }
  ~TV() { --g_tv_live; }
};

using Any = with_receiver_queries<overload<int(const this_&) noexcept>(get_tag)>::any_sender_of<TV>;
using AnyVoid = with_receiver_queries<overload<int(const this_&) noexcept>(get_tag)>::any_sender_of<>;

static std::exception_ptr mkerr(int c) { return std::make_exception_ptr(Err{c}); }
static int errcode(std::exception_ptr e) {
  try { std::rethrow_exception(e); } catch (const Err& x) { return x.code; } catch (...) { return -1; }
}

// ---------------------------------------------------------------- world
struct LeafOpBase;
struct Spec { bool inline_ = true; char chan = 'v'; int val = 0; bool completeOnStop = false; };

struct World {
  std::map<int, Spec> specs;
  std::map<int, LeafOpBase*> running;   // pending leaves
  std::vector<std::string> out;         // outputs of the current event
  int rootCompletions = 0;
  bool started = false;
  bool tok = false;                     // field "tok": counting-token boundaries around composite nodes (see evt.cpp)
  void emit(std::string s) { out.push_back(std::move(s)); }
};

struct LeafOpBase {
  virtual void complete(char chan, int val) = 0;
  virtual ~LeafOpBase() = default;
};

// ---------------------------------------------------------------- manual leaf sender
struct LeafSender {
  template <template <typename...> class Variant, template <typename...> class Tuple>
  using value_types = Variant<Tuple<TV>>;
  template <template <typename...> class Variant>
  using error_types = Variant<std::exception_ptr>;
  static constexpr bool sends_done = true;

  World* w; int id;

  template <typename R>
  struct Op final : LeafOpBase {
    struct Cb { Op* op; void operator()() noexcept { op->on_stop(); } };
    World* w; int id; R r;
    std::optional<typename stop_token_type_t<R&>::template callback_type<Cb>> cb;
    bool inCtor = false, completeAfterCtor = false;
    Op(World* w, int id, R&& r) : w(w), id(id), r(std::move(r)) {}
    void start() noexcept {
      Spec sp = w->specs.count(id) ? w->specs[id] : Spec{};
      auto st = get_stop_token(r);
      int tag = get_tag(std::as_const(r));
      w->emit("ls" + std::to_string(id) + ":" + (st.stop_requested() ? "1" : "0") + ":" + std::to_string(tag));
      if (sp.inline_) { deliver(sp.chan, sp.val); return; }
      w->running[id] = this;
      inCtor = true;
      cb.emplace(st, Cb{this});
      inCtor = false;
      if (completeAfterCtor) complete('d', 0);
    }
    void on_stop() noexcept {
      w->emit("lp" + std::to_string(id));
      Spec sp = w->specs[id];
      if (sp.completeOnStop) { if (inCtor) completeAfterCtor = true; else complete('d', 0); }
    }
    void complete(char chan, int val) override {
      w->running.erase(id);
      cb.reset();
      deliver(chan, val);
    }
    void deliver(char chan, int val) noexcept {
      if (chan == 'v') { UNIFEX_TRY { unifex::set_value(std::move(r), TV{val}); } UNIFEX_CATCH(...) { unifex::set_error(std::move(r), std::current_exception()); } }
      else if (chan == 'e') unifex::set_error(std::move(r), mkerr(val));
      else unifex::set_done(std::move(r));
    }
  };
  template <typename R>
  friend Op<remove_cvref_t<R>> tag_invoke(tag_t<connect>, LeafSender s, R&& r) {
    return Op<remove_cvref_t<R>>{s.w, s.id, (R&&)r};
  }
};

// ---------------------------------------------------------------- counting stop token + receiver boundary
// A stop token that is NOT inplace_stop_token (so the algorithms take their generic paths) and counts the
// callbacks currently REGISTERED through it: +1 at construction, -1 when the callback is invoked (the source
// has dequeued it) or destroyed, whichever comes first.  C04: the count must be 0 whenever a completion signal
// passes the receiver that handed out the token.
struct CountTok {
  inplace_stop_token t;
  std::shared_ptr<int> n;
  bool stop_requested() const noexcept { return t.stop_requested(); }
  bool stop_possible() const noexcept { return t.stop_possible(); }
  template <typename F>
  struct callback_type {
    struct Fire { callback_type* self; void operator()() noexcept { self->fire(); } };
    F f; std::shared_ptr<int> n; bool counted;
    inplace_stop_callback<Fire> cb;
    template <typename F2>
    callback_type(CountTok tok, F2&& f2) : f((F2&&)f2), n(std::move(tok.n)), counted((++*n, true)), cb(tok.t, Fire{this}) {}
    ~callback_type() { if (counted) --*n; }
    void fire() noexcept {
      if (counted) { counted = false; --*n; }
      std::move(f)();          // may destroy *this: nothing is touched afterwards
    }
  };
};

template <typename S>
struct Retok {
  template <template <typename...> class Variant, template <typename...> class Tuple>
  using value_types = sender_value_types_t<S, Variant, Tuple>;
  template <template <typename...> class Variant>
  using error_types = sender_error_types_t<S, Variant>;
  static constexpr bool sends_done = sender_traits<S>::sends_done;

  World* w; S s;

  template <typename R>
  struct Rcv {
    World* w; std::shared_ptr<int> n; R* r;
    void check() noexcept { if (*n != 0) w->emit("!!cbreg=" + std::to_string(*n)); }
    template <typename... Vs>
    void set_value(Vs&&... vs) && noexcept {
      check();
      UNIFEX_TRY { unifex::set_value(std::move(*r), (Vs&&)vs...); }
      UNIFEX_CATCH(...) { unifex::set_error(std::move(*r), std::current_exception()); }
    }
    template <typename E>
    void set_error(E&& e) && noexcept { check(); unifex::set_error(std::move(*r), (E&&)e); }
    void set_done() && noexcept { check(); unifex::set_done(std::move(*r)); }
    friend CountTok tag_invoke(tag_t<get_stop_token>, const Rcv& x) noexcept { return CountTok{get_stop_token(*x.r), x.n}; }
    friend int tag_invoke(get_tag_fn, const Rcv& x) noexcept { return get_tag(std::as_const(*x.r)); }
  };
  template <typename R>
  struct Op {
    R r; std::shared_ptr<int> n;
    connect_result_t<S, Rcv<R>> inner;
    Op(World* w, S&& s, R&& r0) : r(std::move(r0)), n(std::make_shared<int>(0)), inner(connect(std::move(s), Rcv<R>{w, n, &r})) {}
    void start() noexcept { unifex::start(inner); }
  };
  template <typename R>
  friend Op<remove_cvref_t<R>> tag_invoke(tag_t<connect>, Retok&& s, R&& r) {
    return Op<remove_cvref_t<R>>{s.w, std::move(s.s), (R&&)r};
  }
};

// ---------------------------------------------------------------- parser
struct Node { std::string k; std::vector<std::string> args; std::vector<Node> ch; };

struct Parser {
  std::vector<std::string> t; size_t p = 0;
  explicit Parser(const std::string& s) {
    std::string cur;
    for (char c : s) {
      if (c == '(' || c == ')') { if (!cur.empty()) { t.push_back(cur); cur.clear(); } t.push_back(std::string(1, c)); }
      else if (isspace((unsigned char)c)) { if (!cur.empty()) { t.push_back(cur); cur.clear(); } }
      else cur += c;
    }
    if (!cur.empty()) t.push_back(cur);
  }
  Node parse() {
    Node n;
    if (t.at(p) != "(") throw std::runtime_error("expected (");
    ++p; n.k = t.at(p++);
    while (t.at(p) != ")") {
      if (t[p] == "(") n.ch.push_back(parse()); else n.args.push_back(t[p++]);
    }
    ++p; return n;
  }
};

struct Fn {
  int kind = 0, c = 0, e = 0, k = 0;   // 0 add, 1 throw always, 2 throw if eq (else x+k), 3 const k, 4 throw if eq (else k)
  bool isVoid = false;                 // the callable returns void; the builder appends "then k"
  int operator()(int x) const {
    if (kind == 1 || ((kind == 2 || kind == 4) && x == c)) throw Err{e};
    return (kind == 3 || kind == 4) ? k : x + k;
  }
  TV operator()(TV x) const { return TV{(*this)(x.v)}; }
};
struct VoidFn { Fn f; void operator()(TV x) const { (void)f(x.v); } };
static Fn parse_fn(const std::string& s) {
  Fn f; std::vector<std::string> parts; std::stringstream ss(s); std::string it;
  while (std::getline(ss, it, ':')) parts.push_back(it);
  std::string h = parts[0];
  if (h.size() > 1 && h[0] == 'v' && (h == "vcst" || h == "vthr" || h == "vtie")) { f.isVoid = true; h = h.substr(1); if (h == "tie") h = "ctie"; }
  if (h == "add") { f.kind = 0; f.k = atoi(parts[1].c_str()); }
  else if (h == "thr") { f.kind = 1; f.e = atoi(parts[1].c_str()); }
  else if (h == "tie") { f.kind = 2; f.c = atoi(parts[1].c_str()); f.e = atoi(parts[2].c_str()); f.k = atoi(parts[3].c_str()); }
  else if (h == "cst") { f.kind = 3; f.k = atoi(parts[1].c_str()); }
  else if (h == "ctie") { f.kind = 4; f.c = atoi(parts[1].c_str()); f.e = atoi(parts[2].c_str()); f.k = atoi(parts[3].c_str()); }
  else if (parts.size() == 1 && isdigit((unsigned char)h[0])) { f.kind = 3; f.k = atoi(h.c_str()); }
  else throw std::runtime_error("bad fn " + s);
  return f;
}

// ---------------------------------------------------------------- builder: Node -> real sender tree
static Any build(World* w, const Node& n, int arg);

static AnyVoid discard(Any a) { return AnyVoid{then(std::move(a), [](TV) noexcept {})}; }

template <typename S>
static Any mk(World* w, S&& s) {
  if (w->tok) return Any{Retok<remove_cvref_t<S>>{w, (S&&)s}};
  return Any{(S&&)s};
}

// result of a void-returning user callable, or the child's own int value, as one int
struct Unify { int k; TV operator()() const { return TV{k}; } TV operator()(TV x) const { return TV{x.v}; } };

struct MatObs {
  TV operator()(tag_t<set_value>, TV v) const { return TV{v.v}; }
  TV operator()(tag_t<set_error>, std::exception_ptr e) const { return TV{errcode(e) + 100}; }
  TV operator()(tag_t<set_done>) const { return TV{77}; }
};

static Any build(World* w, const Node& n, int arg) {
  const std::string& k = n.k;
  auto num = [&](size_t i) { return atoi(n.args.at(i).c_str()); };
  if (k == "just") return Any{just(TV{num(0)})};
  if (k == "jerr") return Any{then(just_error(mkerr(num(0))), []() { return TV{0}; })};
  if (k == "jdone") return Any{then(just_done(), []() { return TV{0}; })};
  if (k == "argv") return Any{just(TV{arg + num(0)})};
#if !UNIFEX_NO_COROUTINES
  if (k == "sir") return mk(w, then(stop_if_requested(), []() { return TV{0}; }));
#endif
  if (k == "jfrom") { int v = num(0); return Any{just_from([v]() { return TV{v}; })}; }
  if (k == "jvod") return Any{then(just_void_or_done(num(0) != 0), []() { return TV{0}; })};
  if (k == "leaf") return mk(w, LeafSender{w, num(0)});
  if (k == "iv") {
    return mk(w, then(into_variant(build(w, n.ch.at(0), arg)),
                      [](auto&& var) { return TV{std::get<0>(std::get<0>(var)).v}; }));
  }
  if (k == "dfr") { const Node* c = &n.ch.at(0); return mk(w, defer([w, c, arg]() { return build(w, *c, arg); })); }
  if (k == "alc") return mk(w, allocate(build(w, n.ch.at(0), arg)));
  if (k == "then") {
    Fn f = parse_fn(n.args.at(0));
    if (f.isVoid) return mk(w, then(then(build(w, n.ch.at(0), arg), VoidFn{f}), [f]() { return TV{f.k}; }));
    return mk(w, then(build(w, n.ch.at(0), arg), f));
  }
  if (k == "uerr") {
    Fn f = parse_fn(n.args.at(0));
    if (f.isVoid)
      return mk(w, then(upon_error(build(w, n.ch.at(0), arg), [f](std::exception_ptr e) { (void)f(errcode(e)); }), Unify{f.k}));
    return mk(w, upon_error(build(w, n.ch.at(0), arg), [f](std::exception_ptr e) { return TV{f(errcode(e))}; }));
  }
  if (k == "udone") {
    Fn f = parse_fn(n.args.at(0));
    if (f.isVoid) return mk(w, then(upon_done(build(w, n.ch.at(0), arg), [f]() { (void)f(0); }), Unify{f.k}));
    if (f.kind == 3) { int v = f.k; return mk(w, upon_done(build(w, n.ch.at(0), arg), [v]() { return TV{v}; })); }
    return mk(w, upon_done(build(w, n.ch.at(0), arg), [f]() { return TV{f(0)}; }));
  }
  if (k == "md") return mk(w, dematerialize(materialize(build(w, n.ch.at(0), arg))));
  if (k == "mob") return mk(w, then(materialize(build(w, n.ch.at(0), arg)), MatObs{}));
  if (k == "dao") {
    int d = num(0);
    return mk(w, then(done_as_optional(build(w, n.ch.at(0), arg)), [d](std::optional<TV> o) { return o ? TV{o->v} : TV{d}; }));
  }
  if (k == "uns") return mk(w, unstoppable(build(w, n.ch.at(0), arg)));
  if (k == "tag") return mk(w, with_query_value(build(w, n.ch.at(0), arg), get_tag, num(0)));
  if (k == "src") {
    const Node* c = &n.ch.at(0);
    return mk(w, let_value_with_stop_source([w, c, arg](inplace_stop_source&) { return build(w, *c, arg); }));
  }
  if (k == "era") return Any{build(w, n.ch.at(0), arg)};
  // a counting-token boundary regardless of the case flag (exercises any_sender_of's stop-token adapter)
  if (k == "rtk") return Any{Retok<Any>{w, build(w, n.ch.at(0), arg)}};
  // let_value_with_stop_token connected to a receiver whose token is NOT inplace_stop_token (generic path: own
  // stop source + forwarding callback on the receiver's token)
  if (k == "lvt") {
    const Node* c = &n.ch.at(0);
    auto s = let_value_with_stop_token([w, c, arg](inplace_stop_token) noexcept { return build(w, *c, arg); });
    return Any{Retok<decltype(s)>{w, std::move(s)}};
  }
  if (k == "lv") {
    const Node* s = &n.ch.at(1);
    return mk(w, let_value(build(w, n.ch.at(0), arg), [w, s](TV& v) { return build(w, *s, v.v); }));
  }
  if (k == "le") {
    const Node* s = &n.ch.at(1);
    return mk(w, let_error(build(w, n.ch.at(0), arg), [w, s](std::exception_ptr e) { return build(w, *s, errcode(e)); }));
  }
  if (k == "ld") {
    const Node* s = &n.ch.at(1);
    return mk(w, let_done(build(w, n.ch.at(0), arg), [w, s, arg]() { return build(w, *s, arg); }));
  }
  if (k == "seq") return mk(w, sequence(discard(build(w, n.ch.at(0), arg)), build(w, n.ch.at(1), arg)));
  if (k == "fin") return mk(w, finally(build(w, n.ch.at(0), arg), discard(build(w, n.ch.at(1), arg))));
  if (k == "wa") {
    return mk(w, then(when_all(build(w, n.ch.at(0), arg), build(w, n.ch.at(1), arg)),
                      [](auto&& a, auto&& b) {
                        return TV{(int)(((long long)std::get<0>(std::get<0>(a)).v * 1000 + std::get<0>(std::get<0>(b)).v) % 1000003)};
                      }));
  }
  if (k == "any") return mk(w, when_any(build(w, n.ch.at(0), arg), build(w, n.ch.at(1), arg)));
  if (k == "sw") return mk(w, stop_when(build(w, n.ch.at(0), arg), discard(build(w, n.ch.at(1), arg))));
  throw std::runtime_error("unknown node " + k);
}

// ---------------------------------------------------------------- root receiver
struct RootReceiver {
  World* w; inplace_stop_source* src;
  void record(const std::string& s) {
    if (!w->started) w->emit("!!completion-before-start");
    if (++w->rootCompletions > 1) w->emit("!!root-completed-twice");
    w->emit(s);
  }
  void set_value(TV&& v) noexcept { record("R=v" + std::to_string(v.v)); }
  void set_error(std::exception_ptr e) noexcept { record("R=e" + std::to_string(errcode(e))); }
  void set_done() noexcept { record("R=d"); }
  friend inplace_stop_token tag_invoke(tag_t<get_stop_token>, const RootReceiver& r) noexcept { return r.src->get_token(); }
  friend int tag_invoke(get_tag_fn, const RootReceiver&) noexcept { return 7; }
};

static std::string flush(World& w) {
  std::sort(w.out.begin(), w.out.end());
  std::string s;
  for (size_t i = 0; i < w.out.size(); ++i) { if (i) s += ","; s += w.out[i]; }
  w.out.clear();
  return s.empty() ? "-" : s;
}

static std::vector<std::string> split(const std::string& s, char d) {
  std::vector<std::string> r; std::stringstream ss(s); std::string it;
  while (std::getline(ss, it, d)) r.push_back(it);
  return r;
}
static std::string trim(const std::string& s) {
  size_t a = s.find_first_not_of(" \t\r\n"), b = s.find_last_not_of(" \t\r\n");
  return a == std::string::npos ? "" : s.substr(a, b - a + 1);
}

static std::string run_case(const std::string& line) {
  auto parts = split(line, '|');
  if (parts.size() < 4) return "bad-op";
  std::string id = trim(parts[0]);
  g_tv_moves = 0; g_tv_throw_at = 0;
  World w;
  for (size_t i = 4; i < parts.size(); ++i) { std::string t = trim(parts[i]); if (t.rfind("throw=", 0) == 0) g_tv_throw_at = atol(t.c_str() + 6); else if (t == "tok") w.tok = true; }
  long tv_before = g_tv_live; long err_before = g_err_live;
  {
    std::stringstream ss(parts[2]); std::string tok;
    while (ss >> tok) {
      auto eq = tok.find('=');
      int i = atoi(tok.substr(0, eq).c_str());
      std::string v = tok.substr(eq + 1);
      Spec sp;
      if (v[0] == 'i') { sp.inline_ = true; sp.chan = v[2]; sp.val = v.size() > 3 ? atoi(v.c_str() + 3) : 0; }
      else { sp.inline_ = false; sp.completeOnStop = (v.substr(2) == "done"); }
      w.specs[i] = sp;
    }
  }
  Parser ps(parts[1]);
  Node root = ps.parse();
  inplace_stop_source src;
  std::string res = id;
  try {
    Any s = build(&w, root, 0);
    auto op = connect(std::move(s), RootReceiver{&w, &src});
    std::stringstream es(parts[3]); std::string ev;
    auto one = [&](const std::string& ev) {
      if (ev == "start") { if (!w.started) { w.started = true; unifex::start(op); } else w.emit("!!bad-op"); }
      else if (ev == "stop") { src.request_stop(); }
      else if (ev[0] == 'c') {
        auto col = ev.find(':');
        int i = atoi(ev.substr(1, col - 1).c_str());
        char ch = ev[col + 1];
        int v = ev.size() > col + 2 ? atoi(ev.c_str() + col + 2) : 0;
        auto it = w.running.find(i);
        if (it == w.running.end()) w.emit("!!bad-op");
        else it->second->complete(ch, v);
      }
      res += " | " + flush(w);
    };
    while (es >> ev) one(ev);
    // drain
    while (!w.running.empty()) {
      int i = w.running.begin()->first;
      one("c" + std::to_string(i) + ":d");
    }
    if (w.started && w.rootCompletions != 1) res += " | !!root-completions=" + std::to_string(w.rootCompletions);
  } catch (const Err& e) {
    // a throwing value while the sender is being BUILT or CONNECTED propagates to the caller (documented)
    res += " | threw-at-build-or-connect e" + std::to_string(e.code);
    if (w.started) res += " | !!exception-escaped-after-start";
  }
  // The operation state is destroyed now.  A stop request AFTER that must not reach anything: a stop
  // callback that an operation left registered on its receiver's token would now run on freed memory
  // (C04: every callback is deregistered before the receiver is completed) - ASan reports it.
  src.request_stop();
  if (g_tv_live != tv_before) res += " | !!tvleak=" + std::to_string(g_tv_live - tv_before);
  if (g_err_live != err_before) res += " | !!errleak=" + std::to_string(g_err_live - err_before);
  res += " # moves=" + std::to_string(g_tv_moves);
  g_tv_throw_at = 0;
  return res;
}

int main() {
  std::string line;
  std::cout << std::unitbuf;
  while (std::getline(std::cin, line)) {
    if (line.empty()) continue;
    long before = g_live;
    try {
      std::string s = run_case(line.substr(line.find(' ') + 1));
      std::cout << s;
      std::string().swap(s);
    }
    catch (const std::exception& e) { std::cout << "bad-op " << e.what(); }
    if (g_live != before) std::cout << " | !!leak=" << (g_live - before);
    std::cout << "\n";
  }
  return 0;
}
