// estream.cpp — element-lifetime correspondence harness for unifex::type_erased_stream (C18).
// A harness stream whose next() operation keeps the produced element INSIDE its operation state and
// completes with an rvalue reference to it (exactly what unifex::just(v) does) is consumed by a
// manual driver either directly or through 1 / 2 layers of the REAL type_erase<Elem>().  The element
// type is tracked: every construction / move / copy / destruction and every READ by the consumer's
// receiver is logged with the object's id.  The same case lines go to the Lean driver
// (`ask estream run | <case>`, model lean/UnifexModel/Proto/ErasedStream.lean).
//
//   case <id> | <cfg> | op op op ...        cfg := direct | erased | erased2 | reerased
//     erased2  = type_erase<Elem>(Pass{type_erase<Elem>(S)}) : two genuine layers (Pass is a transparent
//                harness adaptor; without it the second type_erase just MOVES the erased stream)
//     reerased = type_erase<Elem>(type_erase<Elem>(S))       : behaves like ONE layer
//   ops (colon separated, numbers 1..6 decimal digits, anything else is `=bad`):
//     N:<item>[:p][:tK]   connect+start next(stream); the source will produce item := vN | d | eN,
//                         inside start() or (p) later at F; the K-th element move of that delivery throws
//     F                   the pending next of the source completes
//     K | K:eN            connect+start cleanup(stream) (the source completes it with done / error N)
//   rejected (=bad, nothing happens): N / K while a next is pending or after cleanup, F without a pending next.
//
//   output: <id> | <events> =<res> | ... | <events> =end     (last entry: implicit F and K at scope exit)
//     events: cI:V (source constructs element I, value V)  mI<S (I move-constructed from S)  kI<S (copy)
//             dI (destroyed)  rI=V (the consumer's receiver got a reference to I and read V)
//             sd / seN (the consumer's receiver got set_done / set_error N)
//     res:    =vN =d =eN (what the next completed with)  =pend  =C / =CeN (cleanup)  =bad
//   monitors (independent of the model), "!!" items: read-of-destroyed (the consumer, or a move, read
//   an element that is not alive), copy, double-dtor, second-completion, leak-elem (elements alive
//   after the operation that produced them has been torn down).
#include <unifex/inline_scheduler.hpp>
#include <unifex/inplace_stop_token.hpp>
#include <unifex/receiver_concepts.hpp>
#include <unifex/sender_concepts.hpp>
#include <unifex/stream_concepts.hpp>
#include <unifex/type_erased_stream.hpp>

#include <cstdio>
#include <cstdlib>
#include <cstring>
#include <iostream>
#include <memory>
#include <optional>
#include <sstream>
#include <string>
#include <vector>

using namespace unifex;

static std::string S(long x) { return std::to_string(x); }

// ---------------------------------------------------------------- event log + tracked elements
static std::vector<std::string> g_out;
static void emit(std::string s) { g_out.push_back(std::move(s)); }

static int g_next = 0;             // next element id
static char g_state[8192];         // 0 never, 1 live, 2 destroyed
static int g_liveElems = 0;
static int g_moves = 0;            // element moves since the current delivery started
static int g_throwAt = 0;          // the move with this ordinal throws (0 = none)

static bool is_live(int id) { return id >= 0 && id < (int)sizeof g_state && g_state[id] == 1; }

struct Boom { int v; };
static std::exception_ptr mkerr(int c) { return std::make_exception_ptr(Boom{c}); }
static int errcode(std::exception_ptr e) {
  try { std::rethrow_exception(e); } catch (const Boom& x) { return x.v; } catch (...) { return -1; }
}

struct Elem {
  int id;
  int val;
  // reading another element: never look at a dead object's bytes (deterministic report instead)
  static int read(const Elem& o, const char* who) {
    if (!is_live(o.id)) { emit(std::string("!!read-of-destroyed:") + who); return -1000; }
    return o.val;
  }
  void born() { if (id >= 0 && id < (int)sizeof g_state) g_state[id] = 1; ++g_liveElems; }
  explicit Elem(int v) : id(g_next++), val(v) { born(); emit("c" + S(id) + ":" + S(v)); }
  Elem(Elem&& o) : id(-1), val(0) {
    ++g_moves;
    int v = read(o, "move");
    if (g_moves == g_throwAt) throw Boom{v};
    int src = is_live(o.id) ? o.id : -1;
    id = g_next++; val = v;
    if (src >= 0) o.val = 0;
    born(); emit("m" + S(id) + "<" + S(src));
  }
  Elem(const Elem& o) : id(g_next++), val(read(o, "copy")) { born(); emit("k" + S(id) + "<" + S(o.id)); emit("!!copy"); }
  Elem& operator=(const Elem&) = delete;
  ~Elem() {
    if (!is_live(id)) { emit("!!double-dtor"); return; }
    g_state[id] = 2; --g_liveElems;
    emit("d" + S(id));
    // keep `id` intact: a later (illegal) read must be attributable to this object
  }
};

// ---------------------------------------------------------------- the wrapped harness stream
struct Item { char kind = 'd'; int n = 0; };     // 'v' value n, 'd' done, 'e' error n

struct World;
struct PendBase { virtual void complete() = 0; protected: ~PendBase() = default; };
struct World {
  Item cur; bool curPending = false; int curThrow = 0;     // what the next started next() will do
  PendBase* pending = nullptr; int pendingThrow = 0;
  int cleanErr = -1;
  int completions = 0;                                       // consumer-side completions of the current op
  std::string result;
};

template <typename R>
struct HNextOp final : PendBase {
  World* w; R r; Item item; int thr = 0;
  std::optional<Elem> elem;            // the produced element lives in the operation state
  HNextOp(World* w, R&& r) : w(w), r(std::move(r)) {}
  HNextOp(HNextOp&&) = delete;
  void start() noexcept {
    item = w->cur; thr = w->curThrow;
    if (w->curPending) { w->pending = this; return; }
    finish();
  }
  void complete() override { w->pending = nullptr; finish(); }
  void finish() noexcept {
    Item it = item;
    g_moves = 0; g_throwAt = thr;
    if (it.kind == 'v') {
      elem.emplace(it.n);
      unifex::set_value(std::move(r), std::move(*elem));   // rvalue reference INTO this operation state
    } else if (it.kind == 'e') unifex::set_error(std::move(r), mkerr(it.n));
    else unifex::set_done(std::move(r));
    // `this` may be gone here (a type-erased layer destroys the wrapped operation inside set_value)
  }
};
template <typename R>
struct HCleanOp final {
  World* w; R r;
  void start() noexcept {
    if (w->cleanErr >= 0) unifex::set_error(std::move(r), mkerr(w->cleanErr));
    else unifex::set_done(std::move(r));
  }
};
struct HNextSender {
  template <template <typename...> class Variant, template <typename...> class Tuple>
  using value_types = Variant<Tuple<Elem>>;
  template <template <typename...> class Variant>
  using error_types = Variant<std::exception_ptr>;
  static constexpr bool sends_done = true;
  World* w;
  template <typename R>
  friend HNextOp<remove_cvref_t<R>> tag_invoke(tag_t<connect>, HNextSender s, R&& r) {
    return HNextOp<remove_cvref_t<R>>{s.w, (R&&)r};
  }
};
struct HCleanSender {
  template <template <typename...> class Variant, template <typename...> class Tuple>
  using value_types = Variant<>;
  template <template <typename...> class Variant>
  using error_types = Variant<std::exception_ptr>;
  static constexpr bool sends_done = true;
  World* w;
  template <typename R>
  friend HCleanOp<remove_cvref_t<R>> tag_invoke(tag_t<connect>, HCleanSender s, R&& r) {
    return HCleanOp<remove_cvref_t<R>>{s.w, (R&&)r};
  }
};
struct HStream {
  World* w;
  friend HNextSender tag_invoke(tag_t<next>, HStream& s) noexcept { return {s.w}; }
  friend HCleanSender tag_invoke(tag_t<cleanup>, HStream& s) noexcept { return {s.w}; }
};

// transparent adaptor: makes the erased stream a different type, so that erasing it again adds a layer
template <typename Inner>
struct PassStream {
  Inner inner;
  friend auto tag_invoke(tag_t<next>, PassStream& p) { return next(p.inner); }
  friend auto tag_invoke(tag_t<cleanup>, PassStream& p) { return cleanup(p.inner); }
};

// ---------------------------------------------------------------- the consumer (manual driver)
struct NextRx {
  World* w;
  void done(const std::string& res) {
    if (++w->completions > 1) emit("!!second-completion");
    w->result = res;
  }
  void set_value(Elem&& x) && noexcept {
    int v = Elem::read(x, "consumer");
    emit("r" + S(is_live(x.id) ? x.id : -1) + "=" + S(v));
    done("=v" + S(v));
  }
  void set_error(std::exception_ptr e) && noexcept { int c = errcode(e); emit("se" + S(c)); done("=e" + S(c)); }
  void set_done() && noexcept { emit("sd"); done("=d"); }
  friend unstoppable_token tag_invoke(tag_t<get_stop_token>, const NextRx&) noexcept { return {}; }
  friend inline_scheduler tag_invoke(tag_t<get_scheduler>, const NextRx&) noexcept { return {}; }
};
struct CleanRx {
  World* w;
  void set_error(std::exception_ptr e) && noexcept { w->result = "=Ce" + S(errcode(e)); ++w->completions; }
  void set_done() && noexcept { w->result = "=C"; ++w->completions; }
  friend inline_scheduler tag_invoke(tag_t<get_scheduler>, const CleanRx&) noexcept { return {}; }
};

struct OpHolder { virtual ~OpHolder() = default; virtual void start() noexcept = 0; };
template <typename Op>
struct OpHolderT final : OpHolder {
  Op op;
  template <typename F> explicit OpHolderT(F&& f) : op(f()) {}
  void start() noexcept override { unifex::start(op); }
};
template <typename F>
static std::unique_ptr<OpHolder> hold(F&& f) {
  return std::unique_ptr<OpHolder>(new OpHolderT<decltype(f())>((F&&)f));
}

// ---------------------------------------------------------------- parsing (same rules as the Lean driver)
static bool num(const std::string& s, int& out) {
  if (s.empty() || s.size() > 6) return false;
  for (char c : s) if (c < '0' || c > '9') return false;
  out = atoi(s.c_str());
  return true;
}
static std::vector<std::string> split(const std::string& s, char d) {
  std::vector<std::string> r; std::string cur;
  for (char c : s) { if (c == d) { r.push_back(cur); cur.clear(); } else cur += c; }
  r.push_back(cur);
  return r;
}
static bool parse_item(const std::string& s, Item& it) {
  if (s == "d") { it = {'d', 0}; return true; }
  if (s.size() > 1 && (s[0] == 'v' || s[0] == 'e')) { int n; if (!num(s.substr(1), n)) return false; it = {s[0], n}; return true; }
  return false;
}
static bool parse_thr(const std::string& s, int& k) {
  return s.size() > 1 && s[0] == 't' && num(s.substr(1), k) && k != 0;
}

static std::string flush(const std::string& res) {
  std::string s;
  for (auto& e : g_out) { if (!s.empty()) s += " "; s += e; }
  g_out.clear();
  if (!s.empty()) s += " ";
  return s + res;
}

template <typename Stream>
struct Runner {
  World w;
  Stream stream;
  std::unique_ptr<OpHolder> pendingOp;     // the consumer's outstanding next operation
  bool closed = false;

  template <typename Mk>
  explicit Runner(Mk&& mk) : stream(mk(&w)) {}

  // the next operation has completed: tear it down (direct: this destroys the element in the source's op)
  std::string finish_next() {
    std::string r = w.result;
    if (w.completions != 1) emit("!!completions=" + S(w.completions));
    pendingOp.reset();
    if (g_liveElems != 0) emit("!!leak-elem=" + S(g_liveElems));
    return r;
  }
  std::string do_next(Item it, bool pend, int thr) {
    w.cur = it; w.curPending = pend; w.curThrow = thr; w.completions = 0; w.result.clear();
    pendingOp = hold([&] { return connect(next(stream), NextRx{&w}); });
    pendingOp->start();
    if (pend) return "=pend";
    return finish_next();
  }
  std::string do_fire() {
    w.pending->complete();
    return finish_next();
  }
  std::string do_cleanup(int err) {
    w.cleanErr = err; w.completions = 0; w.result.clear();
    {
      auto op = connect(cleanup(stream), CleanRx{&w});
      unifex::start(op);
    }
    closed = true;
    if (w.completions != 1) emit("!!completions=" + S(w.completions));
    return w.result;
  }

  std::string one(const std::string& tok) {
    auto f = split(tok, ':');
    const std::string& k = f[0];
    if (k == "N" && f.size() >= 2 && f.size() <= 4) {
      Item it; bool pend = false; int thr = 0;
      if (!parse_item(f[1], it)) return "=bad";
      if (f.size() == 3) { if (f[2] == "p") pend = true; else if (!parse_thr(f[2], thr)) return "=bad"; }
      if (f.size() == 4) { if (f[2] != "p" || !parse_thr(f[3], thr)) return "=bad"; pend = true; }
      if (closed || w.pending) return "=bad";
      return do_next(it, pend, thr);
    }
    if (k == "F" && f.size() == 1) { if (!w.pending || closed) return "=bad"; return do_fire(); }
    if (k == "K" && f.size() <= 2) {
      int err = -1;
      if (f.size() == 2) { if (f[1].size() < 2 || f[1][0] != 'e' || !num(f[1].substr(1), err)) return "=bad"; }
      if (closed || w.pending) return "=bad";
      return do_cleanup(err);
    }
    return "=bad";
  }

  std::string run(const std::string& id, const std::string& ops) {
    std::string res = id;
    std::stringstream ss(ops); std::string tok;
    while (ss >> tok) { std::string r = one(tok); res += " | " + flush(r); }
    if (w.pending) do_fire();
    if (!closed) do_cleanup(-1);
    res += " | " + flush("=end");
    return res;
  }
};

static std::string trim(const std::string& s) {
  size_t a = s.find_first_not_of(" \t\r\n"), b = s.find_last_not_of(" \t\r\n");
  return a == std::string::npos ? "" : s.substr(a, b - a + 1);
}

using Erased = decltype(type_erase<Elem>(std::declval<HStream>()));

static std::string run_case(const std::string& line) {
  auto parts = split(line, '|');
  if (parts.size() != 3) return "bad-op";
  std::string id = trim(parts[0]), cfg = trim(parts[1]);
  g_next = 0; g_liveElems = 0; g_moves = 0; g_throwAt = 0; g_out.clear();
  std::memset(g_state, 0, sizeof g_state);
  std::string res;
  if (cfg == "direct") res = Runner<HStream>([](World* w) { return HStream{w}; }).run(id, parts[2]);
  else if (cfg == "erased") res = Runner<Erased>([](World* w) { return type_erase<Elem>(HStream{w}); }).run(id, parts[2]);
  else if (cfg == "erased2") res = Runner<Erased>([](World* w) { return type_erase<Elem>(PassStream<Erased>{type_erase<Elem>(HStream{w})}); }).run(id, parts[2]);
  else if (cfg == "reerased") res = Runner<Erased>([](World* w) { return type_erase<Elem>(type_erase<Elem>(HStream{w})); }).run(id, parts[2]);
  else return "bad-op config";
  if (g_liveElems != 0) res += " !!leak-elem=" + S(g_liveElems);
  return res;
}

int main() {
  std::string line;
  std::cout << std::unitbuf;
  while (std::getline(std::cin, line)) {
    if (line.empty()) continue;
    std::string s;
    try { s = run_case(line.substr(line.find(' ') + 1)); }
    catch (const std::exception& e) { s = std::string("bad-op ") + e.what(); }
    std::cout << s << "\n";
  }
  return 0;
}
