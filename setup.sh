#!/bin/sh
# MANIFEST.setup_cmd — build the Lean library (models, theorems, driver) from files on disk only.
set -e
cd "$(dirname "$0")/lean"
lake build UnifexModel umdriver 2>&1 | grep -v "^trace" | tail -5
