#!/bin/bash
# run_all.sh [seed] [jobs] [ids...] — run the quick tier of every check (or the given ids) on /repo; logs in $VERIF_LOGDIR (default /tmp/verif_all)
cd "$(dirname "$0")"
seed=${1:-1}; jobs=${2:-4}; shift 2 2>/dev/null
ids=${@:-C01 C02 C03 C04 C05 C06 C07 C08 C09 C10 C11 C12 C13 C14 C15 C16 C17 C18 C19 C20}
out=${VERIF_LOGDIR:-/tmp/verif_all}; mkdir -p $out
for p in $ids; do [ -f tools/checks/${p,,}.py ] && echo $p; done | xargs -P $jobs -I{} sh -c "s=\$(date +%s); VERIF_SEED=$seed timeout 5400 ./check {} --tier ${VERIF_TIER:-quick} > $out/{}.$seed.log 2>&1; rc=\$?; echo {} seed=$seed rc=\$rc \$(( \$(date +%s)-s ))s \$(grep -c KNOWN-FINDING $out/{}.$seed.log) known \$(grep -c '^VIOLATION' $out/{}.$seed.log) violations"
