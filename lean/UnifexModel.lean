import UnifexModel.Core.Sched
import UnifexModel.Core.Reflect
import UnifexModel.Core.Admit
import UnifexModel.Driver.Registry
import UnifexModel.Props.C01
import UnifexModel.Props.C03
import UnifexModel.Props.C05
import UnifexModel.Props.C13
