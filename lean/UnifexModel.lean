import UnifexModel.Core.Sched
import UnifexModel.Core.Reflect
