/-
  Props/C16_v2_a.lean — property C16, v2 event: instance theorem by reflection (split from
  Props/C16_v2.lean so that the kernel evaluations run in parallel).
-/
import UnifexModel.Proto.EventV2
import UnifexModel.Lemmas.ReflectFast

namespace Unifex.Props.C16
open Unifex.Core Unifex.Proto.EventV2

/-- set(); reset() and a ready() probe race with one plain waiter, T0 releases it at the end:
    `safe` and scheduler affinity in every reachable state (`reset_affects_only_later`: a waiter
    that found the event latched or was drained by the first set() still completes exactly once). -/
theorem v2_set_reset_safe_inst :
    ∀ s, Reach (sys cfgSetReset) s → (safe cfgSetReset s && affine s) = true :=
  safe_of_checkC _ { coded with M := 1181, W := 240 } 400 _ (by decide +kernel)

end Unifex.Props.C16
