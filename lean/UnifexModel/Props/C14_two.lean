/-
  Props/C14_two.lean — property C14, two io_epoll_context instances (model Proto/TwoCtx.lean: the
  product of two Proto/RemoteQueue instances; B's producer steps are executed by the thread that
  runs A's loop, from inside an item of A).

  `two_ctx_inv`: the PARAMETRIC inductive invariant of the remote-queue protocol
  (Lemmas/RemoteQueue*) holds for BOTH contexts in every reachable state of the product — every
  product step is a step of exactly one component's own step function, so the preservation lemmas
  apply unchanged; no reflection, all schedules.  Consequences for the context that receives work
  from the other context's thread: no lost wake-up, nothing lost or duplicated, FIFO; items of a
  context are executed only by that context's loop (by construction of the product: `ran` of a
  component grows only in its own `stepLoop`).
  Not proved for the product: deadlock freedom (≈10⁴ states, too large for a kernel-evaluated
  closure); the harness's deadlock detector covers it on the real code.
-/
import UnifexModel.Proto.TwoCtx
import UnifexModel.Lemmas.RemoteQueueThms

namespace Unifex.Props.C14
open Unifex.Core Unifex.Proto
open Unifex.Proto.RemoteQueue (Inv)

theorem mem_next_stopper {cfg : RemoteQueue.Config} {a a' : RemoteQueue.St} {l : RemoteQueue.Lbl}
    (h : RemoteQueue.stepStopper cfg a = some (l, a')) : (l, a') ∈ (RemoteQueue.sys cfg).next a := by
  simp [RemoteQueue.sys, h]

theorem mem_next_loop {cfg : RemoteQueue.Config} {a a' : RemoteQueue.St} {l : RemoteQueue.Lbl}
    (h : RemoteQueue.stepLoop cfg a = some (l, a')) : (l, a') ∈ (RemoteQueue.sys cfg).next a := by
  simp [RemoteQueue.sys, h]

theorem mem_next_prod {cfg : RemoteQueue.Config} {a a' : RemoteQueue.St} {l : RemoteQueue.Lbl} {p : Nat}
    (hp : p < a.prods.length) (h : RemoteQueue.stepProd cfg a p = some (l, a')) :
    (l, a') ∈ (RemoteQueue.sys cfg).next a := by
  simp only [RemoteQueue.sys, List.mem_append, List.mem_filterMap, List.mem_range]
  exact Or.inr ⟨p, hp, h⟩

theorem mem_toList_map {α β : Type} {o : Option α} {f : α → β} {y : β} (h : y ∈ o.toList.map f) :
    ∃ x, o = some x ∧ y = f x := by
  cases o with
  | none => simp at h
  | some x => simp at h; exact ⟨x, rfl, h⟩

def Inv2 (s : TwoCtx.St) : Prop := Inv TwoCtx.cfgA s.a ∧ Inv TwoCtx.cfgB s.b

theorem prods_len_A {a : RemoteQueue.St} (h : Inv TwoCtx.cfgA a) : 0 < a.prods.length := by
  have := h.1.1; simp [RemoteQueue.nprod, TwoCtx.cfgA] at this; omega
theorem prods_len_B {b : RemoteQueue.St} (h : Inv TwoCtx.cfgB b) : 0 < b.prods.length := by
  have := h.1.1; simp [RemoteQueue.nprod, TwoCtx.cfgB] at this; omega

theorem inv2_step (s s' : TwoCtx.St) (l : RemoteQueue.Lbl) (h : Inv2 s) (hm : (l, s') ∈ TwoCtx.sys.next s) :
    Inv2 s' := by
  obtain ⟨ha, hb⟩ := h
  simp only [TwoCtx.sys, List.mem_append] at hm
  rcases hm with (hm | hm) | hm
  · -- the client
    unfold TwoCtx.stepClient at hm
    split at hm
    · obtain ⟨x, hx, he⟩ := mem_toList_map hm
      obtain ⟨l0, a'⟩ := x
      simp only [TwoCtx.inA, Prod.mk.injEq] at he
      obtain ⟨-, rfl⟩ := he
      exact ⟨RemoteQueue.inv_step _ _ _ _ ha (mem_next_prod (prods_len_A ha) hx), hb⟩
    · rw [List.mem_append] at hm
      rcases hm with hm | hm
      · split at hm
        · obtain ⟨x, hx, he⟩ := mem_toList_map hm
          obtain ⟨l0, a'⟩ := x
          simp only [TwoCtx.inA, Prod.mk.injEq] at he
          obtain ⟨-, rfl⟩ := he
          exact ⟨RemoteQueue.inv_step _ _ _ _ ha (mem_next_stopper hx), hb⟩
        · simp at hm
      · split at hm
        · obtain ⟨x, hx, he⟩ := mem_toList_map hm
          obtain ⟨l0, b'⟩ := x
          simp only [TwoCtx.inB, Prod.mk.injEq] at he
          obtain ⟨-, rfl⟩ := he
          exact ⟨ha, RemoteQueue.inv_step _ _ _ _ hb (mem_next_stopper hx)⟩
        · simp at hm
  · -- B's loop
    obtain ⟨x, hx, he⟩ := mem_toList_map hm
    obtain ⟨l0, b'⟩ := x
    simp only [TwoCtx.inB, Prod.mk.injEq] at he
    obtain ⟨-, rfl⟩ := he
    exact ⟨ha, RemoteQueue.inv_step _ _ _ _ hb (mem_next_loop hx)⟩
  · -- A's loop, or B's producer steps executed by A's loop thread
    unfold TwoCtx.stepLoopA at hm
    split at hm
    · obtain ⟨x, hx, he⟩ := mem_toList_map hm
      obtain ⟨l0, b'⟩ := x
      simp only [Prod.mk.injEq] at he
      obtain ⟨-, rfl⟩ := he
      exact ⟨ha, RemoteQueue.inv_step _ _ _ _ hb (mem_next_prod (prods_len_B hb) hx)⟩
    · obtain ⟨x, hx, he⟩ := mem_toList_map hm
      obtain ⟨l0, a'⟩ := x
      simp only [Prod.mk.injEq] at he
      obtain ⟨-, rfl⟩ := he
      exact ⟨RemoteQueue.inv_step _ _ _ _ ha (mem_next_loop hx), hb⟩

/-- PARAMETRIC-invariant reuse: in every reachable state of the two-context product both contexts
    satisfy the remote-queue invariant. -/
theorem two_ctx_inv : ∀ s, Reach TwoCtx.sys s → Inv2 s := fun _ hs =>
  invariant Inv2 ⟨RemoteQueue.inv_init _, RemoteQueue.inv_init _⟩ (fun s l s' hi hm => inv2_step s s' l hi hm) hs

/-- Work submitted to B from A's thread is never lost: when B's loop is blocked in epoll_wait and
    nobody (in particular not A's loop thread) owes B's eventfd write, B's remote queue is marked
    inactive and empty. -/
theorem two_ctx_no_lost_wakeup (s : TwoCtx.St) (hs : Reach TwoCtx.sys s)
    (hb : RemoteQueue.loopBlocked s.b = true) (hn : RemoteQueue.sigPending s.b = false) :
    s.b.inactive = true ∧ s.b.rq = [] :=
  RemoteQueue.no_lost_wakeup (two_ctx_inv s hs).2 hb hn

/-- In both contexts: executed ++ queued = enqueue history, without duplicates (each item at most
    once, FIFO, executed by the context's own loop only). -/
theorem two_ctx_items_once (s : TwoCtx.St) (hs : Reach TwoCtx.sys s) :
    (s.a.ran ++ RemoteQueue.pending s.a = s.a.enq ∧ s.a.enq.Nodup) ∧
    (s.b.ran ++ RemoteQueue.pending s.b = s.b.enq ∧ s.b.enq.Nodup) :=
  let h := two_ctx_inv s hs
  ⟨⟨h.1.2.1, h.1.2.2.2.1.1⟩, ⟨h.2.2.1, h.2.2.2.2.1.1⟩⟩

/-- exactly one eventfd write per inactive period, in B as in A -/
theorem two_ctx_wakeup_once (s : TwoCtx.St) (hs : Reach TwoCtx.sys s) :
    s.b.marks = s.b.writes + (if s.b.sigBy = 0 then 0 else 1) + (if s.b.inactive = true then 1 else 0) :=
  (two_ctx_inv s hs).2.1.2.2.2.2.2.2.2.2.2.2.2.2.2.2.1

/-- non-vacuity: a complete run in which B's loop had gone to sleep (queue marked inactive) before
    A's loop thread submitted item b, was woken by the eventfd write made from A's thread, ran b, and
    both run() calls returned. -/
def twoCtxWitness : List Nat :=
  [1, 1, 1, 1, 1, 1, 1, 1, 1, 1, 1, 1, 1, 1, 0, 0, 0, 1, 1, 1, 1, 1, 1, 1, 1, 1, 1, 1, 1, 1, 1, 1, 1, 1, 1, 1, 1, 1, 1,
   1, 1, 1, 1, 1, 1, 1, 1, 0, 0, 0, 0, 0, 1, 1, 1, 1, 1, 1, 1, 1, 1, 1, 1, 1, 0, 0, 0, 0, 0, 1, 1, 1, 1, 1, 1, 1, 1, 1,
   1, 1, 1, 0]

theorem two_ctx_completes : ∃ s, Reach TwoCtx.sys s ∧
    (TwoCtx.final s && TwoCtx.safe s && decide (s.b.marks = 2) && decide (s.b.writes = 2) &&
     (s.b.ran == [(0, 0), (1, 0)]) && (s.a.ran == [(0, 0), (1, 0)])) = true := by
  have h : (match runChoices TwoCtx.sys TwoCtx.sys.init twoCtxWitness with
      | some (_, s) => TwoCtx.final s && TwoCtx.safe s && decide (s.b.marks = 2) && decide (s.b.writes = 2) &&
          (s.b.ran == [(0, 0), (1, 0)]) && (s.a.ran == [(0, 0), (1, 0)])
      | none => false) = true := by decide +kernel
  cases hr : runChoices TwoCtx.sys TwoCtx.sys.init twoCtxWitness with
  | none => simp [hr] at h
  | some p =>
    obtain ⟨ls, s⟩ := p
    simp only [hr] at h
    exact ⟨s, runChoices_reach _ _ _ _ _ Reach.init hr, h⟩

end Unifex.Props.C14
