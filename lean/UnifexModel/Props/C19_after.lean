/-
  Props/C19_after.lean — cancellable<>: completion (T1) and stop request (T2) arrive after start() has
  returned (Proto/CancellableAfter.lean, a sub-system of the full model).  Here the FULL property
  holds: one winner, hook at most once and only for a started, not yet completed op, nothing touches
  the op after the winner completed the receiver, no deadlock.
-/
import UnifexModel.Props.C19
import UnifexModel.Proto.CancellableAfter

namespace Unifex.Props.C19.After
open Unifex.Core Unifex.Proto Unifex.Proto.Cancellable Unifex.Proto.CancellableAfter

theorem c_after_start_safe :
    ∀ s, Reach (CancellableAfter.sys cfgAfterStart) s → CancellableAfter.safe cfgAfterStart s = true :=
  safe_of_check _ { coded with M := 251 } 400 _ (by decide +kernel)

/-- try_complete as the only arbiter: of the two calls exactly one returns true -/
theorem c_noarb_after_start_safe :
    ∀ s, Reach (CancellableAfter.sys cfgNoArbAfterStart) s → CancellableAfter.safe cfgNoArbAfterStart s = true :=
  safe_of_check _ { coded with M := 251 } 400 _ (by decide +kernel)

theorem safe_spelled (cfg : Config) (s : St) (h : CancellableAfter.safe cfg s = true) :
    s.bad = 0 ∧ s.completions ≤ 1 ∧ s.tcTrue ≤ 1 ∧ s.hookRuns ≤ 1 ∧ s.nestedStarts ≤ 1 ∧
    s.startAfterHook = false ∧ s.hookLate = false ∧ (s.doneWins = 0 ∨ s.hookRuns = 1) ∧
    (((CancellableAfter.sys cfg).next s).isEmpty = true → final cfg s = true) ∧
    (final cfg s = true → s.completions = 1 ∧ s.freed = true) := by
  unfold CancellableAfter.safe at h
  simp only [Bool.and_eq_true, decide_eq_true_eq, Bool.or_eq_true, Bool.not_eq_true'] at h
  obtain ⟨⟨⟨⟨⟨⟨⟨⟨⟨h0, h1⟩, h2⟩, h3⟩, h4⟩, h5⟩, hl⟩, h6⟩, h7⟩, h8⟩ := h
  refine ⟨h0, h1, h2, h3, h4, h5, hl, h6, ?_, ?_⟩
  · intro hd
    rcases h7 with h7 | h7
    · simp [hd] at h7
    · exact h7
  · intro hf
    rcases h8 with h8 | h8
    · simp [hf] at h8
    · exact h8

/-- `no_touch_after_winner` + `one_winner` when nothing arrives during start() -/
theorem c_after_start_no_touch_one_winner :
    ∀ s, Reach (CancellableAfter.sys cfgAfterStart) s →
      s.bad = 0 ∧ s.completions ≤ 1 ∧ (final cfgAfterStart s = true → s.completions = 1 ∧ s.freed = true) :=
  fun s h => let r := safe_spelled _ s (c_after_start_safe s h); ⟨r.1, r.2.1, r.2.2.2.2.2.2.2.2.2⟩

/-- the stop callback's arbitration: when completion (T1) and stop request (T2) race after start() has
    returned, the hook is never called for an operation whose completion has been claimed -/
theorem c_after_start_hook_only_unclaimed :
    ∀ s, Reach (CancellableAfter.sys cfgAfterStart) s → s.hookLate = false ∧ s.hookRuns ≤ 1 :=
  fun s h => let r := safe_spelled _ s (c_after_start_safe s h); ⟨r.2.2.2.2.2.2.1, r.2.2.2.1⟩

end Unifex.Props.C19.After
