/-
  Props/C16_v2.lean — property C16, part 3: the v2 async_manual_reset_event (latchable abstract
  waiter list + cancellable<> + reschedule with an unstoppable token).
  ONLY property theorems and examples.  Model: Proto/EventV2.lean.

  All theorems here are PER INSTANCE (kernel-evaluated closure of the reachable set, every
  schedule of every length); more instances in Props/C16_v2_a.lean, Props/C16_v2_b.lean.
  ASSUMED: the operations of atomic_intrusive_list are linearizable (they are single steps here).

  The model follows the repaired event (tools/checks/c16_repair.patch: stop() sets `cancelled_` and
  goes through the same unstoppable reschedule as set_value), so `completion_on_waiters_scheduler`
  (`affine`) is part of EVERY instance theorem, cancellation included.  The scenario monitor for it
  stays armed: on a tree without the repair `./check C16` reports a VIOLATION.
-/
import UnifexModel.Proto.EventV2
import UnifexModel.Lemmas.ReflectFast

namespace Unifex.Props.C16
open Unifex.Core Unifex.Proto.EventV2

/-- What `safe` says, spelled out. -/
theorem v2_safe_spelled (cfg : Config) (s : St) (h : safe cfg s = true) :
    -- nobody completed twice, with value without a set(), with done without a stop request, with
    -- value after a stop() had removed it from the list (a waiter that won the cancel race never gets
    -- value), or with done without such a removal; the operation state is never accessed after its
    -- completion was delivered
    s.bad = 0
    ∧ (∀ w ∈ s.ws, w.count ≤ 1)
    -- no deadlock (covers: destroying a stop callback that runs elsewhere, the sync_complete spin)
    ∧ (((sys cfg).next s).isEmpty = true → final cfg s = true)
    -- at the end every waiter has completed exactly once
    ∧ (final cfg s = true → ∀ w ∈ s.ws, w.count = 1) := by
  unfold safe at h
  simp only [Bool.and_eq_true, Bool.or_eq_true, List.all_eq_true, decide_eq_true_eq,
    Bool.not_eq_true', beq_iff_eq] at h
  obtain ⟨⟨⟨h1, h2⟩, h3⟩, h4⟩ := h
  refine ⟨h1, h2, ?_, ?_⟩
  · intro hd
    rcases h3 with h3 | h3
    · rw [hd] at h3; cases h3
    · exact h3
  · intro hf
    rcases h4 with h4 | h4
    · rw [hf] at h4; cases h4
    · exact h4

/-- two plain waiters vs one set(): `safe`, and every completion runs on the waiter's own scheduler
    thread (`completion_on_waiters_scheduler` for value completions). -/
theorem v2_two_waiters_safe_inst :
    ∀ s, Reach (sys cfgTwoWaiters) s → (safe cfgTwoWaiters s && affine s) = true :=
  safe_of_checkC _ { coded with M := 601, W := 256 } 400 _ (by decide +kernel)

/-- one cancellable waiter, stop request vs start, final set(): `safe` (exactly one completion,
    value only after a set, done only after a stop request that removed the waiter, no access to
    the operation after completion, no deadlock) and `completion_on_waiters_scheduler`: the
    set_done of the cancelled wait runs on the waiter's own scheduler thread, like set_value. -/
theorem v2_cancel_safe_inst : ∀ s, Reach (sys cfgCancel) s → (safe cfgCancel s && affine s) = true :=
  safe_of_checkC _ { coded with M := 431, W := 192 } 400 _ (by decide +kernel)

/-- non-vacuity: the cancellation can win — a final state in which a stop() removed the waiter and
    it completed with done (on its own thread, by `v2_cancel_safe_inst`). -/
def v2CancelWitness : List Nat := [0, 1, 1, 0, 0, 0, 0, 0, 0, 0, 0, 0, 0, 0, 0, 0, 0]

example : ∃ s, Reach (sys cfgCancel) s ∧ final cfgCancel s = true ∧ (getW s 0).outcome = 2 ∧
    (getW s 0).removed = true := by
  have h : (match runChoices (sys cfgCancel) (sys cfgCancel).init v2CancelWitness with
      | some (_, s) => final cfgCancel s && decide ((getW s 0).outcome = 2) && (getW s 0).removed
      | none => false) = true := by
    decide +kernel
  cases hr : runChoices (sys cfgCancel) (sys cfgCancel).init v2CancelWitness with
  | none => simp [hr] at h
  | some p =>
    obtain ⟨ls, s⟩ := p
    simp only [hr, Bool.and_eq_true, decide_eq_true_eq] at h
    exact ⟨s, runChoices_reach _ _ _ _ _ Reach.init hr, h.1.1, h.1.2, h.2⟩

/-- non-vacuity: both waiters can be enqueued first and then completed with value by the set() -/
def v2Witness : List Nat := [0, 1, 2, 2, 0, 0, 0, 0, 0, 0, 0, 0, 0, 0, 0]

example : ∃ s, Reach (sys cfgTwoWaiters) s ∧ final cfgTwoWaiters s = true ∧
    s.ws.all (fun w => w.outcome == 1) = true := by
  have h : (match runChoices (sys cfgTwoWaiters) (sys cfgTwoWaiters).init v2Witness with
      | some (_, s) => final cfgTwoWaiters s && s.ws.all (fun w => w.outcome == 1) | none => false) = true := by
    decide +kernel
  cases hr : runChoices (sys cfgTwoWaiters) (sys cfgTwoWaiters).init v2Witness with
  | none => simp [hr] at h
  | some p =>
    obtain ⟨ls, s⟩ := p
    simp only [hr, Bool.and_eq_true] at h
    exact ⟨s, runChoices_reach _ _ _ _ _ Reach.init hr, h.1, h.2⟩

end Unifex.Props.C16
