/-
  Props/C15_v2e.lean — property C15, v2 async_mutex, part e: unlock (pop_front) races with the
  cancellation (try_remove) of the first of two queued waiters, deferred scheduler.
  ONLY property theorems; model: Proto/MutexV2.lean; `safeFull` is spelled out in C15_v2a.
-/
import UnifexModel.Proto.MutexV2

namespace Unifex.Props.C15
open Unifex.Core Unifex.Proto.MutexV2

/-- unconditional: exactly one of pop_front / try_remove gets the first waiter; it ends with value
    (owning, then unlocking) or with done (never owning); the second waiter is always served -/
theorem v2_cancel_first_safe : ∀ s, Reach (sys cfgCancelFirst) s → safeFull cfgCancelFirst s = true :=
  safe_of_check _ { coded with M := 631, W := 272 } 400 _ (by decide +kernel)

end Unifex.Props.C15
