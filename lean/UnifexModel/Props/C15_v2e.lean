/-
  Props/C15_v2e.lean — property C15, v2 async_mutex, part e: the model of the REPAIRED
  completion_forwarder (`fwdStop := false`: the rescheduling receiver answers get_stop_token with
  unstoppable_token).  With the repair the FULL property holds — the end-state clause (every started
  waiter completes exactly once, lock not leaked) without the `noHazard` guard — in the scenarios
  where the code as it stands leaks the lock (C15_v2a.v2_lock_leak_witness).
  ONLY property theorems; model: Proto/MutexV2.lean.
-/
import UnifexModel.Proto.MutexV2

namespace Unifex.Props.C15
open Unifex.Core Unifex.Proto.MutexV2

/-- `safeFull` = `safe` plus the unguarded end-state clause -/
theorem v2_safeFull_spelled (cfg : Config) (s : St) (h : safeFull cfg s = true) :
    safe cfg s = true ∧ (final cfg s = true → endOk s = true) := by
  unfold safeFull at h
  simp only [Bool.and_eq_true, Bool.or_eq_true, Bool.not_eq_eq_eq_not, Bool.not_true] at h
  refine ⟨h.1, fun hf => ?_⟩
  rcases h.2 with h2 | h2
  · simp [hf] at h2
  · exact h2

/-- the sequential reproducer of the leak, repaired: no leak, waiter 1 is served -/
theorem v2_leak_seq_fixed_safe :
    ∀ s, Reach (sys { cfgLeakSeq with fwdStop := false }) s → safeFull { cfgLeakSeq with fwdStop := false } s = true :=
  safe_of_check _ { coded with M := 101, W := 264 } 400 _ (by decide +kernel)

/-- uncontended start() + stop request at any time (inline scheduler), repaired -/
theorem v2_inline_stop_fixed_safe :
    ∀ s, Reach (sys { cfgInlineStop with fwdStop := false }) s → safeFull { cfgInlineStop with fwdStop := false } s = true :=
  safe_of_check _ { coded with M := 277, W := 192 } 400 _ (by decide +kernel)

end Unifex.Props.C15
