/-
  Props/C15_v2d.lean — property C15, v2 async_mutex, part d: stop requests against queued waiters
  (deferred scheduler): before start, while queued, racing with the hand-off, after the hand-off.
  ONLY property theorems; model: Proto/MutexV2.lean; `safe` is spelled out in
  C15_v2a.v2_safe_spelled.
-/
import UnifexModel.Proto.MutexV2

namespace Unifex.Props.C15
open Unifex.Core Unifex.Proto.MutexV2

/-- stop request at ANY time relative to the queued waiter: everything except `lock not leaked`
    unconditionally; `lock not leaked` / `every waiter completes` when no stop request was pending
    between hand-off and delivery. -/
theorem v2_handoff_stop_safe_partial : ∀ s, Reach (sys cfgHandoffStop) s → safe cfgHandoffStop s = true :=
  safe_of_check _ { coded with M := 587, W := 200 } 400 _ (by decide +kernel)

/-- unlock (pop_front) races with the cancellation (try_remove) of the first of two waiters -/
theorem v2_cancel_first_safe_partial : ∀ s, Reach (sys cfgCancelFirst) s → safe cfgCancelFirst s = true :=
  safe_of_check _ { coded with M := 521, W := 272 } 400 _ (by decide +kernel)

end Unifex.Props.C15
