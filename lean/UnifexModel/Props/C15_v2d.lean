/-
  Props/C15_v2d.lean — property C15, v2 async_mutex, part d: a stop request against a queued
  waiter at ANY time (before start, while queued, racing with the hand-off, after the hand-off),
  deferred scheduler.  ONLY property theorems; model: Proto/MutexV2.lean; `safeFull` is spelled out
  in C15_v2a.
-/
import UnifexModel.Proto.MutexV2

namespace Unifex.Props.C15
open Unifex.Core Unifex.Proto.MutexV2

/-- unconditional: whatever the timing of the stop request, mutual exclusion, cancelled-never-owns,
    every waiter completes exactly once and the lock is never leaked -/
theorem v2_handoff_stop_safe : ∀ s, Reach (sys cfgHandoffStop) s → safeFull cfgHandoffStop s = true :=
  safe_of_check _ { coded with M := 631, W := 200 } 400 _ (by decide +kernel)

end Unifex.Props.C15
