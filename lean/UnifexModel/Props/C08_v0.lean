/-
  Props/C08_v0.lean — property C08 for `unifex::v0::async_scope` (model Proto/ScopeV0.lean =
  Proto/ScopeV1.lean with `v0 := true`): instance theorems by reflection.
  v0's cleanup() calls end_of_scope once, so — unlike v1's — a single cleanup() never lets a
  completing operation touch the scope after cleanup completed (`v0_cleanup_safe` includes
  `noLateTouch`).
-/
import UnifexModel.Proto.ScopeV0

namespace Unifex.Props.C08_v0
open Unifex.Core Unifex.Proto.ScopeV1 Unifex.Proto

theorem v0_complete_safe : ∀ s, Reach (sys ScopeV0.cfgComplete) s → safeQ ScopeV0.cfgComplete s = true :=
  safe_of_check _ { coded with M := 509 } 400 _ (by decide +kernel)

theorem v0_cleanup_safe : ∀ s, Reach (sys ScopeV0.cfgCleanup) s → safeQ ScopeV0.cfgCleanup s = true :=
  safe_of_check _ { coded with M := 251 } 400 _ (by decide +kernel)

/-- admission racing the close of an empty scope: the spawn is either admitted before the close (and complete() waits
    for it) or rejected and never started -/
theorem v0_spawn_race_safe : ∀ s, Reach (sys ScopeV0.cfgSpawnRace) s → safeQ ScopeV0.cfgSpawnRace s = true :=
  safe_of_check _ { coded with M := 251 } 400 _ (by decide +kernel)

end Unifex.Props.C08_v0
