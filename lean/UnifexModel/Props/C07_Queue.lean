/-
  Props/C07_Queue.lean — property C07, queue part: "sorted + stable" determines the queue.
  ONLY property theorems (parametric, by induction).

  `Props.C07.insert_sorted` and `insert_stable` say that the result of an insertion is sorted and
  that every class of equal due times keeps its order with the new item last.  The theorem here
  shows that these two facts leave no freedom: two sorted queues with the same per-class
  subsequences are EQUAL.  So `insertStable` is the only function with the two properties, and the
  differential comparison of the three real enqueue walks against it checks exactly "ascending due
  time, ties first-in first-out" — nothing more, nothing less.
-/
import UnifexModel.Proto.TimerQueue

namespace Unifex.Props.C07_Queue
open Unifex.Proto.TimerQueue

theorem sorted_classes_unique (l1 l2 : Queue) (h1 : Sorted l1) (h2 : Sorted l2)
    (h : ∀ d : Int, l1.filter (fun y => decide (y.due = d)) = l2.filter (fun y => decide (y.due = d))) :
    l1 = l2 := by
  induction l1 generalizing l2 with
  | nil =>
    cases l2 with
    | nil => rfl
    | cons y r2 =>
      have := h y.due
      simp at this
  | cons x r1 ih =>
    cases l2 with
    | nil =>
      have := h x.due
      simp at this
    | cons y r2 =>
      unfold Sorted at h1 h2
      rw [List.pairwise_cons] at h1 h2
      -- x occurs in l2 and y occurs in l1, hence equal (minimal) due times
      have hx : x ∈ (y :: r2) := by
        have hm : x ∈ (x :: r1).filter (fun z => decide (z.due = x.due)) := by simp
        rw [h x.due] at hm
        exact (List.mem_filter.mp hm).1
      have hy : y ∈ (x :: r1) := by
        have hm : y ∈ (y :: r2).filter (fun z => decide (z.due = y.due)) := by simp
        rw [← h y.due] at hm
        exact (List.mem_filter.mp hm).1
      have hle1 : y.due ≤ x.due := by
        rcases List.mem_cons.mp hx with e | e
        · rw [e]; exact Int.le_refl _
        · exact h2.1 x e
      have hle2 : x.due ≤ y.due := by
        rcases List.mem_cons.mp hy with e | e
        · rw [e]; exact Int.le_refl _
        · exact h1.1 y e
      have hd : x.due = y.due := Int.le_antisymm hle2 hle1
      have h0 := h x.due
      have hyd : decide (y.due = x.due) = true := by simp [hd]
      simp only [List.filter_cons, decide_true, hyd, if_true, List.cons.injEq] at h0
      obtain ⟨hxy, _⟩ := h0
      subst hxy
      congr 1
      apply ih r2 h1.2 h2.2
      intro d
      have hd' := h d
      simp only [List.filter_cons] at hd'
      by_cases hc : x.due = d
      · simp only [hc, decide_true, if_true, List.cons.injEq, true_and] at hd'
        exact hd'
      · simp only [hc, decide_false] at hd'
        simpa using hd'

/-- consequence: a function that keeps queues sorted and is stable in the sense of
    `insert_stable` agrees with `insertStable` on every sorted queue -/
theorem insertStable_unique (f : Item → Queue → Queue)
    (hs : ∀ x q, Sorted q → Sorted (f x q))
    (hst : ∀ x q d, Sorted q → (f x q).filter (fun y => decide (y.due = d)) =
        q.filter (fun y => decide (y.due = d)) ++ (if x.due = d then [x] else []))
    (x : Item) (q : Queue) (h : Sorted q) : f x q = insertStable x q :=
  sorted_classes_unique _ _ (hs x q h) (insert_sorted x q h)
    (fun d => by rw [hst x q d h, insert_stable x q h d])

end Unifex.Props.C07_Queue
