/-
  Props/C04.lean — property C04 (event level): stop requests reach running children; algorithms stop
  the losers; successors start already-stopped.  ONLY property theorems + non-vacuity examples.
  (Schedule-level races of when_all / stop_when: Props/C04_Atomic.lean.)

  The single invariant `StopInv` (Calc/StopInv.lean) packages, for every running node:
   leaf — token stopped ⇒ notification received; adaptors — child invariant under the token the
   adaptor hands down (none for `unstoppable`); when_all / stop_when — own source stopped as soon as
   the receiver's token is, and as soon as a child failed / either child finished ("losers are
   stopped"), children invariant under that source; let_*/sequence/finally — the environment for
   the not-yet-started successor is stopped whenever the token is.
-/
import UnifexModel.Calc.StopInv

namespace Unifex.Props.C04
open Unifex.Calc

variable (specs : Nat → LeafSpec)

/-- the tree after a list of events -/
def after (op : Op) : List Ev → Op
  | [] => op
  | ev :: evs => after (deliver specs (op.height + 1) ev op).1 evs

/-- **Start establishes the invariant** for every expression: the token status is whatever the
    receiver's environment says at start(). -/
theorem stop_invariant_at_start (e : Expr) (env : Env) :
    StopInv (deliver specs ((connect e).height + 1) (.start env) (connect e)).1 env.stopped := by
  have := stopInv_deliver specs ((connect e).height + 1) (.start env) (connect e) env.stopped
    (allIdle_stopInv _ _ (allIdle_connect e)) (by intro e' he ht; cases he; exact ht)
  simpa [Ev.isStop] using this

/-- **Every later event preserves it** — for every expression, leaf script and event sequence
    (any number of stop requests and leaf completions in any order): after the events, the
    invariant holds for the token status "stopped at start or some stop event occurred". -/
theorem stop_invariant_always (op : Op) (tok : Bool) (evs : List Ev) (h : StopInv op tok)
    (hev : ∀ ev ∈ evs, ∀ env, ev ≠ .start env) :
    StopInv (after specs op evs) (tok || evs.any Ev.isStop) := by
  induction evs generalizing op tok with
  | nil => simpa [after] using h
  | cons ev evs ih =>
    have h1 := stopInv_deliver specs (op.height + 1) ev op tok h
      (by intro env he; exact absurd he (hev ev List.mem_cons_self env))
    have := ih _ _ h1 (fun ev' h' => hev ev' (List.mem_cons_of_mem _ h'))
    simpa [after, List.any_cons, Bool.or_assoc] using this

/-! ### What the invariant says, node by node (reading lemmas) -/

/-- a running leaf whose token has been stopped has received the stop notification -/
theorem stopped_leaf_notified (i : Nat) (nt : Bool) (h : StopInv (.leaf i .running nt) true) : nt = true := by
  simpa [StopInv] using h

/-- through any stack of stop-forwarding adaptors (then, upon_*, materialize, with_query_value,
    let_value_with_stop_source, any_sender_of …) the child sees the same token -/
theorem adaptor_forwards_stop (k : UnKind) (c : Op) (env : Env) (tok : Bool) (hk : k.forwardsStop = true)
    (h : StopInv (.un k c .running env) tok) : StopInv c tok := by
  have := h.2 rfl
  simpa [hk] using this

/-- `unstoppable` hides the request: its child is only required to satisfy the invariant for a
    never-stopped token -/
theorem unstoppable_hides_stop (c : Op) (env : Env) (tok : Bool)
    (h : StopInv (.un .unstoppable c .running env) tok) : StopInv c false := by
  have := h.2 rfl
  simpa [UnKind.forwardsStop] using this

/-- when_all / when_any (for which EVERY first completion counts as a failure): once the receiver's token is stopped, or once a child has failed, the when_all's own
    source is stopped and BOTH children satisfy the invariant for a stopped token — in particular a
    still-running sibling leaf has been notified ("losers are stopped") -/
theorem when_all_stops_children (k : BinKind) (hk : k = .whenAll ∨ k = .whenAny) (a b : Op) (st : BinSt) (tok : Bool)
    (hph : st.ph = .running)
    (h : StopInv (.bin k a b st) tok) (hcause : tok = true ∨ st.doe = true) :
    st.src = true ∧ StopInv a true ∧ StopInv b true := by
  rw [stopInv_wa k hk] at h
  obtain ⟨h1, h2, _, _, h5, h6⟩ := h.2 hph
  have hs : st.src = true := by rcases hcause with hc | hc; exact h1 hc; exact h2 hc
  rw [hs] at h5 h6
  exact ⟨hs, h5, h6⟩

/-- stop_when: as soon as either the source or the trigger has finished (or the receiver's token is
    stopped) the other one has been told to stop -/
theorem stop_when_stops_other (a b : Op) (st : BinSt) (tok : Bool) (hph : st.ph = .running)
    (h : StopInv (.bin .stopWhen a b st) tok) (hcause : tok = true ∨ st.ra.isSome = true ∨ st.rb.isSome = true) :
    st.src = true ∧ StopInv a true ∧ StopInv b true := by
  rw [stopInv_sw] at h
  obtain ⟨h1, h2, h3, _, _, h6, h7⟩ := h.2 hph
  have hs : st.src = true := by
    rcases hcause with hc | hc | hc
    · exact h1 hc
    · exact h2 hc
    · exact h3 hc
  rw [hs] at h6 h7
  exact ⟨hs, h6, h7⟩

/-- let_value / let_error / let_done / sequence / finally: while the first operation runs, the
    successor has not been started, and the environment it WILL be started with is already stopped
    whenever the token is — "children that have not been started yet start already-stopped" -/
theorem successor_starts_stopped (k : BinKind) (a b : Op) (st : BinSt)
    (h1 : k ≠ .whenAll) (h2 : k ≠ .stopWhen) (h3 : k ≠ .whenAny) (hph : st.ph = .running) (hsec : st.second = false)
    (h : StopInv (.bin k a b st) true) : st.env.stopped = true ∧ AllIdle b := by
  rw [stopInv_seq _ _ _ _ _ h1 h2 h3] at h
  obtain ⟨h3, h4, _⟩ := h.2 hph
  exact ⟨h3 rfl, (h4 hsec).2⟩

/-- non-vacuity: a running when_all over two pending leaves satisfies the invariant after a stop,
    and both leaves are notified -/
example :
    let specs : Nat → LeafSpec := fun _ => .pending .ignore
    let op := after specs (connect (.bin .whenAll (.leaf 1) (.leaf 2))) [.start rootEnv, .stop]
    op = .bin .whenAll (.leaf 1 .running true) (.leaf 2 .running true)
      { BinSt.init with ph := .running, env := { rootEnv with stopped := true }, src := true } := by
  decide

end Unifex.Props.C04
