/-
  Props/C06_queue2.lean — C06, atomic_intrusive_queue instance with two racing producers
  (enqueue racing with try_mark_inactive_or_dequeue_all; see `C06_queue.lean: queue_safe_spelled`).
-/
import UnifexModel.Proto.AtomicQueue

namespace Unifex.Props.C06
open Unifex.Core Unifex.Proto.AtomicQueue

theorem aq_2x1_safe : ∀ s, Reach (sys cfgAq2x1) s → safe cfgAq2x1 s = true :=
  safe_of_check _ { coded with M := 1297, W := 200 } 400 _ (by decide +kernel)

end Unifex.Props.C06
