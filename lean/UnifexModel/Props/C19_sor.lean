/-
  Props/C19_sor.lean — stop_on_request(external token): start() on T0 against stop requests on the
  receiver's source and on the external source.
-/
import UnifexModel.Props.C19

namespace Unifex.Props.C19.StopOnRequest
open Unifex.Core Unifex.Proto.StopOnRequest

theorem s_two_safe : ∀ s, Reach (sys cfgTwo) s → safe cfgTwo s = true :=
  safe_of_check _ { coded with M := 1021 } 400 _ (by decide +kernel)

theorem s_ext_safe : ∀ s, Reach (sys cfgExt) s → safe cfgExt s = true :=
  safe_of_check _ { coded with M := 251 } 400 _ (by decide +kernel)

/-- the first stop callback (or start() on its behalf) completes the receiver, exactly once -/
theorem s_two_one_winner :
    ∀ s, Reach (sys cfgTwo) s → s.bad = 0 ∧ s.completions ≤ 1 ∧ (final cfgTwo s = true → s.completions = 1) :=
  fun s h => let r := safe_spelled cfgTwo s (s_two_safe s h); ⟨r.1, r.2.1, fun hf => (r.2.2.2 hf).1⟩

end Unifex.Props.C19.StopOnRequest
