/-
  Props/C13.lean — property C13 (placeholder while the harness is brought up).
-/
import UnifexModel.Calc.Stream

namespace Unifex.Props.C13
open Unifex.Stream

theorem connect_idle (e : SExpr) : (connect e).ph = .idle := by
  induction e <;> simp_all [connect, Op.ph, LeafSt.init, StopImmSt.init, TakeSt.init]

end Unifex.Props.C13
